#![feature(rustc_private)]
extern crate rustc_abi;
extern crate rustc_driver;
extern crate rustc_hir;
extern crate rustc_interface;
extern crate rustc_middle;
extern crate rustc_span;

use rustc_driver::Compilation;
use rustc_hir::def::DefKind;
use rustc_middle::mir::*;
use rustc_middle::ty::{self, Instance, Ty, TyCtxt, TypingEnv};
use std::fmt::Write as _;

struct Cb;

fn esc(s: &str) -> String {
    let mut o = String::with_capacity(s.len() + 2);
    o.push('"');
    for c in s.chars() {
        match c {
            '"' => o.push_str("\\\""),
            '\\' => o.push_str("\\\\"),
            '\n' => o.push_str("\\n"),
            '\t' => o.push_str("\\t"),
            c if (c as u32) < 0x20 => { let _ = write!(o, "\\u{:04x}", c as u32); }
            c => o.push(c),
        }
    }
    o.push('"');
    o
}

fn ty_json<'tcx>(tcx: TyCtxt<'tcx>, t: Ty<'tcx>) -> String {
    let k = match t.kind() {
        ty::Bool => "{\"k\":\"bool\"}".to_string(),
        ty::Int(i) => format!("{{\"k\":\"int\",\"s\":true,\"bits\":{}}}", i.bit_width().unwrap_or(64)),
        ty::Uint(u) => format!("{{\"k\":\"int\",\"s\":false,\"bits\":{}}}", u.bit_width().unwrap_or(64)),
        ty::Float(f) => format!("{{\"k\":\"float\",\"bits\":{}}}", f.bit_width()),
        ty::Adt(def, _) => format!("{{\"k\":\"adt\",\"path\":{}}}", esc(&tcx.def_path_str(def.did()))),
        ty::Ref(_, inner, m) => format!("{{\"k\":\"ref\",\"mut\":{},\"to\":{}}}", m.is_mut(), ty_json(tcx, *inner)),
        ty::RawPtr(inner, m) => format!("{{\"k\":\"ptr\",\"mut\":{},\"to\":{}}}", m.is_mut(), ty_json(tcx, *inner)),
        ty::Array(inner, n) => format!("{{\"k\":\"array\",\"len\":{},\"of\":{}}}", n.try_to_target_usize(tcx).map(|x| x.to_string()).unwrap_or("null".into()), ty_json(tcx, *inner)),
        ty::Slice(inner) => format!("{{\"k\":\"slice\",\"of\":{}}}", ty_json(tcx, *inner)),
        ty::Tuple(ts) => format!("{{\"k\":\"tuple\",\"of\":[{}]}}", ts.iter().map(|x| ty_json(tcx, x)).collect::<Vec<_>>().join(",")),
        ty::Closure(d, _) => format!("{{\"k\":\"closure\",\"path\":{}}}", esc(&tcx.def_path_str(*d))),
        ty::FnDef(d, _) => format!("{{\"k\":\"fndef\",\"path\":{}}}", esc(&tcx.def_path_str(*d))),
        ty::Param(p) => format!("{{\"k\":\"param\",\"name\":{}}}", esc(p.name.as_str())),
        ty::Never => "{\"k\":\"never\"}".to_string(),
        _ => "{\"k\":\"other\"}".to_string(),
    };
    format!("{{\"s\":{},\"t\":{}}}", esc(&t.to_string()), k)
}

fn place_json<'tcx>(tcx: TyCtxt<'tcx>, body: &Body<'tcx>, p: &Place<'tcx>) -> String {
    let mut proj = Vec::new();
    for (_base, e) in p.iter_projections() {
        proj.push(match e {
            ProjectionElem::Deref => "{\"p\":\"deref\"}".to_string(),
            ProjectionElem::Field(f, _) => format!("{{\"p\":\"field\",\"i\":{}}}", f.as_usize()),
            ProjectionElem::Index(l) => format!("{{\"p\":\"index\",\"l\":{}}}", l.as_usize()),
            ProjectionElem::ConstantIndex { offset, min_length, from_end } => format!("{{\"p\":\"cindex\",\"off\":{},\"min\":{},\"end\":{}}}", offset, min_length, from_end),
            ProjectionElem::Subslice { from, to, from_end } => format!("{{\"p\":\"subslice\",\"from\":{},\"to\":{},\"end\":{}}}", from, to, from_end),
            ProjectionElem::Downcast(n, v) => format!("{{\"p\":\"downcast\",\"v\":{},\"name\":{}}}", v.as_usize(), esc(&n.map(|s| s.to_string()).unwrap_or_default())),
            _ => "{\"p\":\"other\"}".to_string(),
        });
    }
    let t = p.ty(body, tcx).ty;
    format!("{{\"l\":{},\"proj\":[{}],\"ty\":{}}}", p.local.as_usize(), proj.join(","), esc(&t.to_string()))
}

fn const_json<'tcx>(tcx: TyCtxt<'tcx>, env: TypingEnv<'tcx>, c: &ConstOperand<'tcx>) -> String {
    let t = c.const_.ty();
    let mut extra = String::new();
    if let ty::FnDef(d, args) = t.kind() {
        let mut resolved = String::from("null");
        let mut rkind = String::from("null");
        if let Ok(Some(inst)) = Instance::try_resolve(tcx, env, *d, args) {
            resolved = esc(&tcx.def_path_str(inst.def_id()));
            rkind = esc(&format!("{:?}", std::mem::discriminant(&inst.def)));
            let _ = rkind;
            rkind = esc(match inst.def { ty::InstanceKind::Item(_) => "item", ty::InstanceKind::Virtual(..) => "virtual", ty::InstanceKind::Intrinsic(_) => "intrinsic", _ => "shim" });
        }
        let mut closures = Vec::new();
        for a in args.iter() {
            if let Some(at) = a.as_type() {
                at.walk().for_each(|g| { if let Some(gt) = g.as_type() { if let ty::Closure(cd, _) = gt.kind() { closures.push(esc(&tcx.def_path_str(*cd))); } } });
            }
        }
        let _ = write!(extra, ",\"fn\":{},\"args\":{},\"resolved\":{},\"rkind\":{},\"closures\":[{}],\"local\":{}",
            esc(&tcx.def_path_str(*d)), esc(&format!("{:?}", args)), resolved, rkind, closures.join(","), d.is_local());
    } else {
        // try evaluate to scalar
        let v = c.const_.try_eval_scalar_int(tcx, env);
        if let Some(si) = v {
            let bits = si.to_bits(si.size());
            let _ = write!(extra, ",\"bits\":\"{}\",\"size\":{}", bits, si.size().bytes());
        }
        if let Some(sd) = c.check_static_ptr(tcx) {
            let _ = write!(extra, ",\"static\":{}", esc(&tcx.def_path_str(sd)));
        }
        if let Const::Unevaluated(u, _) = c.const_ {
            let _ = write!(extra, ",\"uneval\":{}", esc(&tcx.def_path_str(u.def)));
            if u.promoted.is_some() { let _ = write!(extra, ",\"promoted\":{}", u.promoted.unwrap().as_usize()); }
        }
    }
    format!("{{\"o\":\"const\",\"ty\":{},\"txt\":{}{}}}", ty_json(tcx, t), esc(&format!("{}", c.const_)), extra)
}

fn op_json<'tcx>(tcx: TyCtxt<'tcx>, env: TypingEnv<'tcx>, body: &Body<'tcx>, o: &Operand<'tcx>) -> String {
    match o {
        Operand::Copy(p) => format!("{{\"o\":\"copy\",\"p\":{}}}", place_json(tcx, body, p)),
        Operand::Move(p) => format!("{{\"o\":\"move\",\"p\":{}}}", place_json(tcx, body, p)),
        Operand::Constant(c) => const_json(tcx, env, c),
        #[allow(unreachable_patterns)]
        _ => "{\"o\":\"other\"}".to_string(),
    }
}

fn rvalue_json<'tcx>(tcx: TyCtxt<'tcx>, env: TypingEnv<'tcx>, body: &Body<'tcx>, r: &Rvalue<'tcx>) -> String {
    let oj = |o: &Operand<'tcx>| op_json(tcx, env, body, o);
    match r {
        Rvalue::Use(o, _) => format!("{{\"r\":\"use\",\"a\":{}}}", oj(o)),
        Rvalue::Repeat(o, n) => format!("{{\"r\":\"repeat\",\"a\":{},\"n\":{}}}", oj(o), esc(&format!("{}", n))),
        Rvalue::Ref(_, bk, p) => format!("{{\"r\":\"ref\",\"bk\":{},\"p\":{}}}", esc(&format!("{:?}", bk)), place_json(tcx, body, p)),
        Rvalue::RawPtr(k, p) => format!("{{\"r\":\"rawptr\",\"k\":{},\"p\":{}}}", esc(&format!("{:?}", k)), place_json(tcx, body, p)),
        Rvalue::Cast(k, o, t) => format!("{{\"r\":\"cast\",\"k\":{},\"a\":{},\"to\":{}}}", esc(&format!("{:?}", k)), oj(o), ty_json(tcx, *t)),
        Rvalue::BinaryOp(op, b) => format!("{{\"r\":\"bin\",\"op\":{},\"a\":{},\"b\":{}}}", esc(&format!("{:?}", op)), oj(&b.0), oj(&b.1)),
        Rvalue::UnaryOp(op, o) => format!("{{\"r\":\"un\",\"op\":{},\"a\":{}}}", esc(&format!("{:?}", op)), oj(o)),
        Rvalue::Discriminant(p) => format!("{{\"r\":\"discr\",\"p\":{}}}", place_json(tcx, body, p)),
        Rvalue::Aggregate(k, ops) => {
            let kd = match &**k {
                AggregateKind::Array(_) => "{\"a\":\"array\"}".to_string(),
                AggregateKind::Tuple => "{\"a\":\"tuple\"}".to_string(),
                AggregateKind::Adt(d, v, _, _, f) => format!("{{\"a\":\"adt\",\"path\":{},\"variant\":{},\"vname\":{},\"ufield\":{}}}", esc(&tcx.def_path_str(*d)), v.as_usize(), esc(tcx.adt_def(*d).variant(*v).name.as_str()), f.map(|x| x.as_usize().to_string()).unwrap_or("null".into())),
                AggregateKind::Closure(d, _) => format!("{{\"a\":\"closure\",\"path\":{}}}", esc(&tcx.def_path_str(*d))),
                _ => "{\"a\":\"other\"}".to_string(),
            };
            format!("{{\"r\":\"agg\",\"kind\":{},\"ops\":[{}]}}", kd, ops.iter().map(|o| oj(o)).collect::<Vec<_>>().join(","))
        }
        Rvalue::CopyForDeref(p) => format!("{{\"r\":\"use\",\"a\":{{\"o\":\"copy\",\"p\":{}}}}}", place_json(tcx, body, p)),
        other => format!("{{\"r\":\"other\",\"txt\":{}}}", esc(&format!("{:?}", other))),
    }
}

fn span_json<'tcx>(tcx: TyCtxt<'tcx>, sp: rustc_span::Span) -> String {
    let sm = tcx.sess.source_map();
    let lo = sm.lookup_char_pos(sp.lo());
    let hi = sm.lookup_char_pos(sp.hi());
    format!("{{\"file\":{},\"line\":{},\"col\":{},\"eline\":{},\"exp\":{}}}", esc(&format!("{}", lo.file.name.prefer_local_unconditionally())), lo.line, lo.col.0 + 1, hi.line, sp.from_expansion())
}

fn dump_body<'tcx>(tcx: TyCtxt<'tcx>, def: rustc_span::def_id::LocalDefId, body: &Body<'tcx>, name: &str, kind: &str, out: &mut String) {
    let did = def.to_def_id();
    let env = TypingEnv::post_analysis(tcx, did);
    let is_fn = matches!(tcx.def_kind(did), DefKind::Fn | DefKind::AssocFn);
    let vis = if is_fn { format!("{:?}", tcx.visibility(did)) } else { String::new() };
    let reach = if is_fn { tcx.effective_visibilities(()).is_reachable(def) } else { false };
    let ret_ty = ty_json(tcx, body.local_decls[RETURN_PLACE].ty);
    let _ = write!(out, "{{\"fn\":{},\"kind\":{},\"span\":{},\"argc\":{},\"vis\":{},\"reachable\":{},\"ret\":{},", esc(name), esc(kind), span_json(tcx, body.span), body.arg_count, esc(&vis), reach, ret_ty);
    // locals
    out.push_str("\"locals\":[");
    for (i, (_l, d)) in body.local_decls.iter_enumerated().enumerate() {
        if i > 0 { out.push(','); }
        out.push_str(&ty_json(tcx, d.ty));
    }
    out.push_str("],\"debug\":{");
    let mut first = true;
    for v in &body.var_debug_info {
        if let VarDebugInfoContents::Place(p) = &v.value {
            if p.projection.is_empty() {
                if !first { out.push(','); }
                first = false;
                let _ = write!(out, "{}:{}", esc(&format!("{}", p.local.as_usize())), esc(v.name.as_str()));
            }
        }
    }
    out.push_str("},\"upvars\":{");
    // captured variables of a closure: debug entries rooted at the environment argument _1, keyed by capture field index
    let mut first = true;
    for v in &body.var_debug_info {
        if let VarDebugInfoContents::Place(p) = &v.value {
            if p.local.as_usize() == 1 && !p.projection.is_empty() {
                let fld = p.projection.iter().find_map(|e| if let ProjectionElem::Field(f, _) = e { Some(f.as_usize()) } else { None });
                if let Some(f) = fld {
                    if !first { out.push(','); }
                    first = false;
                    let _ = write!(out, "{}:{}", esc(&format!("{}", f)), esc(v.name.as_str()));
                }
            }
        }
    }
    out.push_str("},\"blocks\":[");
    for (bi, (_bb, data)) in body.basic_blocks.iter_enumerated().enumerate() {
        if bi > 0 { out.push(','); }
        out.push_str("{\"stmts\":[");
        let mut firsts = true;
        for st in &data.statements {
            let s = match &st.kind {
                StatementKind::Assign(b) => Some(format!("{{\"s\":\"assign\",\"lhs\":{},\"rv\":{},\"span\":{}}}", place_json(tcx, body, &b.0), rvalue_json(tcx, env, body, &b.1), span_json(tcx, st.source_info.span))),
                StatementKind::SetDiscriminant { place, variant_index } => Some(format!("{{\"s\":\"setdiscr\",\"p\":{},\"v\":{}}}", place_json(tcx, body, place), variant_index.as_usize())),
                StatementKind::Intrinsic(i) => Some(format!("{{\"s\":\"intrinsic\",\"txt\":{}}}", esc(&format!("{:?}", i)))),
                _ => None,
            };
            if let Some(s) = s { if !firsts { out.push(','); } firsts = false; out.push_str(&s); }
        }
        out.push_str("],\"term\":");
        let term = data.terminator();
        let sp = span_json(tcx, term.source_info.span);
        let t = match &term.kind {
            TerminatorKind::Goto { target } => format!("{{\"t\":\"goto\",\"to\":{}}}", target.as_usize()),
            TerminatorKind::SwitchInt { discr, targets } => {
                let arms: Vec<String> = targets.iter().map(|(v, t)| format!("[\"{}\",{}]", v, t.as_usize())).collect();
                format!("{{\"t\":\"switch\",\"on\":{},\"arms\":[{}],\"otherwise\":{}}}", op_json(tcx, env, body, discr), arms.join(","), targets.otherwise().as_usize())
            }
            TerminatorKind::Return => "{\"t\":\"return\"}".to_string(),
            TerminatorKind::Unreachable => "{\"t\":\"unreachable\"}".to_string(),
            TerminatorKind::Drop { place, target, .. } => format!("{{\"t\":\"drop\",\"p\":{},\"to\":{}}}", place_json(tcx, body, place), target.as_usize()),
            TerminatorKind::Call { func, args, destination, target, .. } => {
                format!("{{\"t\":\"call\",\"f\":{},\"args\":[{}],\"dest\":{},\"to\":{},\"span\":{}}}", op_json(tcx, env, body, func), args.iter().map(|a| op_json(tcx, env, body, &a.node)).collect::<Vec<_>>().join(","), place_json(tcx, body, destination), target.map(|t| t.as_usize().to_string()).unwrap_or("null".into()), sp)
            }
            TerminatorKind::Assert { cond, expected, msg, target, .. } => {
                let (kind, ops): (String, Vec<String>) = match &**msg {
                    AssertKind::BoundsCheck { len, index } => ("bounds".into(), vec![op_json(tcx, env, body, len), op_json(tcx, env, body, index)]),
                    AssertKind::Overflow(op, a, b) => (format!("overflow:{:?}", op), vec![op_json(tcx, env, body, a), op_json(tcx, env, body, b)]),
                    AssertKind::OverflowNeg(a) => ("overflow:Neg".into(), vec![op_json(tcx, env, body, a)]),
                    AssertKind::DivisionByZero(a) => ("divzero".into(), vec![op_json(tcx, env, body, a)]),
                    AssertKind::RemainderByZero(a) => ("remzero".into(), vec![op_json(tcx, env, body, a)]),
                    other => (format!("other:{:?}", std::mem::discriminant(other)), vec![]),
                };
                format!("{{\"t\":\"assert\",\"cond\":{},\"expected\":{},\"kind\":{},\"ops\":[{}],\"to\":{},\"span\":{}}}", op_json(tcx, env, body, cond), expected, esc(&kind), ops.join(","), target.as_usize(), sp)
            }
            other => format!("{{\"t\":\"other\",\"txt\":{}}}", esc(&format!("{:?}", other))),
        };
        out.push_str(&t);
        out.push('}');
    }
    out.push_str("]}");
}

fn adt_json<'tcx>(tcx: TyCtxt<'tcx>, did: rustc_span::def_id::DefId) -> String {
    let adt = tcx.adt_def(did);
    let kind = if adt.is_enum() { "enum" } else if adt.is_union() { "union" } else { "struct" };
    let mut vs = Vec::new();
    for (vi, v) in adt.variants().iter_enumerated() {
        let discr = if adt.is_enum() { adt.discriminant_for_variant(tcx, vi).val.to_string() } else { "0".to_string() };
        let mut fs = Vec::new();
        for f in v.fields.iter() {
            let fty = tcx.type_of(f.did).instantiate_identity().skip_norm_wip();
            fs.push(format!("{{\"name\":{},\"ty\":{},\"vis\":{}}}", esc(f.name.as_str()), ty_json(tcx, fty), esc(&format!("{:?}", f.vis))));
        }
        vs.push(format!("{{\"name\":{},\"idx\":{},\"discr\":\"{}\",\"fields\":[{}]}}", esc(v.name.as_str()), vi.as_usize(), discr, fs.join(",")));
    }
    let env = TypingEnv::post_analysis(tcx, did);
    let generics = tcx.generics_of(did);
    let mono = generics.count() == 0 || generics.own_params.iter().all(|p| matches!(p.kind, ty::GenericParamDefKind::Lifetime));
    let mut facts = String::new();
    if mono {
        let t = tcx.type_of(did).instantiate_identity().skip_norm_wip();
        let freeze = t.is_freeze(tcx, env);
        let mut has_ref = false; let mut has_ptr = false; let mut has_rc = false; let mut has_cell = false;
        let mut seen = std::collections::HashSet::new();
        walk_fields(tcx, t, &mut seen, &mut |x: Ty<'tcx>| {
            match x.kind() {
                ty::Ref(..) => has_ref = true,
                ty::RawPtr(..) => has_ptr = true,
                ty::Adt(d, _) => {
                    let p = tcx.def_path_str(d.did());
                    if p.contains("rc::Rc") || p.contains("sync::Arc") { has_rc = true; }
                    if p.contains("cell::") || p.contains("Mutex") || p.contains("RwLock") || p.contains("atomic::") { has_cell = true; }
                }
                _ => {}
            }
        });
        let _ = write!(facts, ",\"freeze\":{},\"has_ref\":{},\"has_ptr\":{},\"has_rc\":{},\"has_cell\":{}", freeze, has_ref, has_ptr, has_rc, has_cell);
    }
    format!("{{\"path\":{},\"kind\":\"{}\",\"vis\":{},\"variants\":[{}]{}}}", esc(&tcx.def_path_str(did)), kind, esc(&format!("{:?}", tcx.visibility(did))), vs.join(","), facts)
}

fn walk_fields<'tcx>(tcx: TyCtxt<'tcx>, t: Ty<'tcx>, seen: &mut std::collections::HashSet<Ty<'tcx>>, f: &mut dyn FnMut(Ty<'tcx>)) {
    if !seen.insert(t) { return; }
    f(t);
    match t.kind() {
        ty::Adt(d, args) => {
            // do not descend into std collection internals: record their type arguments instead
            let local = d.did().is_local();
            if local {
                for v in d.variants().iter() { for fd in v.fields.iter() {
                    let ft = fd.ty(tcx, args);
                    walk_fields(tcx, ft, seen, f);
                } }
            } else {
                for a in args.iter() { if let Some(at) = a.as_type() { walk_fields(tcx, at, seen, f); } }
            }
        }
        ty::Array(inner, _) | ty::Slice(inner) => walk_fields(tcx, *inner, seen, f),
        ty::Tuple(ts) => { for x in ts.iter() { walk_fields(tcx, x, seen, f); } }
        ty::Ref(_, inner, _) => walk_fields(tcx, *inner, seen, f),
        ty::RawPtr(inner, _) => walk_fields(tcx, *inner, seen, f),
        _ => {}
    }
}

struct UnsafeVisitor<'tcx> { tcx: TyCtxt<'tcx>, found: Vec<String> }
impl<'tcx> rustc_hir::intravisit::Visitor<'tcx> for UnsafeVisitor<'tcx> {
    type NestedFilter = rustc_middle::hir::nested_filter::All;
    fn maybe_tcx(&mut self) -> Self::MaybeTyCtxt { self.tcx }
    fn visit_block(&mut self, b: &'tcx rustc_hir::Block<'tcx>) {
        if let rustc_hir::BlockCheckMode::UnsafeBlock(src) = b.rules {
            if !b.span.from_expansion() || matches!(src, rustc_hir::UnsafeSource::UserProvided) {
                self.found.push(format!("{{\"what\":\"unsafe_block\",\"span\":{},\"user\":{}}}", span_json(self.tcx, b.span), matches!(src, rustc_hir::UnsafeSource::UserProvided)));
            }
        }
        rustc_hir::intravisit::walk_block(self, b);
    }
    fn visit_item(&mut self, it: &'tcx rustc_hir::Item<'tcx>) {
        match &it.kind {
            rustc_hir::ItemKind::Impl(imp) => {
                if let Some(tr) = &imp.of_trait {
                    if matches!(tr.safety, rustc_hir::Safety::Unsafe) && !it.span.from_expansion() {
                        self.found.push(format!("{{\"what\":\"unsafe_impl\",\"span\":{},\"user\":true}}", span_json(self.tcx, it.span)));
                    }
                }
            }
            rustc_hir::ItemKind::ForeignMod { .. } => {
                self.found.push(format!("{{\"what\":\"extern_block\",\"span\":{},\"user\":true}}", span_json(self.tcx, it.span)));
            }
            rustc_hir::ItemKind::Fn { sig, .. } => {
                if matches!(sig.header.safety, rustc_hir::HeaderSafety::Normal(rustc_hir::Safety::Unsafe)) {
                    self.found.push(format!("{{\"what\":\"unsafe_fn\",\"span\":{},\"user\":true}}", span_json(self.tcx, it.span)));
                }
            }
            _ => {}
        }
        rustc_hir::intravisit::walk_item(self, it);
    }
}

impl rustc_driver::Callbacks for Cb {
    fn after_analysis<'tcx>(&mut self, _c: &rustc_interface::interface::Compiler, tcx: TyCtxt<'tcx>) -> Compilation {
        let krate = tcx.crate_name(rustc_span::def_id::LOCAL_CRATE).to_string();
        let outdir = match std::env::var("MIRFACTS_OUT") { Ok(d) => d, Err(_) => return Compilation::Continue };
        let want = std::env::var("MIRFACTS_CRATES").unwrap_or_default();
        if !want.split(',').any(|w| w == krate) { return Compilation::Continue; }
        let mut out = String::new();
        let is_test = tcx.sess.opts.test;
        let _ = write!(out, "{{\"crate\":{},\"test_harness\":{},\"bodies\":[", esc(&krate), is_test);
        let mut first = true;
        let mut statics = Vec::new();
        let mut adts = Vec::new();
        for def in tcx.mir_keys(()) {
            let did = def.to_def_id();
            let kind = tcx.def_kind(did);
            let name = tcx.def_path_str(did);
            match kind {
                DefKind::Fn | DefKind::AssocFn | DefKind::Closure => {
                    if !first { out.push(','); }
                    first = false;
                    let body: &Body<'tcx> = tcx.optimized_mir(did);
                    dump_body(tcx, *def, body, &name, &format!("{:?}", kind), &mut out);
                    let proms = tcx.promoted_mir(did);
                    for (pi, pb) in proms.iter_enumerated() {
                        out.push(',');
                        dump_body(tcx, *def, pb, &format!("{}::promoted[{}]", name, pi.as_usize()), "Promoted", &mut out);
                    }
                }
                DefKind::Const { .. } | DefKind::AssocConst { .. } | DefKind::Static { .. } => {
                    if !first { out.push(','); }
                    first = false;
                    let body: &Body<'tcx> = tcx.mir_for_ctfe(did);
                    let k = if matches!(kind, DefKind::Static { .. }) { "Static" } else { "Const" };
                    dump_body(tcx, *def, body, &name, k, &mut out);
                    let proms = tcx.promoted_mir(did);
                    for (pi, pb) in proms.iter_enumerated() {
                        out.push(',');
                        dump_body(tcx, *def, pb, &format!("{}::promoted[{}]", name, pi.as_usize()), "Promoted", &mut out);
                    }
                }
                _ => continue,
            }
        }
        out.push_str("],\"statics\":[");
        for id in tcx.hir_free_items() {
            let did = id.owner_id.to_def_id();
            match tcx.def_kind(did) {
                DefKind::Static { mutability, .. } => {
                    let t = tcx.type_of(did).instantiate_identity().skip_norm_wip();
                    let env = TypingEnv::post_analysis(tcx, did);
                    let sp = tcx.def_span(did);
                    statics.push(format!("{{\"path\":{},\"mutable\":{},\"ty\":{},\"freeze\":{},\"span\":{}}}", esc(&tcx.def_path_str(did)), mutability.is_mut(), ty_json(tcx, t), t.is_freeze(tcx, env), span_json(tcx, sp)));
                }
                DefKind::Struct | DefKind::Enum | DefKind::Union => { adts.push(adt_json(tcx, did)); }
                _ => {}
            }
        }
        out.push_str(&statics.join(","));
        out.push_str("],\"adts\":[");
        out.push_str(&adts.join(","));
        out.push_str("],\"unsafe\":[");
        let mut uv = UnsafeVisitor { tcx, found: Vec::new() };
        tcx.hir_walk_toplevel_module(&mut uv);
        out.push_str(&uv.found.join(","));
        out.push_str("]}");
        let suffix = if is_test { "-test" } else { "" };
        std::fs::write(format!("{}/{}{}.json", outdir, krate, suffix), out).unwrap();
        Compilation::Continue
    }
}

fn main() {
    let mut args: Vec<String> = std::env::args().collect();
    if args.len() > 1 && (args[1].ends_with("rustc") || args[1].contains("/rustc")) { args.remove(1); }
    rustc_driver::run_compiler(&args, &mut Cb);
}
