//! Deliberately bad constructs: positive controls for the zero-expected-count rules of /verif.
//! This crate is never executed; it is only type-checked by the mirfacts driver.
#![allow(dead_code, static_mut_refs)]
use std::collections::HashMap;
use std::sync::atomic::{AtomicUsize, Ordering};

pub static mut COUNTER: u32 = 0;
pub static SHARED: AtomicUsize = AtomicUsize::new(0);

pub fn bump() -> u32 {
    unsafe {
        COUNTER += 1;
        COUNTER
    }
}

pub fn shared() -> usize {
    SHARED.fetch_add(1, Ordering::SeqCst)
}

pub fn first_key(m: &HashMap<u16, u8>) -> Option<u16> {
    m.keys().next().copied()
}

pub fn iterate(m: &HashMap<u16, u8>) -> u32 {
    let mut s = 0;
    for (k, v) in m.iter() {
        s = s * 31 + *k as u32 + *v as u32;
    }
    s
}

pub fn now() -> u64 {
    std::time::Instant::now().elapsed().as_secs()
}

pub fn who() -> String {
    format!("{:?}", std::thread::current().id())
}

pub fn addr(x: &u8) -> usize {
    x as *const u8 as usize
}
