#!/usr/bin/env python3
"""Prints the undischarged panic sites that are not in tables/reviewed.json as JSON entries (drafting aid; the table is edited by hand)."""
import sys, os, json
HERE = os.path.dirname(os.path.dirname(os.path.abspath(__file__)))
sys.path.insert(0, HERE)
from lint import facts
from lint.panic import PanicAnalysis
from lint.report import short_fn
from lint.rules import c01, panicfree
F = facts.load()
which = sys.argv[1] if len(sys.argv) > 1 else 'C01'
if which == 'C01': roots = c01.roots(F)
elif which == 'C16': roots = ['h263_rs_deblock::deblock::deblock']
else: roots = ['h263_rs_yuv::bt601::yuv420_to_rgba']
PA = PanicAnalysis(F, roots)
rev = panicfree.load_reviewed()
have = {(e['fn'], e['kind'], e['fp']) for e in rev['sites']}
for s in PA.sites:
    if s.ok or s.kind.startswith('contract:'): continue
    k = (short_fn(s.fn), s.kind, s.fp)
    if k in have: continue
    print(json.dumps({'fn': k[0], 'kind': k[1], 'fp': k[2], 'reason': '?', '_line': s.span['line'], '_ops': s.ops, '_why': s.why}))
