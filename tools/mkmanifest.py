#!/usr/bin/env python3
"""Generates /verif/MANIFEST.json from the table below (kept next to the rule modules so that claims and code move together)."""
import json, os
HERE = os.path.dirname(os.path.dirname(os.path.abspath(__file__)))

TRUST = ('rustc MIR construction + type checker (nightly 1.97), the mirfacts driver serialisation, the external-callee model table '
         '(lint/extern_models.py), dependency crates not analysed; see DESIGN.md 2.1')

CLAIMS = {
 'C12': dict(
    text='Static: A the baseline path of halfpel_decode (if-converted, UMV tests false) has the decision structure in(m+p) ? m+p : invert(m)+p with range 32 and '
         'offset 64 - compared with the written-out rule over all consistent truth assignments of its range tests (that this is reduction modulo 64 into [-32,31] '
         'for operands in range is a three-line arithmetic argument, stated in DESIGN.md, not a machine step); B chroma rounding folded over every sum in '
         '[-16384,16383] against the sixteenth-position table, and the sum of exactly mv[0..3]; C MVD_TABLE (folded from const MIR) against the 64 code words of '
         'Table 14, HalfPel::from = floor(2x); D the three candidates selected in each of the 4 x 8 (block index, border class) cases incl. the neighbour block '
         'indices; E median_of over all 13 weak orderings, component-wise for vectors; F zero candidates from intra / not-coded macroblocks (the vector array is zeroed inside the macroblock loop before it is written and recorded); M mv_decode pairs predictor.x with differential.x and predictor.y with differential.y, the MotionVector conversions and addition keep the component order, '
         'and vector k of a macroblock is mv_decode(picture, options, predict_candidate(.., k), MVD_k) (vectors 2..4 copies of vector 1 without four vectors); W the call sites: every predict_candidate gets predictor_vectors (whole, or from the last group-of-blocks header), the vector array of this macroblock and the macroblocks-per-line term gather gets, every mv_decode the picture being decoded and the options in force, and predict_candidate(.., k) runs after vectors 1..k-1 of the macroblock have been stored; MB which bits are the differentials: '
         'decode_motion_vector reads x then y with MVD_TABLE (UMV code only with PLUSPTYPE), decode_macroblock reads MVD for the inter types and MVD2-4 for the four-vector types of Table 9 (predicates folded over all types).',
    technique='if-conversion + canonical forms + decision-table comparison; constant folding over finite domains; const-table folding', ref='6/C12'),
 'C11': dict(
    text='Static, the whole quantizer x level domain at once: A the coefficient stored by inverse_rle has the canonical form of '
         'clamp(sgn(L)*(Q*(2|L|+1) - [Q even]), -2048, 2047) (equal as functions), depends only on L and Q, and is stored at block_data[zig_y][zig_x]; '
         'B the interval reading shows no intermediate overflow for Q in [0,31], L in [-1024,1023] (found D3: i16 product, fixed) and both ranges are checked '
         'at their producers; W escape LEVEL width is 7/11 by one bit exactly under Sorenson version 1, else 8, RUN 6 bits; C IntraDc::from_u8 / into_level folded '
         'over all 256 codes; D the DQUANT code table and the update form clamp(q + dq, 1, 31); DQ that update tabulated with Rust cast / overflow semantics, casts as written, '
         'over all 32 x 5 (quantizer, DQUANT) pairs; P the zig-zag cursor of inverse_rle (position = cursor + RUN, abandoned iff position >= 64, next = position + 1) evaluated on the SSA order of its updates for every (cursor, RUN); narrowing / sign-changing casts whose operand range does not fit are obligations like overflows; MB the Table 9 predicates (which types carry DQUANT), the decode_macroblock table, the DQUANT code table, TCOEF against Table 16 and the '
         'escape forms (8-bit LEVEL, Sorenson v1 7 / 11-bit by flag, 6-bit RUN, LAST) as decision tables of decode_dquant / decode_block; C10.E no stored coefficient is dropped by the sparse-block classification; C02.Z the zig-zag table is the scan of the standard; C02.D/H decode_block is told the decoder options and picture header that select the escape form and its result is dequantised with the in-force quantizer. What the coefficient does to decoded samples is C02.',
    technique='def-use expression -> canonical-form equality against the written-out formula; interval abstract interpretation; constant folding of finite tables', ref='6/C11'),
 'C09': dict(
    text='Static, all 2^32 patterns x 12 strengths and all sizes: K1 the scalar kernel (helpers inlined, if-converted) has, for each of A,B,C,D, the same '
         'canonical form as the Annex J formulas written out with truncating division (so it equals them on every input); K2 each of the 8 lanes of the vector '
         'kernel has that same canonical form (arithmetic shift and truncating division are distinct operators; found D10: shifts instead of divisions - fixed); '
         'G1/G2 from the def-use expressions of the kernel arguments: horizontal pass rows edge_y-2..edge_y+1 as A..D in vector chunks and scalar remainder alike, '
         'vertical pass columns 4..7 of `row[2..]` 8-sample chunks (= image columns 8m+6..8m+9) read, filtered and written back in place, vector octets and remainder '
         'rows alike; DB1/DB2 edge positions and guards (edges only where all four samples exist); G3 copy, horizontal then vertical, length unchanged, input read-only; '
         'G4 the column transposition: lane k of extract_column / set_column is row k of the octet, for all 8 lanes, octet rows split at depths 1..8. '
         'Position independence holds by construction: the kernels receive only the four samples and the strength.',
    technique='if-conversion + canonical-form equality (kernel vs written-out Annex J; vector lanes vs scalar); def-use expression matching for edge geometry', ref='6/C09'),
 'C07': dict(
    text='Static, all 2^24 (Y,Cb,Cr) triples at once: the straight-line SIMD kernel is if-converted to one expression per lane (wide operators modelled '
         'lane-wise) and its canonical form (exact linear forms, sorted commutative operators, clamp = min/max) is compared structurally with the BT.601 '
         'studio-range formula in 16.16 fixed point, whose five coefficients the checker derives itself from Kr=0.299, Kb=0.114, 255/219, 255/224 '
         '(76309, 104597, -53279, -25675, 132201). Equality of canonical forms is equality of functions; lane l uses Y[l], Cb[l/2], Cr[l/2]; bytes R,G,B,255. '
         'The "within 1 of the real formula", monotonicity and no-i32-overflow clauses are evaluated from the coefficients. Which pixel of a picture is handed which luma sample and chroma pair is C08, whose rules (K, M, R) are re-run here.',
    technique='if-conversion + canonical-form equality against a computed specification (translation validation of one kernel, no execution)', ref='6/C07'),
 'C16': dict(
    text='Static, all widths >= 1 x all heights x strengths 1..12 (the documented preconditions, taken as entry contracts): the C01 engine applied to '
         'deblock::deblock - 169 obligations: every Assert / panicking call in the 15 bodies is discharged by the interval reading (split_at_mut chains via '
         'symbolic multiples of width, chunk lengths, slice-length contracts, i16 kernel arithmetic under sample/strength ranges) or sits in the reviewed-safe '
         'table tied to DB1 (horizontal loop guard `edge_y + 2 <= len/width` and split chain; found D11: `height - 2` underflow, fixed) and DB2 (vertical pass '
         'under width >= 10, 8-sample chunk octets, columns 4..7); the same inventory over the MIR built with debug assertions on (the strength assertions are implied by the 1..=12 contract through the interval reading of RangeInclusive::contains; two more assertions are reviewed sites); all 9 loops classified; QUANT_TO_STRENGTH folded from const MIR equals Table J.2 for all 31 quantizers.',
    technique='abstract interpretation over MIR with checked contracts + structural mechanism rules; const-table folding', ref='6/C16'),
 'C01': dict(
    text='Static, all byte strings x both option bits x all histories (by induction over one call with field contracts): inventory of every MIR Assert '
         'terminator (bounds, +-*<<>> overflow with overflow checks on, division/remainder by zero), every narrowing / sign-changing integer cast whose operand range does not fit, and every panicking external call reachable from the 7 '
         'pub fns of H263State (405 sites in 172 functions); 383 are discharged by an interval / option-state / symbolic-bound abstract interpretation under '
         'a contracts table that is itself checked at every producer; the 22 relational ones must match the reviewed-safe table, each entry void unless its '
         'mechanism rules hold (M1 clamp provenance, M2/M3 clamped extents, M4 fast-path guard set, M5 the reference and the new picture are compared by (width, height) and every gather_block call lies on the equal side, M7 macroblock-count bound, '
         'M9 frozen picture fields, M10 reader position discipline, M11 UMV counters); M8 no Result dropped; no recursion; all 30 loops classified '
         '(finite iterator / input-consuming / consuming+counter). Found and fixed D1, D2, D3, D4, D12. Residue size is reported in the evidence.',
    technique='abstract interpretation (intervals + option state + symbolic bounds) over MIR with checked contracts; structural mechanism rules; loop classification',
    ref='4, 6/C01'),
 'C14': dict(
    text='Static, all operation histories: decides the EFFECT DISCIPLINE of the bit reader, not the delivered bit values. A: bits_read is assigned only in '
         'skip_bits (dominated by the success of ensure_bits(n), adding exactly n), rollback and commit; buffer only grows in buffer_bytes and shrinks in commit; '
         'peek_bits/peek_signed_bits have bits_read outside their mod set. B/T4: look-ahead and transactions restore the checkpoint on exactly the right paths; C05.T5: no wrapper commits or drops buffered bytes, so nested wrappers keep the outer checkpoint; C05.T6: a byte enters the buffer only on the success edge of read_exact into a local byte (a failed fill leaves nothing behind) valid. U: read_umv decodes Table D.3 (the four pair arms and the start bit). '
         'C: read_bits/read_signed_bits are peek(n) then skip(n) with one n. E: realignment_bits tabulated over 0..4095, needed_bytes_for_bits = div_ceil(sat_sub(n, sat_sub(8 len, pos)), 8), ensure_bits, commit (drain pos/8 bytes, keep pos mod 8: tabulated, drain first), '
         'rollback guard (tabulated on a grid) and two\'s-complement sign extension. F: start-code scan (17-bit window == 1, one bit per step, nearest first, bounded by realignment_bits). '
         'G: VLC walk consumes one bit per step and all 6 tables are acyclic/in range/fully reachable (folded from const MIR). H: MSB-first assembly in peek_bits - the loop\'s per-iteration transfer function '
         '(bits taken k = min(8 - offset, needed); accum := (accum << k) | ((byte << offset) as u8 >> (8 - k)); offset := 0; needed -= k) is extracted as terms and tabulated over every offset, count and byte for 8-, 16- and 32-bit accumulators, '
         'with the start state (byte bits_read/8, offset bits_read%8, accum 0), the stop condition and the returned value. W: the width prologue of peek_bits evaluated for every bits_needed in 0..=W+8, W = 8/16/32 (too wide -> InternalDecoderError, zero width -> Ok(0) consuming nothing, else one ensure_bits(bits_needed) before the loop). Closed forms are tabulated with Rust integer semantics (truncating division / remainder, wrapping casts). Exactly-once delivery as a history property follows from A-H by induction over the operations (DESIGN.md 11.11), which is an argument, not a machine step.',
    technique='mod/ref effect analysis, dominance/control-dependence rules, def-use expression pattern matching, closed forms and the peek loop transfer function tabulated on normalised terms, const-table folding', ref='6/C14'),
 'C15': dict(
    text='Static, all inputs: where the reader stands after a successful decode is decided on the MIR of the decode closure. M7 the macroblock loop has '
         'an exit, dominating the macroblock parse, that fires when len(macroblock vector) >= mb_per_line*mb_height (found D1: absent; fixed); RS the '
         'resynchronisation probe decode_gob / decode_picture are union transactions whose Ok(None) arm leaves the loop without consuming, only outside '
         'Sorenson mode (is_sorenson() = decoder_options.contains(SORENSON_SPARK_BITSTREAM)); T7/T4 a failed macroblock or block parse consumes nothing; CM exactly one commit(), after the loop, on every Ok path, with no '
         'reader movement between loop exit and commit; and what commit() and read_bits() do to the position (C14 E: commit = drain(0..pos/8); pos %= 8, C14 C: read = peek + skip) '
         're-run here. PS decode_picture skips 17 + the stuffing count recognize_start_code reports; MC mb_per_line and mb_height are ceil(dim/16) for every u16 dimension (tabulated); C06 (whole) every header field with its width and presence condition; C14 A, G, H, W the reads deliver the bits they consume; EK is_eof_error is true exactly for an I/O error of kind UnexpectedEof (the only source condition that ends a picture early and succeeds; the discriminant named through the toolchain library source); MB / C12.C the macroblock and block layer consume exactly the bits of their syntax elements (VLC tables against Tables 7, 8, 13, 14, 16; Table 9 predicates; decision tables of decode_macroblock / decode_dquant / decode_motion_vector / decode_block). '
         'C02.D decode_macroblock is called once per iteration with the reader, the header of the picture being decoded and the options in force for it. Hence on success the position is the end of the last macroblock and padding is never read.',
    technique='loop/dominance/control-dependence rules with structural expression matching over MIR; mod/ref effects', ref='6/C15'),
 'C04': dict(
    text='Static, all histories by induction over one call: the state-update discipline of H263State is decided on MIR. R1 accessor guard/key '
         'field agreement (found D5, fixed) and the prediction source is get_reference_picture(); R2 by control dependence in the final section '
         'of the decode closure: last_picture := Some(TR) always, reference_picture := Some(TR) exactly under !is_disposable, := None only for I '
         'pictures and before the Some-assignment, insert(TR, picture) always, TR = the stored header\'s temporal_reference; R3 macroblock syntax '
         'per picture type (found D6, fixed); R4 TR-key aliasing between a disposable picture and the reference (D7: known finding, not repaired); '
         'R5 who-may-write the three fields + structure of cleanup_buffers; R6 is_disposable folded over all 9 variants, Sorenson code 2; R7 cleanup_buffers() runs after every state update of the call (no update reachable after it); R8 a new decoder has no last / reference picture and an empty store; C03.G/N gather rejects a picture that needs prediction when no reference exists and otherwise reads exactly the planes of that reference; C03.UC a not-coded macroblock is rejected only in an I picture - P and disposable P pictures are treated alike (the arm executed on the facts for every picture type code). '
         'Rejected pictures changing nothing is C05. Pixel-level consequences follow from C03.',
    technique='control-dependence / dominance rules, def-use tracing, mod/ref effects and conditional constant propagation over MIR', ref='6/C04'),
 'C05': dict(
    text='Static, all executions: the structural necessary-and-sufficient shape of atomicity is decided on MIR. T1 decode_next_picture is one reader '
         'transaction; T2/T3 no possibly-Err return is CFG-reachable from any write to *self (direct, or via callee mod/ref summaries) or from commit(); '
         'T4 the three transaction wrappers take the checkpoint before the closure and roll back to it on exactly the failing paths (edge-removal '
         'reachability); T5 who may write bits_read (skip_bits, rollback, commit), buffer and source, bytes leave the retained buffer only in commit, and who may call commit; T6 byte-wise refill so a failed fill loses nothing; '
         'C14 A/E who moves the position and by how much, and the forms of rollback / commit / ensure_bits (re-run); C15.EK only io::ErrorKind::UnexpectedEof is taken for the end of a picture - a source that has nothing yet (WouldBlock, Interrupted) fails the call instead of committing a truncated picture; T7 all 23 parser functions are single transactions and all 62 consuming primitive sites sit inside transaction closures. '
         'The clause "retry after more data behaves as if all data had been present" is decided only through these conditions (a split inside '
         'macroblock data ends the picture successfully, so that clause is vacuous there).',
    technique='CFG reachability + dominance rules and interprocedural mod/ref effect summaries over MIR', ref='6/C05'),
 'C02': dict(
    text='PARTIAL BY DESIGN: sample-exact equality of the f32 row/column IDCT pipeline with the ideal transform (and hence the end-to-end pixel statement) is NOT decided - no '
         'static argument in reach. Decided are the structural conditions of the mechanism list, each necessary for the reconstruction: Z DEZIGZAG_MAPPING (folded const) = the '
         'zig-zag scan, a bijection; D the macroblock body: decode_macroblock is given the reader, the header of this picture and the options in force for it; block k of macroblock n is decoded with CBP entry k and dequantised into its plane\'s level array at '
         'origin + (8(k&1), 8(k>>1)) (chroma origin/2), origin = ((n mod mbpl)16, (n div mbpl)16), mbpl = ceil(w/16) tabulated over all u16 widths, with the blocks-per-line '
         'idct_channel later uses with that array, that plane\'s samples and row length; level arrays 4 mbpl mbh / mbpl mbh; inverse_rle\'s block index; C15.M7 the macroblock loop ends when the number of decoded macroblocks reaches the count (stuffing takes no turn); H quantizer tracking '
         '(clamp(q + dquant, 1, 31) once per coded macroblock before its six blocks; no other in-loop definition than GQUANT of a parsed group-of-blocks header); decode_block is told the decoder options, the header of the picture being decoded and this macroblock\'s type; and re-run on this tree: dequantisation form, INTRADC mapping and the zig-zag cursor (C11 A, C, P), the IDCT '
         'clauses (C10 A, B, C, E); '
         'C06 (whole) the picture header is parsed as the standard lays it out; C13 (whole) plane allocation from the signalled size; MB the macroblock / block layer syntax: the VLC tables TCOEF, MCBPC (I-pictures) and CBPY folded from const MIR and compared as code word -> event maps with Tables 16, 7 and 13 of H.263, the Table 9 type predicates folded over all six types, and the decision tables of decode_macroblock, decode_dquant and decode_block (consuming reads with table / width, presence condition and order; every field of the result; the coefficient appended per event; LAST ending the loop; Sorenson v1 escape widths) compared as Boolean functions with the syntax of 5.3 / 5.4; Plane allocation is C13 P.',
    technique='const-table folding; call-site agreement over loop-index-normalised def-use terms (polynomial normal form, closed forms tabulated over the full u16 domain with Rust integer semantics); dominance for update-before-use; decision-table extraction + semantic DNF comparison for the macroblock / block syntax', ref='6/C02'),
 'C03': dict(
    text='PARTIAL BY DESIGN: end-to-end equality of decoded P pictures with the H.263 reconstruction over all reference pictures is NOT decided statically. Decided are the '
         'structural conditions of the mechanism list, each necessary: S read_sample clamps to the nearest edge sample; L lerp = (a+b+1) div 2 (tabulated over all 65536 pairs), '
         'into_lerp_parameters = (floor(v/2), v odd) folded over -8192..8191; B the three interpolation forms of gather_block (integer / one half / both half with single '
         'rounding +2 div 4) with exactly their selecting conditions, source = pos + (dx, dy) + (i, j), target cropping, and the 8-sample fast path only under the guard that '
         'excludes clamping; G the six gather_block call sites (vector k at block offset k, chroma vector = average_sum_of_mvs of the four, Cb<-Cb, Cr<-Cr, row lengths of the '
         'plane read, only for inter macroblocks); N every use of the reference goes through ok_or(..)?; U not-coded macroblock = Inter + zero vectors + no residual, early end '
         'filled with Inter / zero vectors (each list filled whenever it is short), gather after the macroblock loop and before the IDCT; UC a not-coded macroblock is an error exactly in I pictures among I / P / disposable P; and, re-run on this tree: vector reconstruction, chroma rounding, candidate '
         'table, median, zero neighbours, mv_decode pairing and call-site wiring (C12 A, B, D, E, F, M, W) and the residual-add form of every IDCT arm (C10 C), the basis table, 1-D transform and sparse-shape classification (C10 A, B, E), dequantisation and zig-zag cursor (C11 A, P), the decode_block / inverse_rle / idct_channel call-site agreement and quantizer tracking (C02 D, H), the picture header tables (C06, whole); MB the macroblock / block layer syntax of an inter macroblock: COD, MCBPC against Table 8, '
         'CBPY against Table 13 and complemented for inter types, DQUANT / MVD / MVD2-4 presence by the Table 9 predicates (folded over all types), MVD x then y, TCOEF against Table 16 and the escape forms, as decision tables compared with the syntax of 5.3 / 5.4.',
    technique='loop-index-normalised def-use terms vs written-out forms; path conditions (bit-slice DNF) for form selection; folding over finite domains; control-dependence guards; dominance / reachability for order', ref='6/C03'),
 'C06': dict(
    text='Static, every combination of header field values at once: each of the 15 header sub-parsers and decode_picture is abstracted from MIR into a decision '
         'table (R: every consuming reader call with its width and presence condition, in bitstream order; T: every leaf of every value it can return with the '
         'condition it is returned under; flags as set insertions) whose conditions are DNFs over bit slices of the reads, enum variants and named atoms, with '
         'multi-definition locals resolved through reaching definitions. Each table is compared as Boolean functions (concrete distinguishing assignment on '
         'mismatch) with the table of H.263 5.1 / Sorenson Spark written from the standard: all PTYPE / OPPTYPE / MPPTYPE bits and markers, source-format and '
         'picture-type codes, CPFMT/EPAR/CPCFC/ETR/UUI/ELNUM/RPSMF/TRPI/BCI/TRB/DBQUANT fields, Sorenson size and type codes, the PEI loop shape (L), which read '
         'feeds which Picture field (found D8 PTYPE bit-9 polarity and D9 9-bit PHI: fixed). I: the inherited option sets; B: flag constants disjoint; '
         'H: DecodedPicture stores the parsed header and the format in force unmodified, sizes its planes from it, nobody else writes them; S: standard format sizes, a custom format its own indications, and no size exactly for Reserved or a zero dimension. '
         'G: the sub-parsers that take more than the reader are handed what the syntax ties them to (decode_trb: custom clock present; decode_elnum_rlnum: this PLUSPTYPE\'s followers; decode_plusptype: decoder options and the previous picture\'s options). C04 R1/R2/R7: the picture get_last_picture() reports after a successful call is the one just built from that header, and the clean-up runs after the updates so it survives (disposable pictures too). RPRP is present exactly in RPR mode or when a previous picture exists whose format differs (|p| p.format != format checked). Not decided: which of the two SSS bits is RECTANGULAR_SLICES; that read_bits returns MSB-first integers is C04/C05/C14 territory.',
    technique='decision-table extraction from MIR (path conditions in a bit-slice domain, reaching definitions, set-insertion model of |=) + semantic DNF comparison with a written-out specification table; who-may-write effect rule; const folding', ref='6/C06'),
 'C10': dict(
    text='PARTIAL BY DESIGN: the Annex A error statistics (peak error 1, mean-square and mean error bounds over 60 000 random blocks) quantify over f32 rounding and are '
         'NOT decided - no static argument in reach bounds them. Decided are the structural conditions the accuracy rests on, each a necessary condition whose breakage '
         'changes decoded samples: A BASIS_TABLE (folded from const MIR) against c(u)cos((2i+1)u pi/16) within 4e-6 at all 64 entries; B idct_1d is the sum over u of '
         'input[u]*BASIS_TABLE[u][i] from zero, and every return is dominated by the loop over all 8 outputs (the scratch row is reused across blocks); C all four arms of idct_channel store clamp(clamp(trunc(s*v + 0.5 signum v), -256, 255) + old, 0, 255) at sample '
         '(8bx+x, 8by+y) with x,y cropped to the plane, s = 1/4, B00/4, 1/8; Full = rows, transposition, columns; Zero stores nothing (all-zero -> unchanged); '
         'E the sparse shortcuts are selected only for blocks of their shape (sticky flags cleared exactly on a non-zero coefficient off the row / column) with the right payloads; C02.D the transform is handed the level arrays, blocks per line, planes and row lengths that inverse_rle filled.',
    technique='const-table folding against a formula; loop-index-normalised def-use expressions compared with written-out forms; control-dependence guards of sticky flags', ref='6/C10'),
 'C08': dict(
    text='PARTIAL BY DESIGN: the "never panics for any size" clause needs relational reasoning about slice bounds (row*width <= len) that the interval reading cannot do; '
         'it is NOT decided. Decided, for every width and height at once, is the pairing: K the kernel takes ([u8;4],[u8;2],[u8;2]) -> [u8;16] and lane l converts Y[l] with '
         'Cb[l/2], Cr[l/2] (C07\'s canonical-form rule); M in the whole-group path call k of row r receives bytes 4k.. of luma row r, bytes 2k.. of row r/2 of each chroma '
         'plane and writes bytes 16k.. of output row r (one common group index, row slices r*w, (r/2)*ceil(w/2), r*4w); R the remainder path (iff w mod 4 != 0) gathers '
         'y[x mod 4] = row[x], c[(x mod 4)/2] = crow[x/2] over the last w mod 4 columns and copies bytes 4(w - w mod 4)..4w from the kernel result at i mod 16; L every iteration of the row loop and of every loop nested in it runs its whole body (one back edge, left only when its iterator is exhausted) and the output buffer goes to nothing but the slicing calls of the two paths; so pixel '
         '(x, y) is the conversion of luma (x, y) with chroma (x/2, y/2), replicated, never interpolated. Output length 4*len(y) and the empty shortcut are rule Q of C13.',
    technique='loop-index-normalised def-use terms (polynomial normal form) compared with written-out slice/index forms; kernel canonical form from C07; control-dependence guard of the remainder path', ref='6/C08'),
 'C13': dict(
    text='Static, all widths and heights 0..65535 and quantizers at once: P DecodedPicture::new allocates luma w*h and both chroma planes cw*ch; its f32 expression '
         'ceil(w/2.0) is tabulated exactly over the whole u16 domain and equals div_ceil(w, 2); chroma_samples_per_row = cw; G the nine accessors return exactly those '
         'fields as slices; R the plane vectors are private and the only use of &mut Vec in the module is deref_mut (a slice cannot change length); Q yuv420_to_rgba cuts chroma '
         'rows at (row/2)*CW with CW a function equal to ceil(width/2) on the whole domain, loops over len(y)/width rows, returns vec![0; 4*len(y)] (exactly width*height pixels), '
         'empty shortcut before any division; C10.C every idct_channel arm writes only inside the plane (cropped extents, the transposed dense arm cropped the right way round); C04 R1/R2/R7 after a successful call get_last_picture() returns the picture just decoded (accessor key, last_picture := its key, inserted under it, clean-up after the updates); C06 (whole, incl. S every format that has a size has width, height >= 1): the size the planes are built from is the size the header signals, each indication read into its own field; J2/S the strength table has 32 entries = Table J.2 with values 1..12 for quantizers 1..31 and Picture.quantizer is a 5-bit read. '
         'deblock() accepting every such plane: C16\'s mechanism rules, panic inventory and termination re-run here (C16.*). NOT decided: panic-freedom of the slice arithmetic inside yuv420_to_rgba (relational; see C08).',
    technique='closed-form agreement between producer and consumer (terms tabulated over the full finite domain); visibility / who-may-resize rule; const-table folding', ref='6/C13'),
 'C17': dict(
    text='Static, all executions: no shared mutable state and no nondeterminism source exists in the three crates. S1 every static immutable+Freeze '
         '(lazy_static cells: pure constant initialiser), S2 zero unsafe/extern (HIR walk), S3 interprocedural mod/ref summaries show no static is written, '
         'S4 denylist over every external call site (HashMap: keyed access only; time/env/rand/thread-id/atomics/cells/raw memory/ptr-to-int), '
         'S5 transitive field walk: per-instance types own their data; S6 the call graph of the three crates has no cycle, so the stack the calling thread has left cannot decide an outcome; C05.T6 the byte source is consumed only through read_exact into a 1-byte buffer whose byte is always kept, so the result cannot depend on how '
         'a Read implementation splits the same byte sequence; C15.EK only end of data (io::ErrorKind::UnexpectedEof) ends a picture early - any other transient condition of the source fails the call; C14.H the bits handed out depend on the buffered bytes and the position only. C15.M7 the macroblock loop leaves after exactly mb_per_line * mb_height macroblocks, so a picture is decoded from its own bytes whether or not the next picture is already in the reader. Positive controls on a fixture crate on every run.',
    technique='effect (mod/ref) analysis + denylist lint over type-checked MIR/HIR; type-fact walk; call-graph SCC', ref='6/C17'),
}

NOT_YET = 'check not built yet in this revision (planned, see DESIGN.md section 10); not claimed until its rules run'

def main():
    props = [json.loads(l) for l in open(os.path.join(HERE, 'properties.jsonl'))]
    checks = []; na = []
    for p in props:
        pid = p['id']
        c = CLAIMS.get(pid)
        if c and os.path.exists(os.path.join(HERE, 'lint', 'rules', pid.lower() + '.py')):
            checks.append({
                'property_id': pid,
                'quick_cmd': './check %s --tier quick' % pid,
                'thorough_cmd': './check %s --tier thorough' % pid,
                'evidence_file': 'evidence/%s.json' % pid,
                'replay_cmd_template': './check --explain {path}',
                'engine': 'mirfacts+lint',
                'level_claimed': {'category': 'other', 'text': c['text'], 'design_ref': 'DESIGN.md ' + c['ref']},
                'level_note': c.get('note', TRUST),
                'technique': c['technique'],
            })
        else:
            na.append({'property_id': pid, 'reason': (c or {}).get('na', NOT_YET)})
    m = {
        'version': 1,
        'setup_cmd': 'cd /verif/driver && CARGO_NET_OFFLINE=true cargo build --offline',
        'hooks': {'guard': 'none (no hooks: the driver reads private items directly)', 'enable': 'n/a - checks analyse /repo as is',
                  'baseline_off_cmd': 'cd /repo && cargo test --workspace --no-fail-fast --offline', 'source_commits': [], 'add_only': True},
        'engines': [
            {'name': 'mirfacts', 'path': 'driver/', 'serves_properties': [c['property_id'] for c in checks],
             'kind_free_text': 'rustc_private driver (nightly) dumping type-checked MIR, ADT, static, unsafe and visibility facts as JSON under cargo check'},
            {'name': 'lint', 'path': 'lint/', 'serves_properties': [c['property_id'] for c in checks],
             'kind_free_text': 'python3 static analyses over the facts: CFG/dominators/control dependence, call graph, mod/ref effects, per-property rule modules'},
        ],
        'checks': checks,
        'not_applicable': na,
        'notes': 'Technique family: static analysis only. Nothing of /repo is executed by any check. See DESIGN.md.',
    }
    json.dump(m, open(os.path.join(HERE, 'MANIFEST.json'), 'w'), indent=1)
    print('MANIFEST.json: %d checks, %d not_applicable' % (len(checks), len(na)))

if __name__ == '__main__':
    main()
