#!/usr/bin/env python3
"""Tests the checker both ways on scratch copies of /repo (outside /repo and /verif, removed afterwards):
   selftest/mutants/*.diff   must make the named check fail, naming a rule from `# expect:`
   selftest/refactors/*.diff behaviour-preserving edits: the named checks must stay silent
Usage: tools/selftest.py [name-substring ...] [--tests]   (--tests additionally runs the repo test suite on each variant)"""
import sys, os, subprocess, tempfile, shutil, glob, re, json
HERE = os.path.dirname(os.path.dirname(os.path.abspath(__file__)))

def run_variant(diff, run_tests=False, props_override=None):
    meta = {}
    for l in open(diff):
        m = re.match(r'# (\w+): (.*)', l)
        if m: meta[m.group(1)] = m.group(2).strip()
        if l.startswith('diff --git') or l.startswith('--- '): break
    props = props_override or meta.get('properties', '').split(',')
    tmp = tempfile.mkdtemp(prefix='h263-variant-')
    try:
        repo = os.path.join(tmp, 'repo')
        # the committed tree, not the working tree: tools/seeded.py may have a patch applied to /repo while this runs
        os.makedirs(repo)
        subprocess.run('git -C /repo archive HEAD | tar -x -C %s' % repo, shell=True, check=True)
        if os.path.exists('/repo/Cargo.lock'): shutil.copy('/repo/Cargo.lock', repo)
        r = subprocess.run(['patch', '-p1', '-s', '-i', diff], cwd=repo, stdout=subprocess.PIPE, stderr=subprocess.STDOUT, text=True)
        if r.returncode != 0:
            return {'error': 'patch failed: ' + r.stdout[-500:]}
        res = {'props': {}}
        if run_tests:
            env = dict(os.environ, CARGO_TARGET_DIR=os.path.join(tmp, 'tt'), CARGO_NET_OFFLINE='true')
            t = subprocess.run(['cargo', 'test', '--workspace', '--offline', '-q'], cwd=repo, env=env, stdout=subprocess.PIPE, stderr=subprocess.STDOUT, text=True)
            res['tests_pass'] = t.returncode == 0
        for p in props:
            p = p.strip()
            if not p: continue
            env = dict(os.environ, VERIF_REPO=repo)
            env.pop('VERIF_FACTS_DIR', None)
            c = subprocess.run([os.path.join(HERE, 'check'), p], cwd=HERE, env=env, stdout=subprocess.PIPE, stderr=subprocess.STDOUT, text=True)
            viol = [l for l in c.stdout.splitlines() if l.startswith('VIOLATION')]
            res['props'][p] = {'rc': c.returncode, 'violations': viol, 'tail': c.stdout.splitlines()[-1:] }
        res['meta'] = meta
        return res
    finally:
        shutil.rmtree(tmp, ignore_errors=True)

def main():
    args = [a for a in sys.argv[1:] if not a.startswith('--')]
    run_tests = '--tests' in sys.argv
    bad = 0
    for kind in ('mutants', 'refactors'):
        for diff in sorted(glob.glob(os.path.join(HERE, 'selftest', kind, '*.diff'))):
            name = os.path.basename(diff)[:-5]
            if args and not any(a in name for a in args): continue
            r = run_variant(diff, run_tests)
            if 'error' in r:
                print('ERROR   %-40s %s' % (name, r['error'])); bad += 1; continue
            exp = [e.strip() for e in r['meta'].get('expect', '-').split(',') if e.strip() and e.strip() != '-']
            for p, pr in r['props'].items():
                if kind == 'mutants':
                    fired = pr['rc'] == 1 and pr['violations']
                    named = (not exp) or any(any(('rule=' + e) in v or e in v for e in exp) for v in pr['violations'])
                    okk = fired and named
                    rules = sorted({m.group(1) for v in pr['violations'] for m in [re.search(r'rule=(\S+)', v)] if m})
                    print('%s %-40s %s rc=%d %d violation(s)%s%s rules=%s' % ('CAUGHT ' if okk else 'MISSED ', name, p, pr['rc'], len(pr['violations']),
                          '' if named else ' (expected rule %s not named)' % exp, ('' if not run_tests else ' tests_pass=%s' % r.get('tests_pass')), ','.join(rules)))
                    if not okk:
                        bad += 1
                        for v in pr['violations'][:3]: print('         ', v[:300])
                    elif '-v' in sys.argv:
                        for v in pr['violations'][:3]: print('         ', v[:300])
                else:
                    okk = pr['rc'] == 0 and not pr['violations']
                    print('%s %-40s %s rc=%d' % ('SILENT ' if okk else 'ALARM  ', name, p, pr['rc']))
                    if not okk:
                        bad += 1
                        for v in pr['violations'][:5]: print('         ', v[:300])
    # the seeded changes of the sub-agents are regression mutants too: each must be caught by the check of its target property
    for d in sorted(glob.glob(os.path.join(HERE, 'seeded', '*'))):
        name = 'seeded_' + os.path.basename(d)
        if args and not any(a in name for a in args): continue
        meta = json.load(open(os.path.join(d, 'meta.json')))
        r = run_variant(os.path.join(d, 'patch.diff'), False, props_override=[meta['property']])
        if 'error' in r:
            print('ERROR   %-40s %s' % (name, r['error'])); bad += 1; continue
        for p, pr in r['props'].items():
            okk = pr['rc'] == 1 and pr['violations']
            print('%s %-40s %s rc=%d %d violation(s)' % ('CAUGHT ' if okk else 'MISSED ', name, p, pr['rc'], len(pr['violations'])))
            if not okk: bad += 1
    return 1 if bad else 0

if __name__ == '__main__':
    sys.exit(main())
