#!/bin/sh
# both tiers of every check on the unchanged tree + manifest/evidence validation; run before every commit of /verif
cd "$(dirname "$0")/.." || exit 2
rc=0
for t in quick thorough; do
  ./check --all --tier $t > /tmp/precommit_$t.log 2>&1 || rc=1
  grep -E "VIOLATION" /tmp/precommit_$t.log && rc=1
  grep -cE "^C[0-9]+ \[$t\].* 0 violations" /tmp/precommit_$t.log
done
python3-vt tools/validate.py || rc=1
[ $rc = 0 ] && echo PRECOMMIT-OK || echo PRECOMMIT-FAILED
exit $rc
