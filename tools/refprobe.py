#!/usr/bin/env python3
"""Runs every check on behaviour-preserving refactorings (patches produced by sub-agents): any VIOLATION is a false alarm to be fixed in the machinery.
   tools/refprobe.py <patch> [...]      each patch is applied to a pristine scratch export of /repo HEAD (outside /repo and /verif, removed afterwards)"""
import sys, os, subprocess, tempfile, shutil
HERE = os.path.dirname(os.path.dirname(os.path.abspath(__file__)))
bad = 0
for patch in [os.path.abspath(p_) for p_ in sys.argv[1:]]:
    tmp = tempfile.mkdtemp(prefix='h263-refprobe-')
    try:
        repo = os.path.join(tmp, 'repo'); os.makedirs(repo)
        subprocess.run('git -C /repo archive HEAD | tar -x -C %s' % repo, shell=True, check=True)
        r = subprocess.run(['git', 'apply', '--directory', repo, '--unsafe-paths', patch], cwd=tmp, stdout=subprocess.PIPE, stderr=subprocess.STDOUT, text=True)
        if r.returncode != 0:
            r = subprocess.run(['patch', '-p1', '-s', '-i', patch], cwd=repo, stdout=subprocess.PIPE, stderr=subprocess.STDOUT, text=True)
            if r.returncode != 0:
                print('ERROR   %s: patch does not apply: %s' % (patch, r.stdout[-200:])); bad += 1; continue
        env = dict(os.environ, VERIF_REPO=repo); env.pop('VERIF_FACTS_DIR', None)
        c = subprocess.run([os.path.join(HERE, 'check'), '--all'], cwd=HERE, env=env, stdout=subprocess.PIPE, stderr=subprocess.STDOUT, text=True)
        v = [l for l in c.stdout.splitlines() if l.startswith('VIOLATION')]
        print('%s %s  (%d violation lines)' % ('SILENT ' if not v else 'ALARM  ', patch, len(v)))
        for l in v[:6]: print('        ', l[:330])
        if v: bad += 1
    finally:
        shutil.rmtree(tmp, ignore_errors=True)
sys.exit(1 if bad else 0)
