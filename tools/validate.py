#!/usr/bin/env python3-vt
import json, jsonschema, sys, os, glob
HERE = os.path.dirname(os.path.dirname(os.path.abspath(__file__)))
jsonschema.validate(json.load(open(HERE + '/MANIFEST.json')), json.load(open('/root/.vp/MANIFEST.schema.json')))
es = json.load(open('/root/.vp/EVIDENCE.schema.json'))
for f in sorted(glob.glob(HERE + '/evidence/*.json')):
    jsonschema.validate(json.load(open(f)), es)
print('manifest + %d evidence files valid' % len(glob.glob(HERE + '/evidence/*.json')))
