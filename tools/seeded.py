#!/usr/bin/env python3
"""Imports and verifies a seeded breakage produced by a sub-agent in a scratch worktree.

  tools/seeded.py import <ID> <worktree> [name]   copy patch.diff (source change only), the demonstration test and the agent's report into seeded/<name>/
  tools/seeded.py verify <name>                   in a scratch copy of /repo (outside /repo and /verif, removed afterwards): the change compiles, the existing test suite
                                                  passes with it, the demonstration passes on the original tree and fails with the change
  tools/seeded.py check <name> [ID ...]           git -C /repo apply patch.diff; run the checks (default: all 17, quick); git -C /repo checkout -- .   -> meta.json
"""
import sys, os, subprocess, json, shutil, tempfile, re
HERE = os.path.dirname(os.path.dirname(os.path.abspath(__file__)))
SEED = os.path.join(HERE, 'seeded')


def sh(cmd, cwd=None, env=None, timeout=3600):
    e = dict(os.environ, CARGO_NET_OFFLINE='true')
    if env: e.update(env)
    r = subprocess.run(cmd, cwd=cwd, env=e, shell=isinstance(cmd, str), stdout=subprocess.PIPE, stderr=subprocess.STDOUT, text=True, timeout=timeout)
    return r.returncode, r.stdout


def load_meta(d):
    p = os.path.join(d, 'meta.json')
    return json.load(open(p)) if os.path.exists(p) else {}


def save_meta(d, m):
    json.dump(m, open(os.path.join(d, 'meta.json'), 'w'), indent=1)


def do_import(pid, wt, name):
    d = os.path.join(SEED, name); os.makedirs(d, exist_ok=True)
    rc, files = sh('git status --porcelain', cwd=wt)
    changed = [l[3:] for l in files.splitlines() if l[:2].strip() == 'M']
    untracked = [l[3:] for l in files.splitlines() if l.startswith('??')]
    rc, diff = sh(['git', 'diff', '--'] + changed, cwd=wt)
    open(os.path.join(d, 'patch.diff'), 'w').write(diff)
    demos = []
    for u in untracked:
        p = os.path.join(wt, u)
        cands = [p] if os.path.isfile(p) else [os.path.join(r, f) for r, _, fs in os.walk(p) for f in fs]
        for c in cands:
            rel = os.path.relpath(c, wt)
            if rel.endswith('.rs') and '/tests/' in '/' + rel:
                demos.append(rel)
                os.makedirs(os.path.join(d, 'demo', os.path.dirname(rel)), exist_ok=True)
                shutil.copy(c, os.path.join(d, 'demo', rel))
    rep = os.path.join(wt, 'SEEDED_REPORT.md')
    if os.path.exists(rep): shutil.copy(rep, os.path.join(d, 'AGENT_REPORT.md'))
    m = load_meta(d)
    m.update({'property': pid, 'name': name, 'source_files_changed': changed, 'demo_files': demos, 'origin': 'fresh sub-agent given only the property text and a scratch worktree',
              'base_commit': sh('git rev-parse HEAD', cwd=wt)[1].strip()})
    save_meta(d, m)
    print('imported', name, changed, demos)


def do_verify(name):
    d = os.path.join(SEED, name); m = load_meta(d)
    tmp = tempfile.mkdtemp(prefix='h263-seeded-')
    try:
        repo = os.path.join(tmp, 'repo')
        # the committed tree (a `check` of another seed may have its patch applied to /repo's working tree right now)
        os.makedirs(repo)
        subprocess.run('git -C /repo archive HEAD | tar -x -C %s' % repo, shell=True, check=True)
        if os.path.exists('/repo/Cargo.lock'): shutil.copy('/repo/Cargo.lock', repo)
        env = {'CARGO_TARGET_DIR': os.path.join(tmp, 'target')}
        # demo on the original tree
        for rel in m['demo_files']:
            os.makedirs(os.path.join(repo, os.path.dirname(rel)), exist_ok=True)
            shutil.copy(os.path.join(d, 'demo', rel), os.path.join(repo, rel))
        res = {}
        def demo():
            out = {}
            for rel in m['demo_files']:
                crate_dir = rel.split('/tests/')[0]
                tname = os.path.splitext(os.path.basename(rel))[0]
                rc, o = sh('cargo test --offline --test %s 2>&1 | tail -25' % tname, cwd=os.path.join(repo, crate_dir), env=env)
                passed = bool(re.search(r'test result: ok\.', o)) and not re.search(r'test result: FAILED|error(\[|:)|panicked', o)
                out[rel] = {'passed': passed, 'tail': o[-900:]}
            return out
        res['demo_on_original'] = demo()
        rc, o = sh(['patch', '-p1', '-s', '-i', os.path.join(d, 'patch.diff')], cwd=repo)
        if rc != 0:
            res['error'] = 'patch failed: ' + o[-400:]
        else:
            # existing suite without the demo files
            for rel in m['demo_files']: os.rename(os.path.join(repo, rel), os.path.join(tmp, os.path.basename(rel) + '.held'))
            rc, o = sh('cargo test --workspace --no-fail-fast --offline 2>&1 | grep -E "^test result|^error|FAILED" ', cwd=repo, env=env)
            res['existing_tests_with_change'] = {'passed': bool(o.strip()) and 'FAILED' not in o and not re.search(r'^error', o, re.M) and 'failed; ' not in o.replace('0 failed;', ''), 'tail': o[-600:]}
            for rel in m['demo_files']: os.rename(os.path.join(tmp, os.path.basename(rel) + '.held'), os.path.join(repo, rel))
            res['demo_with_change'] = demo()
        ok = 'error' not in res and all(v['passed'] for v in res['demo_on_original'].values()) and res['existing_tests_with_change']['passed'] \
            and any(not v['passed'] for v in res['demo_with_change'].values())
        m['verification'] = {'confirmed': ok, 'existing_tests_pass_with_change': res.get('existing_tests_with_change', {}).get('passed'),
                             'demo_passes_on_original': all(v['passed'] for v in res['demo_on_original'].values()),
                             'demo_fails_with_change': any(not v['passed'] for v in res.get('demo_with_change', {}).values()),
                             'demo_failure_excerpt': next((v['tail'][-500:] for v in res.get('demo_with_change', {}).values() if not v['passed']), None)}
        save_meta(d, m)
        print(name, 'CONFIRMED' if ok else 'NOT CONFIRMED', json.dumps(m['verification'])[:600])
    finally:
        shutil.rmtree(tmp, ignore_errors=True)


def do_check(name, pids):
    d = os.path.join(SEED, name); m = load_meta(d)
    pids = pids or ['C%02d' % i for i in range(1, 18)]
    rc, o = sh(['git', '-C', '/repo', 'status', '--porcelain', '--untracked-files=no'])
    if o.strip(): sys.exit('/repo is not clean: ' + o)
    rc, o = sh(['git', '-C', '/repo', 'apply', os.path.join(d, 'patch.diff')])
    if rc != 0: sys.exit('apply failed: ' + o)
    out = {}
    try:
        for p in pids:
            env = dict(os.environ); env.pop('VERIF_FACTS_DIR', None); env.pop('VERIF_REPO', None)
            r = subprocess.run([os.path.join(HERE, 'check'), p], cwd=HERE, env=env, stdout=subprocess.PIPE, stderr=subprocess.STDOUT, text=True)
            v = [l for l in r.stdout.splitlines() if l.startswith('VIOLATION')]
            out[p] = {'rc': r.returncode, 'violations': [re.sub(r'replay=\S+ ', '', l)[:400] for l in v[:6]], 'n': len(v)}
    finally:
        sh(['git', '-C', '/repo', 'checkout', '--', '.'])
    # restore the evidence files of the unchanged tree
    for p in pids:
        env = dict(os.environ); env.pop('VERIF_FACTS_DIR', None)
        if out[p]['rc'] != 0: subprocess.run([os.path.join(HERE, 'check'), p], cwd=HERE, env=env, stdout=subprocess.DEVNULL, stderr=subprocess.DEVNULL)
    m['checks'] = {'caught_by': sorted(p for p in out if out[p]['rc'] != 0), 'target_property_caught': out.get(m['property'], {}).get('rc', 0) != 0,
                   'detail': {p: out[p] for p in out if out[p]['rc'] != 0}}
    save_meta(d, m)
    print(name, 'target', m['property'], 'caught' if m['checks']['target_property_caught'] else 'MISSED', 'caught_by', m['checks']['caught_by'])
    for p in m['checks']['caught_by']:
        for l in out[p]['violations'][:2]: print('    ', p, l[:260])


if __name__ == '__main__':
    cmd = sys.argv[1]
    if cmd == 'import': do_import(sys.argv[2], sys.argv[3], sys.argv[4] if len(sys.argv) > 4 else sys.argv[2])
    elif cmd == 'verify': do_verify(sys.argv[2])
    elif cmd == 'check': do_check(sys.argv[2], sys.argv[3:])
