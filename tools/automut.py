#!/usr/bin/env python3
"""Automatic first-order mutants of the library sources (outside test modules), to look for defects no check reports.
   tools/automut.py <out.jsonl> <workers> <max> [file-substring ...]
For every mutant, on a scratch copy outside /repo and /verif (removed afterwards): does it build, does the repository's test suite still pass, and
which checks report a violation.  Mutants that pass the tests and raise no alarm are the interesting ones (equivalent mutants, code outside every
property, or a hole in the checks): they are triaged by hand; nothing here is a manifest command."""
import sys, os, re, json, subprocess, shutil, random, hashlib, multiprocessing
HERE = os.path.dirname(os.path.dirname(os.path.abspath(__file__)))
FILES = ['h263/src/decoder/state.rs', 'h263/src/decoder/picture.rs', 'h263/src/decoder/cpu/gather.rs', 'h263/src/decoder/cpu/idct.rs', 'h263/src/decoder/cpu/rle.rs',
         'h263/src/decoder/cpu/mvd_pred.rs', 'h263/src/parser/reader.rs', 'h263/src/parser/picture.rs', 'h263/src/parser/macroblock.rs', 'h263/src/parser/block.rs',
         'h263/src/parser/vlc.rs', 'h263/src/parser/gob.rs', 'h263/src/types.rs', 'h263/src/error.rs', 'yuv/src/bt601.rs', 'deblock/src/deblock.rs']
OPS = [(r'(?<![<>=!])<=(?!=)', '<'), (r'(?<![<>=!-])<(?![<=])', '<='), (r'(?<![<>=!-])>=(?!=)', '>'), (r'(?<![<>=!-])>(?![>=])', '>='), (r'==', '!='), (r'!=', '=='),
       (r'&&', '||'), (r'\|\|', '&&'), (r'(?<=[\w\)\]] )\+(?= [\w\(])', '-'), (r'(?<=[\w\)\]] )-(?= [\w\(])', '+'), (r'\btrue\b', 'false'), (r'\bfalse\b', 'true'),
       (r'(?<=[\w\)\]] )\*(?= [\w\(])', '/'), (r'(?<=[\w\)\]] )/(?= [\w\(])', '*'), (r'(?<=[\w\)\]] )<<(?= [\w\(])', '>>'), (r'(?<=[\w\)\]] )>>(?= [\w\(])', '<<'),
       (r'\.min\(', '.max('), (r'\.max\(', '.min('), (r'\.saturating_sub\(', '.saturating_add('), (r'\.is_some\(\)', '.is_none()'), (r'\.is_none\(\)', '.is_some()')]
NUM = re.compile(r'(?<![\w.#\[])(\d+)(?![\w.\]]|\s*=>|\s*\.\.)')


def sites(repo, only):
    out = []
    for f in FILES:
        if only and not any(o in f for o in only): continue
        src = open(os.path.join(repo, f)).read().split('\n')
        in_test = False; in_table = False
        for i, line in enumerate(src):
            if '#[cfg(test)]' in line: in_test = True
            if in_test: continue
            code = line.split('//')[0]
            st = code.strip()
            if not st or st.startswith('#') or st.startswith('use ') or st.startswith('///'): continue
            if re.match(r'^(pub )?(const|static) \w+: \[', st): in_table = True
            if in_table:
                if st in ('];',): in_table = False
                if random.random() > 0.02: continue        # const tables are huge: sample a few entries
            if 'assert' in code or 'panic!' in code or 'unreachable' in code or 'write!' in code or 'Error(' in code and '"' in code: continue
            for pat, rep in OPS:
                for m in re.finditer(pat, code):
                    if '->' in code[max(0, m.start() - 1):m.end() + 1] or '=>' in code[max(0, m.start() - 1):m.end() + 1]: continue
                    out.append((f, i, m.start(), m.end(), rep))
            for m in NUM.finditer(code):
                if '"' in code: continue
                v = int(m.group(1))
                for nv in ({v + 1, max(0, v - 1)} - {v}):
                    out.append((f, i, m.start(1), m.end(1), str(nv)))
    return out


def run(cmd, cwd, env=None, timeout=1800):
    e = dict(os.environ, CARGO_NET_OFFLINE='true'); e.update(env or {})
    try:
        r = subprocess.run(cmd, cwd=cwd, env=e, shell=isinstance(cmd, str), stdout=subprocess.PIPE, stderr=subprocess.STDOUT, text=True, timeout=timeout)
        return r.returncode, r.stdout
    except subprocess.TimeoutExpired:
        return 124, 'timeout'


def work(job):
    idx, (f, i, a, b, rep), wid = job
    base = '/tmp/am/w%d' % wid
    repo = os.path.join(base, 'repo')
    if os.path.exists(repo): shutil.rmtree(repo)
    os.makedirs(repo)
    run('git -C /repo archive HEAD | tar -x -C %s' % repo, '/')
    if os.path.exists('/repo/Cargo.lock'): shutil.copy('/repo/Cargo.lock', repo)
    p = os.path.join(repo, f)
    src = open(p).read().split('\n')
    old = src[i]
    src[i] = old[:a] + rep + old[b:]
    open(p, 'w').write('\n'.join(src))
    rec = {'id': idx, 'file': f, 'line': i + 1, 'old': old.strip(), 'new': src[i].strip()}
    tgt = os.path.join(base, 'target')
    rc, out = run(['cargo', 'test', '--workspace', '--offline', '-q', '--no-fail-fast'], repo, {'CARGO_TARGET_DIR': tgt}, timeout=900)
    if 'error[' in out or 'error: could not compile' in out or 'error: aborting' in out:
        rec['build'] = False
    else:
        rec['build'] = True; rec['tests_pass'] = rc == 0
        if rc == 0:
            rc2, out2 = run([os.path.join(HERE, 'check'), '--all'], HERE, {'VERIF_REPO': repo}, timeout=1500)
            caught = sorted({m.group(1) for m in re.finditer(r'^VIOLATION property=(C\d\d)', out2, re.M)})
            rules = sorted({m.group(1) + '.' + m.group(2) for m in re.finditer(r'^VIOLATION property=(C\d\d) \S+ rule=(\S+)', out2, re.M)})
            rec['caught_by'] = caught; rec['rules'] = rules[:12]
    shutil.rmtree(repo, ignore_errors=True)
    return rec


def main():
    out, workers, mx = sys.argv[1], int(sys.argv[2]), int(sys.argv[3])
    only = sys.argv[4:]
    random.seed(12345)
    ss = sites('/repo', only)
    random.shuffle(ss)
    done = set()
    if os.path.exists(out):
        for l in open(out):
            r = json.loads(l); done.add((r['file'], r['line'], r['new']))
    jobs = []
    for k, s in enumerate(ss):
        if len(jobs) >= mx: break
        line = open(os.path.join('/repo', s[0])).read().split('\n')[s[1]]
        if (s[0], s[1] + 1, (line[:s[2]] + s[4] + line[s[3]:]).strip()) in done: continue
        if re.search(r'<=?\w+>|::<', line[max(0, s[2] - 8):s[3] + 8]) and s[4] in ('<=', '>=', '<', '>'): continue      # generic brackets, not comparisons
        jobs.append((k, s, 0))
    print('%d sites, running %d' % (len(ss), len(jobs)), flush=True)
    q = multiprocessing.Queue()
    def loop(wid, myjobs):
        for (k, s, _) in myjobs:
            rec = work((k, s, wid))
            q.put(rec)
        q.put(None)
    procs = []
    for w in range(workers):
        p = multiprocessing.Process(target=loop, args=(w, jobs[w::workers])); p.start(); procs.append(p)
    live = workers
    with open(out, 'a') as fh:
        while live:
            rec = q.get()
            if rec is None: live -= 1; continue
            fh.write(json.dumps(rec) + '\n'); fh.flush()
            tag = 'NOBUILD' if not rec['build'] else ('TESTFAIL' if not rec.get('tests_pass') else ('CAUGHT ' + ','.join(rec['caught_by']) if rec.get('caught_by') else 'SURVIVED'))
            print('%-9s %s:%d  %s  ->  %s' % (tag.split()[0], rec['file'], rec['line'], rec['old'][:70], rec['new'][:70]), ' ' + ' '.join(tag.split()[1:]), flush=True)
    for p in procs: p.join()


if __name__ == '__main__':
    main()
