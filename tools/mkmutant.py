#!/usr/bin/env python3
"""mkmutant.py <kind:mutants|refactors> <name> <props> <expect-rule-substrings|-> <file> <old> <new> [<file> <old> <new>]...
Creates selftest/<kind>/<name>.diff (unified diff against /repo) with a metadata header."""
import sys, os, difflib
HERE = os.path.dirname(os.path.dirname(os.path.abspath(__file__)))
kind, name, props, expect = sys.argv[1:5]
trip = sys.argv[5:]
out = ['# properties: %s' % props, '# expect: %s' % expect]
files = {}
order = []
for i in range(0, len(trip), 3):
    f, old, new = trip[i:i+3]
    if f not in files:
        files[f] = open(os.path.join('/repo', f)).read(); order.append(f)
    if files[f].count(old) != 1:
        sys.exit('pattern occurs %d times in %s: %r' % (files[f].count(old), f, old[:60]))
    files[f] = files[f].replace(old, new)
for f in order:
    src = open(os.path.join('/repo', f)).read()
    d = difflib.unified_diff(src.splitlines(True), files[f].splitlines(True), 'a/' + f, 'b/' + f)
    out.append(''.join(d).rstrip('\n'))
os.makedirs(os.path.join(HERE, 'selftest', kind), exist_ok=True)
open(os.path.join(HERE, 'selftest', kind, name + '.diff'), 'w').write('\n'.join(out) + '\n')
print('wrote', name)
