use h263_rs::parser::H263Reader;
use h263_rs::{DecoderOption, H263State};

struct W { bits: Vec<u8> }
impl W {
    fn new() -> Self { W { bits: vec![] } }
    fn put(&mut self, v: u32, n: u32) { for i in (0..n).rev() { self.bits.push(((v >> i) & 1) as u8); } }
    fn s(&mut self, s: &str) { for c in s.chars() { if c=='0' {self.bits.push(0)} else if c=='1' {self.bits.push(1)} } }
    fn bytes(&self) -> Vec<u8> { let mut o = vec![]; let mut b = self.bits.clone(); while b.len()%8!=0 {b.push(0);} for c in b.chunks(8) { let mut v=0u8; for x in c { v=(v<<1)|x; } o.push(v);} o }
}
// sorenson header: ver, tr, custom8 w,h, type, q
fn hdr(w: &mut W, ver: u32, tr: u32, wd: u32, ht: u32, ty: u32, q: u32) {
    w.put(1, 17); w.put(ver, 5); w.put(tr, 8); w.put(0, 3); w.put(wd, 8); w.put(ht, 8); w.put(ty, 2); w.put(0,1); w.put(q,5); w.put(0,1);
}
fn intra_mb_i(w: &mut W, dc: u32) { w.s("1"); w.s("0011"); for _ in 0..6 { w.put(dc, 8); } }
// P-frame intra MB: COD=0, MCBPC 00011 (intra, 00), CBPY 0011
fn intra_mb_p(w: &mut W, dc: u32) { w.s("0"); w.s("00011"); w.s("0011"); for _ in 0..6 { w.put(dc, 8); } }
fn uncoded(w: &mut W) { w.s("1"); }

fn dec(st: &mut H263State, data: &[u8]) -> Result<(), h263_rs::Error> {
    let mut r = H263Reader::from_source(data);
    st.decode_next_picture(&mut r)
}

#[test]
fn d1_too_many_mbs() {
    let mut w = W::new(); hdr(&mut w, 0, 0, 16, 16, 0, 5); intra_mb_i(&mut w, 100); intra_mb_i(&mut w, 50);
    let mut st = H263State::new(DecoderOption::SORENSON_SPARK_BITSTREAM);
    println!("{:?}", dec(&mut st, &w.bytes()).map_err(|e| e.to_string()));
}
#[test]
fn d2_zero_width() {
    let mut w = W::new(); hdr(&mut w, 0, 0, 0, 16, 0, 5); intra_mb_i(&mut w, 100);
    let mut st = H263State::new(DecoderOption::SORENSON_SPARK_BITSTREAM);
    println!("{:?}", dec(&mut st, &w.bytes()).map_err(|e| e.to_string()));
}
#[test]
fn d3_overflow_level() {
    // version 1, intra MB with luma0 coded: CBPY for [true,false,false,false] intra = 00010 ; escape tcoef: 0000011 ; then 1 (11 bit) last=1 run=0 level=1023
    let mut w = W::new(); hdr(&mut w, 1, 0, 16, 16, 0, 31);
    w.s("1"); w.s("00010");
    w.put(100,8); w.s("0000011"); w.s("1"); w.s("1"); w.put(0,6); w.put(1023, 11);
    for _ in 0..5 { w.put(100, 8); }
    let mut st = H263State::new(DecoderOption::SORENSON_SPARK_BITSTREAM);
    println!("{:?}", dec(&mut st, &w.bytes()).map_err(|e| e.to_string()));
    let p = st.get_last_picture().unwrap();
    println!("{:?}", &p.as_yuv().0[..8]);
}
#[test]
fn d4_ref_other_size() {
    let mut st = H263State::new(DecoderOption::SORENSON_SPARK_BITSTREAM);
    let mut w = W::new(); hdr(&mut w, 0, 0, 32, 32, 0, 5); for _ in 0..4 {intra_mb_i(&mut w, 100);}
    println!("{:?}", dec(&mut st, &w.bytes()).map_err(|e| e.to_string()));
    let mut w = W::new(); hdr(&mut w, 0, 1, 16, 16, 1, 5); for _ in 0..1 { uncoded(&mut w); }
    println!("{:?}", dec(&mut st, &w.bytes()).map_err(|e| e.to_string()));
}
#[test]
fn d5_disposable() {
    let mut st = H263State::new(DecoderOption::SORENSON_SPARK_BITSTREAM);
    let mut w = W::new(); hdr(&mut w, 0, 0, 16, 16, 0, 5); intra_mb_i(&mut w, 100);
    println!("I: {:?}", dec(&mut st, &w.bytes()).map_err(|e| e.to_string()));
    let mut w = W::new(); hdr(&mut w, 0, 1, 16, 16, 2, 5); intra_mb_p(&mut w, 20);
    println!("D: {:?}", dec(&mut st, &w.bytes()).map_err(|e| e.to_string()));
    println!("last luma0 {:?}", st.get_last_picture().unwrap().as_yuv().0[0]);
    let mut w = W::new(); hdr(&mut w, 0, 2, 16, 16, 1, 5); uncoded(&mut w);
    println!("P: {:?}", dec(&mut st, &w.bytes()).map_err(|e| e.to_string()));
    println!("last luma0 {:?}", st.get_last_picture().unwrap().as_yuv().0[0]);
}
#[test]
fn c15_two_pictures_one_reader() {
    let mut w = W::new(); hdr(&mut w, 0, 0, 16, 16, 0, 5); intra_mb_i(&mut w, 100);
    let mut all = w.bytes();
    let mut w = W::new(); hdr(&mut w, 0, 1, 16, 16, 0, 5); intra_mb_i(&mut w, 50);
    all.extend(w.bytes());
    let mut st = H263State::new(DecoderOption::SORENSON_SPARK_BITSTREAM);
    let mut r = H263Reader::from_source(&all[..]);
    println!("1: {:?}", st.decode_next_picture(&mut r).map_err(|e| e.to_string()));
    println!("2: {:?}", st.decode_next_picture(&mut r).map_err(|e| e.to_string()));
}
