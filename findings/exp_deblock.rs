// Triage experiments for the deblock crate (NOT part of any check; they document the failing inputs of findings D10 / D11).
use h263_rs_deblock::deblock::deblock;

#[test]
fn d11_fewer_than_two_rows() {
    // 16x1 image: `height - 2` on usize underflows (debug: panic "attempt to subtract with overflow")
    let data = vec![10u8; 16];
    let out = deblock(&data, 16, 5);
    assert_eq!(out.len(), 16);
    // 0 rows
    let out = deblock(&[], 16, 5);
    assert_eq!(out.len(), 0);
}

#[test]
fn d10_vector_vs_scalar() {
    // 8 columns x 16 rows: the horizontal edge at row 8 is filtered by the vector kernel (8 columns = one SIMD group);
    // 9..15 columns would put column 8.. into the scalar remainder. Use width 16 (two vector groups) and width 7 (scalar only)
    // with the same column pattern A,B,C,D = 0,10,5,15 and strength 12 and compare.
    let pat = [0u8, 10, 5, 15];
    let mk = |w: usize| {
        let mut v = vec![0u8; w * 16];
        for (r, p) in (6..10).zip(pat.iter()) { for x in 0..w { v[r * w + x] = *p; } }
        v
    };
    let a = deblock(&mk(8), 8, 12);   // vector path
    let b = deblock(&mk(7), 7, 12);   // scalar path
    let col_a: Vec<u8> = (6..10).map(|r| a[r * 8]).collect();
    let col_b: Vec<u8> = (6..10).map(|r| b[r * 7]).collect();
    println!("vector {:?} scalar {:?}", col_a, col_b);
    assert_eq!(col_a, col_b);
}
