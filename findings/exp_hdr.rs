use h263_rs::parser::{decode_picture, H263Reader};
use h263_rs::DecoderOption;

struct W { bits: Vec<u8> }
impl W {
    fn new() -> Self { W { bits: vec![] } }
    fn put(&mut self, v: u32, n: u32) { for i in (0..n).rev() { self.bits.push(((v >> i) & 1) as u8); } }
    fn bytes(&self) -> Vec<u8> { let mut o = vec![]; let mut b = self.bits.clone(); while b.len()%8!=0 {b.push(0);} for c in b.chunks(8) { let mut v=0u8; for x in c { v=(v<<1)|x; } o.push(v);} o.extend([0u8;8]); o }
}

#[test]
fn d8_baseline_intra_header() {
    // PSC, TR=3, PTYPE = 1 0 0 0 0 010 (QCIF) 0 (INTRA) 0000, PQUANT=7, CPM=0, PEI=0
    let mut w = W::new(); w.put(1, 17); w.put(0, 5); w.put(3, 8);
    w.put(0b10000010, 8); w.put(0b00000, 5); w.put(7, 5); w.put(0, 1); w.put(0, 1);
    let data = w.bytes();
    let mut r = H263Reader::from_source(&data[..]);
    let p = decode_picture(&mut r, DecoderOption::empty(), None).unwrap().unwrap();
    println!("D8 coding-type bit 0 (INTRA) parsed as {:?}", p.picture_type);
    let mut w = W::new(); w.put(1, 17); w.put(0, 5); w.put(3, 8);
    w.put(0b10000010, 8); w.put(0b10000, 5); w.put(7, 5); w.put(0, 1); w.put(0, 1);
    let data = w.bytes();
    let mut r = H263Reader::from_source(&data[..]);
    let p = decode_picture(&mut r, DecoderOption::empty(), None).unwrap().unwrap();
    println!("D8 coding-type bit 1 (INTER) parsed as {:?}", p.picture_type);
}

#[test]
fn d9_custom_height_1024() {
    // PSC, TR, PTYPE with format 111, PLUSPTYPE: UFEP=001, OPPTYPE = 110 (custom) 0 00000000000 1000, MPPTYPE = 000 000 001, CPM=0,
    // CPFMT: PAR=0001, PWI=43 (176), 1, PHI=256 (1024), PQUANT, PEI
    let mut w = W::new(); w.put(1, 17); w.put(0, 5); w.put(3, 8);
    w.put(0b10000111, 8); w.put(1, 3); w.put(0b110_0_0000000000_1000, 18); w.put(0b000_000_001, 9); w.put(0, 1);
    w.put(1, 4); w.put(43, 9); w.put(1, 1); w.put(256, 9); w.put(7, 5); w.put(0, 1);
    let data = w.bytes();
    let mut r = H263Reader::from_source(&data[..]);
    let p = decode_picture(&mut r, DecoderOption::empty(), None);
    println!("D9 PWI=43 PHI=256 parsed as {:?}", p.map(|p| p.unwrap().format));
}
