use h263_rs::parser::H263Reader;
use h263_rs::{DecoderOption, H263State};

struct W { bits: Vec<u8> }
impl W {
    fn new() -> Self { W { bits: vec![] } }
    fn put(&mut self, v: u32, n: u32) { for i in (0..n).rev() { self.bits.push(((v >> i) & 1) as u8); } }
    fn s(&mut self, s: &str) { for c in s.chars() { if c=='0' {self.bits.push(0)} else if c=='1' {self.bits.push(1)} } }
    fn bytes(&self) -> Vec<u8> { let mut o = vec![]; let mut b = self.bits.clone(); while b.len()%8!=0 {b.push(0);} for c in b.chunks(8) { let mut v=0u8; for x in c { v=(v<<1)|x; } o.push(v);} o }
}
// sorenson header: ver, tr, custom8 w,h, type, q
fn hdr(w: &mut W, ver: u32, tr: u32, wd: u32, ht: u32, ty: u32, q: u32) {
    w.put(1, 17); w.put(ver, 5); w.put(tr, 8); w.put(0, 3); w.put(wd, 8); w.put(ht, 8); w.put(ty, 2); w.put(0,1); w.put(q,5); w.put(0,1);
}
fn intra_mb_i(w: &mut W, dc: u32) { w.s("1"); w.s("0011"); for _ in 0..6 { w.put(dc, 8); } }
// P-frame intra MB: COD=0, MCBPC 00011 (intra, 00), CBPY 0011
fn intra_mb_p(w: &mut W, dc: u32) { w.s("0"); w.s("00011"); w.s("0011"); for _ in 0..6 { w.put(dc, 8); } }
fn uncoded(w: &mut W) { w.s("1"); }

fn dec(st: &mut H263State, data: &[u8]) -> Result<(), h263_rs::Error> {
    let mut r = H263Reader::from_source(data);
    st.decode_next_picture(&mut r)
}

#[test]
fn d1_too_many_mbs() {
    let mut w = W::new(); hdr(&mut w, 0, 0, 16, 16, 0, 5); intra_mb_i(&mut w, 100); intra_mb_i(&mut w, 50);
    let mut st = H263State::new(DecoderOption::SORENSON_SPARK_BITSTREAM);
    println!("{:?}", dec(&mut st, &w.bytes()).map_err(|e| e.to_string()));
}
#[test]
fn d2_zero_width() {
    let mut w = W::new(); hdr(&mut w, 0, 0, 0, 16, 0, 5); intra_mb_i(&mut w, 100);
    let mut st = H263State::new(DecoderOption::SORENSON_SPARK_BITSTREAM);
    println!("{:?}", dec(&mut st, &w.bytes()).map_err(|e| e.to_string()));
}
#[test]
fn d3_overflow_level() {
    // version 1, intra MB with luma0 coded: CBPY for [true,false,false,false] intra = 00010 ; escape tcoef: 0000011 ; then 1 (11 bit) last=1 run=0 level=1023
    let mut w = W::new(); hdr(&mut w, 1, 0, 16, 16, 0, 31);
    w.s("1"); w.s("00010");
    w.put(100,8); w.s("0000011"); w.s("1"); w.s("1"); w.put(0,6); w.put(1023, 11);
    for _ in 0..5 { w.put(100, 8); }
    let mut st = H263State::new(DecoderOption::SORENSON_SPARK_BITSTREAM);
    println!("{:?}", dec(&mut st, &w.bytes()).map_err(|e| e.to_string()));
    let p = st.get_last_picture().unwrap();
    println!("{:?}", &p.as_yuv().0[..8]);
}
#[test]
fn d4_ref_other_size() {
    let mut st = H263State::new(DecoderOption::SORENSON_SPARK_BITSTREAM);
    let mut w = W::new(); hdr(&mut w, 0, 0, 32, 32, 0, 5); for _ in 0..4 {intra_mb_i(&mut w, 100);}
    println!("{:?}", dec(&mut st, &w.bytes()).map_err(|e| e.to_string()));
    let mut w = W::new(); hdr(&mut w, 0, 1, 16, 16, 1, 5); for _ in 0..1 { uncoded(&mut w); }
    println!("{:?}", dec(&mut st, &w.bytes()).map_err(|e| e.to_string()));
}
#[test]
fn d5_disposable() {
    let mut st = H263State::new(DecoderOption::SORENSON_SPARK_BITSTREAM);
    let mut w = W::new(); hdr(&mut w, 0, 0, 16, 16, 0, 5); intra_mb_i(&mut w, 100);
    println!("I: {:?}", dec(&mut st, &w.bytes()).map_err(|e| e.to_string()));
    let mut w = W::new(); hdr(&mut w, 0, 1, 16, 16, 2, 5); intra_mb_p(&mut w, 20);
    println!("D: {:?}", dec(&mut st, &w.bytes()).map_err(|e| e.to_string()));
    println!("last luma0 {:?}", st.get_last_picture().unwrap().as_yuv().0[0]);
    let mut w = W::new(); hdr(&mut w, 0, 2, 16, 16, 1, 5); uncoded(&mut w);
    println!("P: {:?}", dec(&mut st, &w.bytes()).map_err(|e| e.to_string()));
    println!("last luma0 {:?}", st.get_last_picture().unwrap().as_yuv().0[0]);
}
#[test]
fn c15_two_pictures_one_reader() {
    let mut w = W::new(); hdr(&mut w, 0, 0, 16, 16, 0, 5); intra_mb_i(&mut w, 100);
    let mut all = w.bytes();
    let mut w = W::new(); hdr(&mut w, 0, 1, 16, 16, 0, 5); intra_mb_i(&mut w, 50);
    all.extend(w.bytes());
    let mut st = H263State::new(DecoderOption::SORENSON_SPARK_BITSTREAM);
    let mut r = H263Reader::from_source(&all[..]);
    println!("1: {:?}", st.decode_next_picture(&mut r).map_err(|e| e.to_string()));
    println!("2: {:?}", st.decode_next_picture(&mut r).map_err(|e| e.to_string()));
}

#[test]
fn d5_after_d6_fix() {
    let mut st = H263State::new(DecoderOption::SORENSON_SPARK_BITSTREAM);
    let mut w = W::new(); hdr(&mut w, 0, 0, 16, 16, 0, 5); intra_mb_i(&mut w, 100);
    println!("I: {:?}", dec(&mut st, &w.bytes()).map_err(|e| e.to_string()));
    let mut w = W::new(); hdr(&mut w, 0, 1, 16, 16, 2, 5); intra_mb_p(&mut w, 20);
    println!("D: {:?}", dec(&mut st, &w.bytes()).map_err(|e| e.to_string()));
    println!("last luma0 {:?}", st.get_last_picture().unwrap().as_yuv().0[0]);
    let mut w = W::new(); hdr(&mut w, 0, 2, 16, 16, 1, 5); uncoded(&mut w);
    println!("P: {:?}", dec(&mut st, &w.bytes()).map_err(|e| e.to_string()));
    println!("last luma0 after P (expect copy of I = first value) {:?}", st.get_last_picture().unwrap().as_yuv().0[0]);
}
#[test]
fn d7_tr_collision() {
    // requires D5 fixed too to be meaningful; shows map overwrite: I(TR5), D(TR5), P(TR6)
    let mut st = H263State::new(DecoderOption::SORENSON_SPARK_BITSTREAM);
    let mut w = W::new(); hdr(&mut w, 0, 5, 16, 16, 0, 5); intra_mb_i(&mut w, 100);
    println!("I: {:?}", dec(&mut st, &w.bytes()).map_err(|e| e.to_string()));
    let i0 = st.get_last_picture().unwrap().as_yuv().0[0];
    let mut w = W::new(); hdr(&mut w, 0, 5, 16, 16, 2, 5); intra_mb_p(&mut w, 20);
    println!("D: {:?}", dec(&mut st, &w.bytes()).map_err(|e| e.to_string()));
    let mut w = W::new(); hdr(&mut w, 0, 6, 16, 16, 1, 5); uncoded(&mut w);
    println!("P: {:?}", dec(&mut st, &w.bytes()).map_err(|e| e.to_string()));
    println!("I luma0 {} ; P luma0 (should equal I) {}", i0, st.get_last_picture().unwrap().as_yuv().0[0]);
}

#[test]
fn d12_umv_overflow() {
    let mut st = H263State::new(DecoderOption::empty());
    // baseline I picture, sub-QCIF (8x6 MBs). On the pinned tree PTYPE bit 9 = 1 selects IFrame (D8).
    let mut w = W::new();
    w.put(1, 17); w.put(0, 5); w.put(0, 8);
    w.s("10"); w.s("000"); w.s("001"); w.s("1"); w.s("0000");
    w.put(5, 5); w.s("0"); w.s("0");
    for _ in 0..48 { intra_mb_i(&mut w, 100); }
    println!("I: {:?}", dec(&mut st, &w.bytes()).map_err(|e| e.to_string()));
    // PLUSPTYPE P picture with UMV, UUI=01
    let mut w = W::new();
    w.put(1, 17); w.put(0, 5); w.put(1, 8);
    w.s("10"); w.s("000"); w.s("111");
    w.s("001");                       // UFEP
    w.s("001"); w.s("0"); w.s("1"); w.s("0000000000"); w.s("1000");   // OPPTYPE: fmt, PCF, UMV, 10 other mode bits... (SAC AP AIC DF SS RPS ISD AIV MQ =9 bits)
    println!("bits so far {}", w.bits.len());
    let mut w2 = W::new();
    w2.put(1, 17); w2.put(0, 5); w2.put(1, 8);
    w2.s("10"); w2.s("000"); w2.s("111");
    w2.s("001");
    w2.s("001"); w2.s("0"); w2.s("1"); w2.s("000000000"); w2.s("1000");   // 3+1+1+9+4 = 18
    w2.s("001"); w2.s("000"); w2.s("001");   // MPPTYPE: P, RPR RRU RTYPE, 001
    w2.s("0");                                 // CPM
    w2.s("01");                                // UUI unlimited
    w2.put(5, 5);                              // PQUANT
    w2.s("0");                                 // PEI
    for _ in 0..3 {
        w2.s("0"); w2.s("1"); w2.s("11");       // COD, MCBPC inter 00, CBPY
        w2.s("0"); for _ in 0..11 { w2.s("11"); } w2.s("00");   // MVDx = +4095
        w2.s("1");                              // MVDy = 0
    }
    println!("P: {:?}", dec(&mut st, &w2.bytes()).map_err(|e| e.to_string()));
}

#[test]
fn idct_orientation() {
    let mut w = W::new(); hdr(&mut w, 0, 0, 16, 16, 0, 5);
    w.s("1"); w.s("00010");                 // intra, cbpc 00 ; cbpy luma0 coded
    w.put(100, 8); w.s("1111"); w.s("0"); w.s("0111"); w.s("0");   // dc=800, (run0,lvl2), last(run0,lvl1)
    for _ in 0..5 { w.put(100, 8); }
    let mut st = H263State::new(DecoderOption::SORENSON_SPARK_BITSTREAM);
    println!("{:?}", dec(&mut st, &w.bytes()).map_err(|e| e.to_string()));
    let p = st.get_last_picture().unwrap();
    let y = p.as_yuv().0;
    let mut f = [[0f64; 8]; 8]; // f[v][u]
    f[0][0] = 800.0; f[0][1] = 25.0; f[1][0] = 15.0;   // u=1 horizontal gets 25, v=1 vertical gets 15
    let mut maxd = 0i32;
    for yy in 0..8 { for xx in 0..8 {
        let mut s = 0f64;
        for v in 0..8 { for u in 0..8 {
            let cu = if u == 0 { (0.5f64).sqrt() } else { 1.0 };
            let cv = if v == 0 { (0.5f64).sqrt() } else { 1.0 };
            s += cu * cv * f[v][u] * ((2 * xx + 1) as f64 * u as f64 * std::f64::consts::PI / 16.0).cos() * ((2 * yy + 1) as f64 * v as f64 * std::f64::consts::PI / 16.0).cos();
        } }
        let r = (s / 4.0).round().clamp(0.0, 255.0) as i32;
        let got = y[yy * 16 + xx] as i32;
        maxd = maxd.max((r - got).abs());
    } }
    println!("row0 {:?}", &y[0..8]);
    println!("col0 {:?}", (0..8).map(|r| y[r*16]).collect::<Vec<_>>());
    println!("max diff vs reference {}", maxd);
    assert!(maxd <= 1);
}
