"""Conditional constant propagation over one MIR body (Wegman-Zadeck style, along the single feasible path).

Used for finite decision tables: "what does this function return when the discriminant of its argument is v".
Inputs are *facts about* the arguments (a discriminant, an integer constant); every value not determined by
them is Unknown and a branch on an Unknown makes the query fail (the rule then fails closed).  Local callees
are folded the same way; external callees only through the small pure model table below.
"""
from .cfg import cfg_of, const_value


class Unknown(Exception):
    pass


class Val:
    """('int', v, bits, signed) | ('bool', b) | ('enum', adt_path, variant_idx, fields) | ('tuple', fields) | ('unit',) | ('unk', why)"""


UNK = ('unk',)


def is_unk(v):
    return v[0] == 'unk'


def wrap(v, bits, signed):
    m = 1 << bits
    v &= m - 1
    if signed and v >= m >> 1:
        v -= m
    return v


class Folder:
    def __init__(self, facts, max_steps=20000):
        self.facts = facts
        self.max_steps = max_steps

    def call(self, name, args, depth=0):
        """args: list of Val; returns Val (of the return slot) or raises Unknown."""
        body = self.facts.body(name)
        return self._run(body, args, depth)

    def _run(self, body, args, depth):
        if depth > 12:
            raise Unknown('call depth')
        g = cfg_of(body)
        env = {}
        for i, a in enumerate(args):
            env[i + 1] = a
        bb = 0; steps = 0
        blocks = body['blocks']
        while True:
            steps += 1
            if steps > self.max_steps:
                raise Unknown('step limit in %s' % body['name'])
            blk = blocks[bb]
            for s in blk['stmts']:
                if s['s'] == 'assign':
                    self._assign(body, env, s['lhs'], self._rvalue(body, env, s['rv']))
                elif s['s'] == 'setdiscr':
                    raise Unknown('setdiscr')
            t = blk['term']; k = t['t']
            if k == 'return':
                return env.get(0, ('unit',))
            if k in ('goto', 'drop'):
                bb = t['to']; continue
            if k == 'assert':
                c = self._operand(body, env, t['cond'])
                if is_unk(c):
                    raise Unknown('assert on unknown in %s bb%d' % (body['name'], bb))
                if bool(c[1]) != bool(t['expected']):
                    return ('panic', t['kind'], t['span']['line'])
                bb = t['to']; continue
            if k == 'switch':
                v = self._operand(body, env, t['on'])
                if is_unk(v):
                    raise Unknown('switch on unknown value in %s bb%d (%s)' % (body['name'], bb, v[1:] and v[1]))
                iv = int(v[1]) if v[0] in ('int', 'bool') else None
                if iv is None:
                    raise Unknown('switch on %s' % (v[0],))
                if v[0] == 'int' and v[3] and iv < 0:
                    iv += 1 << v[2]
                tgt = t['otherwise']
                for val, to in t['arms']:
                    if int(val) == iv: tgt = to
                bb = tgt; continue
            if k == 'call':
                f = t['f']
                cargs = [self._operand(body, env, a) for a in t['args']]
                callee = self.facts.local_callee(body['crate'], t)
                if callee:
                    r = self._run(self.facts.bodies[callee], cargs, depth + 1)
                else:
                    r = self._extern(self.facts.callee_name(t), cargs, t)
                if isinstance(r, tuple) and r and r[0] == 'panic':
                    return r
                self._assign(body, env, t['dest'], r)
                if t['to'] is None:
                    raise Unknown('diverging call')
                bb = t['to']; continue
            if k == 'unreachable':
                raise Unknown('reached `unreachable` in %s' % body['name'])
            raise Unknown('terminator ' + k)

    # ---- values
    def _operand(self, body, env, o):
        if o['o'] == 'const':
            ty = o['ty']['t']
            if 'bits' in o and ty['k'] == 'int':
                return ('int', const_value(o), ty['bits'], ty['s'])
            if 'bits' in o and ty['k'] == 'bool':
                return ('bool', int(o['bits']) != 0)
            if 'bits' in o and ty['k'] == 'float':
                import struct
                bits = int(o['bits'])
                v = struct.unpack('<f', struct.pack('<I', bits))[0] if ty['bits'] == 32 else struct.unpack('<d', struct.pack('<Q', bits))[0]
                return ('float', v, ty['bits'])
            if ty['k'] == 'tuple' and not ty['of']:
                return ('unit',)
            if 'uneval' in o and 'promoted' not in o:
                cn = body['crate'] + '::' + o['uneval']
                if cn in self.facts.bodies:
                    return self._run(self.facts.bodies[cn], [], 1)
            if 'fn' in o:
                return ('fn', o.get('resolved') or o['fn'])
            return ('unk', 'const ' + o.get('txt', '?')[:40])
        return self._read(body, env, o['p'])

    def _read(self, body, env, p):
        v = env.get(p['l'], ('unk', 'uninit _%d' % p['l']))
        for e in p['proj']:
            k = e['p']
            if is_unk(v): return v
            if k == 'deref':
                if v[0] == 'ref': v = v[1]
                continue
            if k == 'field':
                if v[0] in ('enum',): v = v[3][e['i']] if e['i'] < len(v[3]) else ('unk', 'field')
                elif v[0] in ('tuple', 'struct'): v = v[1][e['i']] if e['i'] < len(v[1]) else ('unk', 'field')
                elif v[0] == 'checked': v = (('int', v[1], v[3], v[4]) if e['i'] == 0 else ('bool', v[2]))
                else: return ('unk', 'field of %s' % v[0])
            elif k == 'downcast':
                if v[0] == 'enum' and v[2] != e['v']:
                    return ('unk', 'downcast to other variant')
            elif k in ('cindex',):
                if v[0] == 'array': v = v[1][e['off']]
                else: return ('unk', 'index')
            elif k == 'index':
                i = env.get(e['l'], UNK)
                if v[0] == 'array' and i[0] == 'int' and 0 <= i[1] < len(v[1]): v = v[1][i[1]]
                else: return ('unk', 'index')
            else:
                return ('unk', k)
        return v

    def _assign(self, body, env, lhs, val):
        if not lhs['proj']:
            env[lhs['l']] = val; return
        # writes into parts: only whole-variable precision is kept
        cur = env.get(lhs['l'])
        if cur is not None and cur[0] in ('tuple', 'struct') and len(lhs['proj']) == 1 and lhs['proj'][0]['p'] == 'field':
            fs = list(cur[1]); i = lhs['proj'][0]['i']
            while len(fs) <= i: fs.append(UNK)
            fs[i] = val; env[lhs['l']] = (cur[0], fs); return
        if cur is None and len(lhs['proj']) == 1 and lhs['proj'][0]['p'] == 'field':
            fs = [UNK] * (lhs['proj'][0]['i'] + 1); fs[lhs['proj'][0]['i']] = val
            env[lhs['l']] = ('tuple', fs); return
        env[lhs['l']] = ('unk', 'partial write')

    def _rvalue(self, body, env, r):
        k = r['r']
        if k == 'use':
            return self._operand(body, env, r['a'])
        if k == 'ref':
            return ('ref', self._read(body, env, r['p']))
        if k == 'discr':
            v = self._read(body, env, r['p'])
            if v[0] == 'enum': return ('int', v[4] if len(v) > 4 else v[2], 64, False)
            if v[0] == 'discr_only': return ('int', v[1], 64, False)
            return ('unk', 'discriminant of unknown')
        if k == 'agg':
            kd = r['kind']
            ops = [self._operand(body, env, o) for o in r['ops']]
            if kd['a'] == 'tuple': return ('tuple', ops) if ops else ('unit',)
            if kd['a'] == 'array': return ('array', ops)
            if kd['a'] == 'adt':
                return ('enum', kd['path'], kd['variant'], ops)
            return ('unk', 'aggregate')
        if k == 'repeat':
            return ('unk', 'repeat')
        if k == 'cast':
            v = self._operand(body, env, r['a'])
            to = r['to']['t']
            if v[0] == 'int' and to['k'] == 'int':
                return ('int', wrap(v[1], to['bits'], to['s']), to['bits'], to['s'])
            if v[0] == 'bool' and to['k'] == 'int':
                return ('int', int(v[1]), to['bits'], to['s'])
            if v[0] == 'int' and to['k'] == 'float':
                return ('float', float(v[1]), to['bits'])
            if v[0] == 'enum' and to['k'] == 'int':
                return ('int', v[2], to['bits'], to['s'])
            if v[0] == 'ref' or v[0] == 'array':
                return v
            return ('unk', 'cast')
        if k == 'un':
            v = self._operand(body, env, r['a'])
            if is_unk(v): return v
            if r['op'] == 'Not':
                if v[0] == 'bool': return ('bool', not v[1])
                if v[0] == 'int': return ('int', wrap(~v[1], v[2], v[3]), v[2], v[3])
            if r['op'] == 'Neg' and v[0] == 'int':
                return ('int', wrap(-v[1], v[2], v[3]), v[2], v[3])
            if r['op'] == 'PtrMetadata' and v[0] == 'ref' and v[1][0] == 'array':
                return ('int', len(v[1][1]), 64, False)
            return ('unk', 'unop ' + r['op'])
        if k == 'bin':
            a = self._operand(body, env, r['a']); b = self._operand(body, env, r['b'])
            return binop(r['op'], a, b)
        return ('unk', k)

    def _extern(self, name, args, t):
        if any(is_unk(a) for a in args):
            return ('unk', 'extern %s on unknown' % name)
        if name.endswith('::abs') and args[0][0] == 'int':
            return ('int', wrap(abs(args[0][1]), args[0][2], args[0][3]), args[0][2], args[0][3])
        if name.endswith('::signum') and args[0][0] == 'int':
            v = args[0][1]; return ('int', (v > 0) - (v < 0), args[0][2], args[0][3])
        if name.endswith('Ord::clamp') or name.endswith('::clamp'):
            if all(a[0] == 'int' for a in args):
                return ('int', max(args[1][1], min(args[2][1], args[0][1])), args[0][2], args[0][3])
        if name.endswith('Ord::max') and all(a[0] == 'int' for a in args):
            return ('int', max(args[0][1], args[1][1]), args[0][2], args[0][3])
        if name.endswith('Ord::min') and all(a[0] == 'int' for a in args):
            return ('int', min(args[0][1], args[1][1]), args[0][2], args[0][3])
        for suf, f in (('PartialOrd::lt', lambda x, y: x < y), ('PartialOrd::le', lambda x, y: x <= y), ('PartialOrd::gt', lambda x, y: x > y), ('PartialOrd::ge', lambda x, y: x >= y),
                       ('PartialEq::eq', lambda x, y: x == y), ('PartialEq::ne', lambda x, y: x != y)):
            if name.endswith(suf) and len(args) == 2:
                def scalar(a):
                    # derived comparisons on a one-field newtype compare the field
                    while a[0] == 'ref': a = a[1]
                    while a[0] == 'enum' and len(a[3]) == 1: a = a[3][0]
                    return a[1] if a[0] == 'int' else None
                x, y = scalar(args[0]), scalar(args[1])
                if x is not None and y is not None: return ('bool', f(x, y))
        if '::into' in name or name.endswith('::from'):
            dt = t['dest']['ty']
            a = args[0]
            if a[0] == 'int':
                tm = {'i8': (8, True), 'i16': (16, True), 'i32': (32, True), 'i64': (64, True), 'isize': (64, True),
                      'u8': (8, False), 'u16': (16, False), 'u32': (32, False), 'u64': (64, False), 'usize': (64, False)}
                if dt in tm: return ('int', a[1], tm[dt][0], tm[dt][1])
                if dt in ('f32', 'f64'): return ('float', float(a[1]), 32 if dt == 'f32' else 64)
            if a[0] == 'bool' and dt in ('usize', 'u8', 'u32', 'i32'):
                return ('int', int(a[1]), 64, False)
        return ('unk', 'extern ' + name)


def binop(op, a, b):
    if is_unk(a): return a
    if is_unk(b): return b
    cmpops = {'Eq': lambda x, y: x == y, 'Ne': lambda x, y: x != y, 'Lt': lambda x, y: x < y, 'Le': lambda x, y: x <= y,
              'Gt': lambda x, y: x > y, 'Ge': lambda x, y: x >= y}
    if op in cmpops and a[0] in ('int', 'bool', 'float') and b[0] in ('int', 'bool', 'float'):
        return ('bool', cmpops[op](a[1], b[1]))
    if a[0] == 'bool' and b[0] == 'bool':
        if op == 'BitAnd': return ('bool', a[1] and b[1])
        if op == 'BitOr': return ('bool', a[1] or b[1])
        if op == 'BitXor': return ('bool', a[1] != b[1])
    if a[0] == 'int' and b[0] == 'int':
        x, y, bits, sg = a[1], b[1], a[2], a[3]
        base = op.replace('WithOverflow', '').replace('Unchecked', '')
        r = None
        if base == 'Add': r = x + y
        elif base == 'Sub': r = x - y
        elif base == 'Mul': r = x * y
        elif base == 'Div':
            if y == 0: return ('unk', 'div0')
            r = abs(x) // abs(y) * (1 if (x >= 0) == (y >= 0) else -1)
        elif base == 'Rem':
            if y == 0: return ('unk', 'rem0')
            r = abs(x) % abs(y) * (1 if x >= 0 else -1)
        elif base == 'BitAnd': r = x & y
        elif base == 'BitOr': r = x | y
        elif base == 'BitXor': r = x ^ y
        elif base == 'Shl': r = x << (y % bits)
        elif base == 'Shr': r = x >> (y % bits)
        if r is None: return ('unk', 'binop ' + op)
        w = wrap(r, bits, sg)
        if op.endswith('WithOverflow'):
            return ('checked', w, w != r, bits, sg)
        return ('int', w, bits, sg)
    if a[0] == 'float' and b[0] == 'float':
        import struct
        x, y = a[1], b[1]
        r = {'Add': x + y, 'Sub': x - y, 'Mul': x * y}.get(op)
        if op == 'Div' and y != 0: r = x / y
        if r is None: return ('unk', 'float op')
        if a[2] == 32:
            r = struct.unpack('<f', struct.pack('<f', r))[0]
        return ('float', r, a[2])
    return ('unk', 'binop %s on %s,%s' % (op, a[0], b[0]))


def discr_only(v):
    """an enum value of which only the discriminant is known"""
    return ('discr_only', v)
