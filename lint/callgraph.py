"""Whole-program call graph over resolved instances (closures linked through generic args and
through closure aggregates built in the caller)."""
import collections
from .cfg import cfg_of


class CallGraph:
    def __init__(self, facts):
        self.facts = facts
        self.edges = collections.defaultdict(set)       # caller -> local callees
        self.ext = collections.defaultdict(list)        # caller -> [(bb, external callee name)]
        self.sites = collections.defaultdict(list)      # caller -> [(bb, callee or None, extname)]
        for name, b in facts.bodies.items():
            if b['kind'] in ('Const', 'Static', 'Promoted') and False:
                continue
            crate = b['crate']
            g = cfg_of(b)
            for bb in sorted(g.reach):
                blk = g.blocks[bb]
                # closures constructed here (aggregate) are potential callees of whoever receives them
                for s in blk['stmts']:
                    if s['s'] == 'assign' and s['rv']['r'] == 'agg' and s['rv']['kind'].get('a') == 'closure':
                        cn = crate + '::' + s['rv']['kind']['path']
                        if cn in facts.bodies:
                            self.edges[name].add(cn)
                    # function items referenced as values (fn pointers / passed as FnOnce)
                    if s['s'] == 'assign':
                        for o in _operands(s['rv']):
                            if o.get('o') == 'const' and 'fn' in o:
                                for cand in (o.get('resolved'), o.get('fn')):
                                    if cand and (crate + '::' + cand) in facts.bodies:
                                        self.edges[name].add(crate + '::' + cand); break
                t = blk['term']
                if t['t'] != 'call':
                    continue
                f = t['f']
                loc = facts.local_callee(crate, t)
                en = facts.callee_name(t)
                if loc:
                    self.edges[name].add(loc)
                else:
                    self.ext[name].append((bb, en))
                self.sites[name].append((bb, loc, en))
                if f.get('o') == 'const':
                    for c in f.get('closures', []):
                        cn = crate + '::' + c
                        if cn in facts.bodies:
                            self.edges[name].add(cn)
                # fn items passed as arguments
                for a in t['args']:
                    if a.get('o') == 'const' and 'fn' in a:
                        for cand in (a.get('resolved'), a.get('fn')):
                            if cand and (crate + '::' + cand) in facts.bodies:
                                self.edges[name].add(crate + '::' + cand); break

    def reachable(self, roots):
        seen = set(); st = list(roots)
        while st:
            x = st.pop()
            if x in seen: continue
            seen.add(x); st.extend(self.edges.get(x, ()))
        return seen

    def sccs(self, nodes):
        """Tarjan; returns list of SCCs (lists) restricted to `nodes`."""
        index = {}; low = {}; onst = set(); st = []; out = []; counter = [0]
        import sys
        sys.setrecursionlimit(10000)
        def strong(v):
            index[v] = low[v] = counter[0]; counter[0] += 1
            st.append(v); onst.add(v)
            for w in self.edges.get(v, ()):
                if w not in nodes: continue
                if w not in index:
                    strong(w); low[v] = min(low[v], low[w])
                elif w in onst:
                    low[v] = min(low[v], index[w])
            if low[v] == index[v]:
                comp = []
                while True:
                    w = st.pop(); onst.discard(w); comp.append(w)
                    if w == v: break
                out.append(comp)
        for v in nodes:
            if v not in index: strong(v)
        return out

    def recursive_components(self, nodes):
        res = []
        for comp in self.sccs(nodes):
            if len(comp) > 1 or comp[0] in self.edges.get(comp[0], ()):
                res.append(comp)
        return res

    def topo_bottom_up(self, nodes):
        """callees before callers (assumes acyclic within nodes; cycles are broken arbitrarily)."""
        order = []; seen = set()
        for root in sorted(nodes):
            if root in seen: continue
            st = [(root, iter(sorted(self.edges.get(root, ()))))]; seen.add(root)
            while st:
                x, it = st[-1]; adv = False
                for y in it:
                    if y in nodes and y not in seen:
                        seen.add(y); st.append((y, iter(sorted(self.edges.get(y, ()))))); adv = True; break
                if not adv:
                    order.append(x); st.pop()
        return order


def _operands(rv):
    k = rv['r']
    if k in ('use', 'cast', 'un', 'repeat'):
        return [rv['a']]
    if k == 'bin':
        return [rv['a'], rv['b']]
    if k == 'agg':
        return rv['ops']
    return []


_cg = {}


def callgraph(facts):
    k = id(facts)
    if k not in _cg:
        _cg[k] = CallGraph(facts)
    return _cg[k]
