"""Folding of `const` tables from their MIR (aggregate construction only) and VLC-table utilities."""
from .cprop import Folder, Unknown
from .facts import Unanalysable

_cache = {}


def fold_const(F, name):
    k = (id(F), name)
    if k not in _cache:
        try:
            _cache[k] = Folder(F).call(name, [])
        except Unknown as e:
            raise Unanalysable('const %s could not be folded: %s' % (name, e))
    return _cache[k]


def plain(v):
    """python value of a folded Val"""
    k = v[0]
    if k == 'int': return v[1]
    if k == 'bool': return v[1]
    if k == 'float': return v[1]
    if k == 'unit': return ()
    if k == 'array': return [plain(x) for x in v[1]]
    if k == 'tuple': return tuple(plain(x) for x in v[1])
    if k == 'enum': return (v[1].split('::')[-1], v[2], [plain(x) for x in v[3]])
    if k == 'ref': return plain(v[1])
    raise Unanalysable('unfoldable value in const: %s' % (v[:2],))


def vlc_entries(F, name):
    """list of ('fork', zero, one) / ('end', value)"""
    v = fold_const(F, name)
    if v[0] != 'array':
        raise Unanalysable('%s is not an array' % name)
    a = F.adt('h263_rs::parser::vlc::Entry')
    vi = {x['name']: x['idx'] for x in a['variants']}
    out = []
    for e in v[1]:
        if e[0] != 'enum' or not e[1].endswith('vlc::Entry'):
            raise Unanalysable('%s holds a non-Entry element' % name)
        if e[2] == vi['Fork']:
            out.append(('fork', e[3][0][1], e[3][1][1]))
        else:
            out.append(('end', plain(e[3][0])))
    return out


def vlc_check(entries):
    """returns (problems, codes) where codes maps bit-string -> end value, for every root-to-End path."""
    problems = []
    n = len(entries)
    if not entries or entries[0][0] != 'fork':
        problems.append('root is not a Fork (a lookup would consume no bit)')
    codes = {}
    visited_on_path = set()
    reached = set()
    import sys
    sys.setrecursionlimit(10000)

    def walk(i, code, path):
        if i < 0 or i >= n:
            problems.append('index %d out of range at code %s' % (i, code)); return
        if i in path:
            problems.append('cycle through slot %d at code %s' % (i, code)); return
        reached.add(i)
        e = entries[i]
        if e[0] == 'end':
            codes[code] = e[1]; return
        walk(e[1], code + '0', path | {i}); walk(e[2], code + '1', path | {i})
    walk(0, '', frozenset())
    unreached = [i for i in range(n) if i not in reached]
    return problems, codes, unreached
