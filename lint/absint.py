"""Interval / option-state / symbolic-bound abstract interpretation of one MIR body (DESIGN.md 2.3-2, 4.1-4.3).

Forward dataflow over the CFG in reverse post-order with widening (thresholds = the integer constants of the
body) at loop headers followed by two narrowing passes.  No path is enumerated and nothing is executed: every
block is visited a bounded number of times with abstract values.

Abstract values (class AV):
  int    [lo, hi] within the type range; `sym`: the symbolic quantity the value *is* (e.g. ('len', ref-id));
         `ubs`: symbolic strict upper bounds {key}: value < key;  `lin` = (vid, c): value == value(vid) + c
  float  [lo, hi] (+nan flag)
  bool   may-be-true / may-be-false, plus `cond`: the comparison it stands for (used to refine on branches)
  enum   set of possible variants (Option / Result / local enums); payloads are kept as sub-places
  ref    points to a tracked place key (or unknown)
  top    anything of its type
Every value carries a `vid` (value identity): copies share it, so refining one copy refines all copies that are
still "the same value" (this is what makes `if x < n { a[x] }` work through MIR's temporaries).
"""
import itertools, math, re
from .cfg import cfg_of, const_value, _strip_generics

_vid = itertools.count(1)
MEM_BOUND = 1 << 40          # no collection holds more than 2^40 elements ("sizes that would not fit in memory are excluded")

INT_TYPES = {'u8': (8, False), 'u16': (16, False), 'u32': (32, False), 'u64': (64, False), 'u128': (128, False), 'usize': (64, False),
             'i8': (8, True), 'i16': (16, True), 'i32': (32, True), 'i64': (64, True), 'i128': (128, True), 'isize': (64, True)}


def int_range(bits, signed):
    if signed: return (-(1 << (bits - 1)), (1 << (bits - 1)) - 1)
    return (0, (1 << bits) - 1)


def tyinfo(tystr):
    """('int', bits, signed) / ('bool',) / ('float', bits) / ('other',)"""
    s = tystr.strip()
    if s in INT_TYPES: return ('int',) + INT_TYPES[s]
    if s == 'bool': return ('bool',)
    if s in ('f32', 'f64'): return ('float', 32 if s == 'f32' else 64)
    if s == 'char': return ('int', 32, False)
    return ('other',)


class AV:
    __slots__ = ('k', 'lo', 'hi', 'vid', 'sym', 'ubs', 'lin', 'vs', 'cond', 'tgt', 'ty', 'extra', 'nan', 'divof')

    def __init__(self, k, lo=None, hi=None, ty=None, **kw):
        self.k = k; self.lo = lo; self.hi = hi; self.ty = ty
        self.vid = kw.get('vid') or next(_vid)
        self.sym = kw.get('sym'); self.ubs = kw.get('ubs') or frozenset(); self.lin = kw.get('lin')
        self.vs = kw.get('vs'); self.cond = kw.get('cond'); self.tgt = kw.get('tgt'); self.extra = kw.get('extra'); self.nan = kw.get('nan', False)
        self.divof = kw.get('divof')

    def clone(self, **kw):
        a = AV(self.k, self.lo, self.hi, self.ty, vid=kw.get('vid', self.vid), sym=self.sym, ubs=self.ubs, lin=self.lin, vs=self.vs,
               cond=self.cond, tgt=self.tgt, extra=self.extra, nan=self.nan, divof=self.divof)
        for k, v in kw.items():
            if k != 'vid': setattr(a, k, v)
        return a

    def __repr__(self):
        if self.k == 'int':
            s = '[%s,%s]' % (self.lo, self.hi)
            if self.ubs: s += '<{%s}' % ','.join(map(str, sorted(self.ubs, key=str)))
            if self.sym: s += '=%s' % (self.sym,)
            return s
        if self.k == 'float': return 'f[%s,%s]%s' % (self.lo, self.hi, '?nan' if self.nan else '')
        if self.k == 'bool': return 'bool%s' % (sorted(self.vs),)
        if self.k == 'enum': return 'enum%s' % (sorted(self.vs),)
        if self.k == 'ref': return '&%s' % (self.tgt,)
        return self.k


def mk_int(lo, hi, ty, **kw):
    return AV('int', lo, hi, ty, **kw)


def top_int(ty):
    lo, hi = int_range(ty[1], ty[2])
    return AV('int', lo, hi, ty)


def mk_bool(vs, **kw):
    return AV('bool', vs=frozenset(vs), **kw)


def top_of(tystr):
    t = tyinfo(tystr)
    if t[0] == 'int': return top_int(t)
    if t[0] == 'bool': return mk_bool({0, 1})
    if t[0] == 'float': return AV('float', -math.inf, math.inf, t, nan=True)
    return AV('top', ty=tystr)


def is_top(a):
    return a.k == 'top'


# ------------------------------------------------------------------------------------------ join / widen
def join_extra(x, y):
    """join of the structured `extra` annotations (iterator descriptors, slice lengths, const items)"""
    if x is y or x == y: return x
    if x is None or y is None: return None
    if not (isinstance(x, tuple) and isinstance(y, tuple)) or not x or not y or x[0] != y[0]: return None
    if x[0] == 'slicelen':
        r = ('slicelen', min(x[1], y[1]), max(x[2], y[2]))
        if len(x) > 3 and len(y) > 3 and x[3] == y[3] and x[3] is not None: r = r + (x[3],)
        return r
    if x[0] == 'iter':
        if x[1] != y[1] or len(x) != len(y): return None
        def jitem(p, q):
            if isinstance(p, AV) and isinstance(q, AV): return join(p, q)
            if isinstance(p, tuple) and isinstance(q, tuple) and len(p) == len(q) and p and p[0] == q[0] == 'tuple':
                return ('tuple',) + tuple(jitem(a_, b_) for a_, b_ in zip(p[1:], q[1:]))
            if isinstance(p, tuple) and isinstance(q, tuple) and len(p) == len(q) and p and p[0] == q[0] == 'take':
                return ('take', join(p[1], q[1]))
            if p == q: return p
            if isinstance(p, tuple) and isinstance(q, tuple) and len(p) == len(q) and all(isinstance(t_, int) for t_ in p + q):
                return tuple(min(a_, b_) if i_ == 0 else max(a_, b_) for i_, (a_, b_) in enumerate(zip(p, q)))
            return None
        rest = tuple(jitem(p, q) for p, q in zip(x[5:], y[5:]))
        return ('iter', x[1], min(x[2], y[2]), max(x[3], y[3]), x[4] if x[4] == y[4] else None) + rest
    return None


def join(a, b, widen=False, thresholds=()):
    if a is b: return a
    if a is None: return b
    if b is None: return a
    if a.k != b.k:
        return AV('top', ty=a.ty if isinstance(a.ty, str) else None)
    if a.k == 'int':
        lo = min(a.lo, b.lo); hi = max(a.hi, b.hi)
        if widen:
            tlo, thi = int_range(a.ty[1], a.ty[2]) if a.ty else (lo, hi)
            if b.lo < a.lo:
                c = [t for t in thresholds if t <= b.lo]
                lo = max(c) if c else tlo
                lo = max(lo, tlo)
            if b.hi > a.hi:
                c = [t for t in thresholds if t >= b.hi]
                hi = min(c) if c else thi
                hi = min(hi, thi)
        same = (a.vid == b.vid)
        r = AV('int', lo, hi, a.ty, vid=a.vid if same and lo == a.lo and hi == a.hi else None)
        r.ubs = a.ubs & b.ubs
        r.sym = a.sym if a.sym == b.sym else None
        r.lin = a.lin if a.lin == b.lin else None
        if same and r.vid == a.vid and r.ubs == a.ubs: return a
        return r
    if a.k == 'float':
        return AV('float', min(a.lo, b.lo), max(a.hi, b.hi), a.ty, nan=a.nan or b.nan, vid=a.vid if a.vid == b.vid and a.lo <= b.lo and a.hi >= b.hi and (a.nan or not b.nan) else None)
    if a.k in ('bool', 'enum'):
        vs = a.vs | b.vs
        if vs == a.vs and a.vid == b.vid: return a
        return AV(a.k, ty=a.ty, vs=vs, vid=a.vid if vs == a.vs and a.vid == b.vid else None, extra=a.extra if a.extra == b.extra else None)
    if a.k == 'ref':
        if a.tgt == b.tgt and a.extra == b.extra: return a if a.vid == b.vid else a.clone(vid=None)
        return AV('ref', ty=a.ty, tgt=a.tgt if a.tgt == b.tgt else None, extra=join_extra(a.extra, b.extra))
    if a.vid == b.vid: return a
    return AV(a.k, ty=a.ty, extra=join_extra(a.extra, b.extra))


def leq(a, b):
    """a is included in b"""
    if a is b: return True
    if a is None: return True
    if b is None: return False
    if b.k == 'top': return True
    if a.k != b.k: return False
    if a.k == 'int': return b.lo <= a.lo and a.hi <= b.hi and b.ubs <= a.ubs
    if a.k == 'float': return b.lo <= a.lo and a.hi <= b.hi and (b.nan or not a.nan)
    if a.k in ('bool', 'enum'): return a.vs <= b.vs
    if a.k == 'ref': return b.tgt is None or a.tgt == b.tgt
    return True


# ------------------------------------------------------------------------------------------ state
class State:
    """place key -> AV.  key = (local, path) ; path elements: '*' deref, int field, ('v', k) downcast, '[]' any element"""

    def __init__(self, m=None):
        self.m = m if m is not None else {}

    def copy(self):
        return State(dict(self.m))

    def get(self, key):
        return self.m.get(key)

    def set(self, key, val):
        self.kill(key)
        self.m[key] = val

    def kill(self, key, keep_self=False):
        l, p = key; n = len(p)
        for k in [k for k in self.m if k[0] == l and len(k[1]) >= n and k[1][:n] == p]:
            if keep_self and k == key: continue
            del self.m[k]

    def subkeys(self, key):
        l, p = key; n = len(p)
        return [k for k in self.m if k[0] == l and len(k[1]) > n and k[1][:n] == p]

    def refine_vid(self, vid, fn):
        """replace every value with identity `vid` by fn(value)"""
        for k, v in list(self.m.items()):
            if v.vid == vid:
                nv = fn(v)
                if nv is not None: self.m[k] = nv


def _vacuous_in(m, key):
    """is `key` (a place below some `(v, k)` downcast) meaningless in map m because the enum there cannot be variant k?"""
    l, p = key
    for i, el in enumerate(p):
        if isinstance(el, tuple) and el[0] == 'v':
            e = m.get((l, p[:i]))
            if e is not None and e.k == 'enum' and el[1] not in e.vs:
                return True
    return False


def join_states(a, b, widen=False, thresholds=()):
    if a is None: return b.copy()
    if b is None: return a.copy()
    m = {}
    memo = {}
    def join_(va, vb, widen=False, thresholds=()):
        # copies that share an identity on both sides keep sharing it after the join
        key = (va.vid, vb.vid)
        r = memo.get(key)
        if r is None:
            r = join(va, vb, widen, thresholds); memo[key] = r
        return r
    for k, va in a.m.items():
        vb = b.m.get(k)
        if vb is None:
            # unknown on the other side: drop (reads fall back to the type / contract default) - unless the place is
            # the payload of an enum variant the other side cannot be in
            if _vacuous_in(b.m, k): m[k] = va
            continue
        m[k] = join_(va, vb, widen, thresholds)
    for k, vb in b.m.items():
        if k not in a.m and _vacuous_in(a.m, k): m[k] = vb
    return State(m)


def state_leq(a, b):
    """a included in b (b has fewer or weaker facts)"""
    for k, vb in b.m.items():
        va = a.m.get(k)
        if va is None or not leq(va, vb): return False
    return True


# ------------------------------------------------------------------------------------------ interval arithmetic helpers
def clamp_ty(lo, hi, ty):
    tlo, thi = int_range(ty[1], ty[2])
    if lo < tlo or hi > thi:
        return tlo, thi, True
    return lo, hi, False


def arith(op, a, b, ty):
    """mathematical result interval of a op b (python ints), or None if unknown"""
    if op == 'Add': return a.lo + b.lo, a.hi + b.hi
    if op == 'Sub': return a.lo - b.hi, a.hi - b.lo
    if op == 'Mul':
        c = [a.lo * b.lo, a.lo * b.hi, a.hi * b.lo, a.hi * b.hi]
        return min(c), max(c)
    if op == 'Div':
        if b.lo <= 0 <= b.hi:
            # divisor may be zero: the assert guards it; compute with the non-zero part
            cands = []
            if b.lo < 0: cands += [(b.lo, -1)]
            if b.hi > 0: cands += [(1, b.hi)]
            if not cands: return None
            res = []
            for (l, h) in cands:
                for x in (a.lo, a.hi):
                    for y in (l, h):
                        res.append(int(abs(x) // abs(y)) * (1 if (x >= 0) == (y >= 0) else -1))
            return min(res + [0 if a.lo <= 0 <= a.hi else res[0]]), max(res + [0 if a.lo <= 0 <= a.hi else res[0]])
        res = []
        for x in (a.lo, a.hi):
            for y in (b.lo, b.hi):
                res.append(int(abs(x) // abs(y)) * (1 if (x >= 0) == (y >= 0) else -1))
        if a.lo <= 0 <= a.hi: res.append(0)
        return min(res), max(res)
    if op == 'Rem':
        m = max(abs(b.lo), abs(b.hi))
        if m == 0: return None
        lo = 0 if a.lo >= 0 else -min(m - 1, abs(a.lo))
        hi = 0 if a.hi <= 0 else min(m - 1, a.hi)
        return lo, hi
    if op == 'BitAnd':
        if a.lo >= 0 and b.lo >= 0: return 0, min(a.hi, b.hi)
        if b.lo >= 0: return 0, b.hi
        if a.lo >= 0: return 0, a.hi
        return None
    if op in ('BitOr', 'BitXor'):
        if a.lo >= 0 and b.lo >= 0:
            n = max(a.hi, b.hi).bit_length()
            return (max(a.lo, b.lo) if op == 'BitOr' else 0), (1 << n) - 1
        return None
    if op == 'Shl':
        if a.lo >= 0 and b.lo >= 0 and b.hi < 256: return a.lo << b.lo, a.hi << b.hi
        if b.lo >= 0 and b.hi < 256: return min(a.lo << b.hi, a.lo << b.lo), max(a.hi << b.hi, a.hi << b.lo)
        return None
    if op == 'Shr':
        if b.lo >= 0 and b.hi < 256:
            c = [a.lo >> b.lo, a.lo >> b.hi, a.hi >> b.lo, a.hi >> b.hi]
            return min(c), max(c)
        return None
    return None


def cmp_eval(op, a, b):
    """set of possible truth values of `a op b` for int/float AVs"""
    if a.k not in ('int', 'float') or b.k not in ('int', 'float'):
        if a.k == 'bool' and b.k == 'bool' and op in ('Eq', 'Ne'):
            if len(a.vs) == 1 and len(b.vs) == 1:
                r = (a.vs == b.vs) == (op == 'Eq')
                return {int(r)}
        return {0, 1}
    t = set()
    if op == 'Lt':
        if a.hi < b.lo or _sym_lt(a, b): t = {1}
        elif a.lo >= b.hi: t = {0}
        else: t = {0, 1}
    elif op == 'Le':
        if a.hi <= b.lo or _sym_lt(a, b) or _sym_le(a, b): t = {1}
        elif a.lo > b.hi: t = {0}
        else: t = {0, 1}
    elif op == 'Gt':
        return cmp_eval('Lt', b, a)
    elif op == 'Ge':
        return cmp_eval('Le', b, a)
    elif op == 'Eq':
        if a.lo == a.hi == b.lo == b.hi: t = {1}
        elif a.hi < b.lo or a.lo > b.hi or _sym_lt(a, b) or _sym_lt(b, a): t = {0}
        else: t = {0, 1}
    elif op == 'Ne':
        r = cmp_eval('Eq', a, b)
        return {1 - x for x in r}
    else:
        t = {0, 1}
    if a.k == 'float' and (a.nan or b.nan) or b.k == 'float' and (b.nan or getattr(a, 'nan', False)):
        if op != 'Ne': t = t | {0}
        else: t = t | {1}
    return t


def _sym_lt(a, b):
    """a < b known symbolically"""
    if a.k != 'int' or b.k != 'int': return False
    if b.sym is not None and b.sym in a.ubs: return True
    if a.lin and b.lin and a.lin[0] == b.lin[0] and a.lin[1] < b.lin[1]: return True
    if a.lin and a.lin[0] == b.vid and a.lin[1] < 0: return True
    if a.lin and len(a.lin) > 2 and a.lin[2] is not None and a.lin[2] == b.sym and a.lin[1] < 0 and a.lo >= 0: return True
    if b.lin and b.lin[0] == a.vid and b.lin[1] > 0: return True
    # a < s and s <= b  (b is bounded below by the symbolic quantity s: b = s + c, c >= 0)
    if b.lin and b.lin[1] >= 0:
        for u in a.ubs:
            if u == ('vid', b.lin[0]): return True
    if ('vid', b.vid) in a.ubs: return True
    return False


def _sym_le(a, b):
    if a.k != 'int' or b.k != 'int': return False
    if a.vid == b.vid: return True
    if a.lin and b.lin and a.lin[0] == b.lin[0] and a.lin[1] <= b.lin[1]: return True
    if a.lin and a.lin[0] == b.vid and a.lin[1] <= 0: return True
    if b.lin and b.lin[0] == a.vid and b.lin[1] >= 0: return True
    if a.sym is not None and a.sym == b.sym: return True
    return False


def refine_cmp(op, a, b, truth):
    """refined (a', b') under `a op b` == truth; None for an infeasible side"""
    if not truth:
        op = {'Lt': 'Ge', 'Le': 'Gt', 'Gt': 'Le', 'Ge': 'Lt', 'Eq': 'Ne', 'Ne': 'Eq'}[op]
    if op == 'Gt': b2, a2 = refine_cmp('Lt', b, a, True); return a2, b2
    if op == 'Ge': b2, a2 = refine_cmp('Le', b, a, True); return a2, b2
    if a.k == 'float' or b.k == 'float':
        return a, b
    if a.k != 'int' or b.k != 'int':
        return a, b
    if op == 'Lt':
        na = a.clone(hi=min(a.hi, b.hi - 1)); nb = b.clone(lo=max(b.lo, a.lo + 1))
        ub = set(na.ubs)
        if b.sym is not None: ub.add(b.sym)
        ub.add(('vid', b.vid))
        if b.lin and b.lin[1] <= 0: ub.add(('vid', b.lin[0]))
        ub |= b.ubs
        na.ubs = frozenset(ub)
    elif op == 'Le':
        na = a.clone(hi=min(a.hi, b.hi)); nb = b.clone(lo=max(b.lo, a.lo))
        na.ubs = frozenset(set(na.ubs) | set(b.ubs))
    elif op == 'Eq':
        lo = max(a.lo, b.lo); hi = min(a.hi, b.hi)
        na = a.clone(lo=lo, hi=hi); nb = b.clone(lo=lo, hi=hi)
        na.ubs = nb.ubs = frozenset(set(a.ubs) | set(b.ubs))
        if b.sym and not a.sym: na.sym = b.sym
        if a.sym and not b.sym: nb.sym = a.sym
    elif op == 'Ne':
        na, nb = a, b
        if b.lo == b.hi:
            if a.lo == b.lo: na = a.clone(lo=a.lo + 1)
            elif a.hi == b.lo: na = a.clone(hi=a.hi - 1)
        if a.lo == a.hi:
            if b.lo == a.lo: nb = b.clone(lo=b.lo + 1)
            elif b.hi == a.lo: nb = b.clone(hi=b.hi - 1)
    else:
        return a, b
    if na.lo > na.hi: na = None
    if nb.lo > nb.hi: nb = None
    return na, nb


# ------------------------------------------------------------------------------------------ the interpreter
class Site:
    __slots__ = ('fn', 'bb', 'kind', 'ok', 'why', 'span', 'ops', 'fp')

    def __init__(self, fn, bb, kind, ok, why, span, ops):
        self.fn = fn; self.bb = bb; self.kind = kind; self.ok = ok; self.why = why; self.span = span; self.ops = ops; self.fp = None


class Ctx:
    """analysis-wide context: contracts, function summaries, models"""

    def __init__(self, facts, contracts, effects_analysis, models):
        self.facts = facts; self.contracts = contracts; self.EA = effects_analysis; self.models = models
        self.summaries = {}          # fn -> {path: AV}  (abstract return value)
        self.param_obs = {}          # fn -> {param index: joined AV observed at call sites}
        self.contract_viol = []      # (caller, bb, callee, param, AV, contract)
        self.field_viol = []
        self.unknown_externs = {}
        self.closure_env = {}        # closure fn -> {path below param 1: AV}   (values of captured variables at creation)
        self.closure_env_next = {}


class Interp:
    MAX_ITERS = 40

    def __init__(self, ctx, body, collect=True):
        self.ctx = ctx; self.F = ctx.facts; self.body = body; self.g = cfg_of(body)
        self.name = body['name']; self.crate = body['crate']
        self.blocks = body['blocks']
        self.sites = []
        self.returns = None
        self.collecting = False
        self.thresholds = self._thresholds()
        self.eff_at = {}
        be = ctx.EA.per_body.get(self.name)
        if be:
            for e in be.effects:
                if e.kind == 'w':
                    self.eff_at.setdefault(e.bb, []).append(e)
        self.in_states = {}

    def _thresholds(self):
        ts = {0, 1, -1}
        for bb in self.g.reach:
            blk = self.blocks[bb]
            ops = []
            for s in blk['stmts']:
                if s['s'] == 'assign': ops += _rv_ops(s['rv'])
            t = blk['term']
            if t['t'] == 'call': ops += t['args']
            if t['t'] == 'assert': ops += t['ops']
            if t['t'] == 'switch':
                for v, _ in t['arms']:
                    if int(v) < (1 << 62): ts.add(int(v)); ts.add(int(v) - 1); ts.add(int(v) + 1)
            for o in ops:
                if o.get('o') == 'const' and 'bits' in o and o['ty']['t']['k'] == 'int':
                    v = const_value(o)
                    if abs(v) < (1 << 62): ts.add(v); ts.add(v - 1); ts.add(v + 1)
        return sorted(ts)

    # ---------------------------------------------------------------- initial state
    def initial(self):
        st = State()
        con = self.ctx.contracts.get('params', {}).get(self.name, {})
        for k in range(1, self.body['argc'] + 1):
            ty = self.body['locals'][k]
            t = ty['t']
            if t['k'] in ('ref', 'ptr'):
                ex = None
                pt = t['to']['t'] if 't' in t['to'] else t['to']
                if pt['k'] == 'array' and pt.get('len') is not None: ex = ('arrlen', pt['len'])
                st.m[(k, ())] = AV('ref', ty=ty['s'], tgt=(k, ('*',)), extra=ex)
            else:
                st.m[(k, ())] = top_of(ty['s'])
        env = self.ctx.closure_env.get(self.name, {})
        for path, av in env.items():
            st.m[(1, path)] = av.clone(vid=None)
        for pk, spec in con.items():
            key = _contract_key(pk)
            if 'len' in spec:
                cur = st.m.get(key)
                st.m[key] = AV('ref', ty=self._ty_of_key(key), tgt=(key[0], key[1] + ('*',)), extra=('slicelen', spec['len'][0], spec['len'][1]))
                continue
            av = self._from_spec(spec, self._ty_of_key(key))
            if av is not None: st.m[key] = av
        return st

    def _from_spec(self, spec, tystr):
        t = tyinfo(tystr) if tystr else ('other',)
        if 'range' in spec:
            lo, hi = spec['range']
            if t[0] == 'int':
                tlo, thi = int_range(t[1], t[2]); return mk_int(max(lo, tlo), min(hi, thi), t)
            return mk_int(lo, hi, ('int', 64, True))
        if 'bool' in spec:
            return mk_bool({int(spec['bool'])})
        if 'variants' in spec:
            return AV('enum', ty=tystr, vs=frozenset(spec['variants']))
        return None

    def _ty_of_key(self, key):
        l, p = key
        if not p: return self.body['locals'][l]['s']
        tys = self._walk_types(self.body['locals'][l], p)
        return tys

    def _walk_types(self, ty, path):
        """type string of local-type `ty` projected by `path` (best effort)"""
        cur = ty
        for el in path:
            t = cur['t'] if 't' in cur else cur
            if el == '*':
                while t['k'] in ('ref', 'ptr'):
                    cur = t['to']; t = cur['t'] if 't' in cur else cur
                    break
                continue
            while t['k'] in ('ref', 'ptr'):
                cur = t['to']; t = cur['t'] if 't' in cur else cur
            if isinstance(el, int):
                if t['k'] == 'tuple' and el < len(t['of']): cur = t['of'][el]
                elif t['k'] == 'adt':
                    a = self.F.adts.get(self.crate + '::' + t['path'])
                    if a and len(a['variants']) == 1 and el < len(a['variants'][0]['fields']): cur = a['variants'][0]['fields'][el]['ty']
                    else: return None
                elif t['k'] == 'closure':
                    return None
                else: return None
            elif el == '[]':
                if t['k'] in ('array', 'slice'): cur = t['of']
                else: return None
            else:
                return None
        return cur['s'] if 's' in cur else None

    # ---------------------------------------------------------------- places
    def pkey(self, st, p):
        l = p['l']; path = ()
        for e in p['proj']:
            k = e['p']
            if k == 'deref':
                v = st.m.get((l, path))
                if v is not None and v.k == 'ref' and v.tgt is not None:
                    l, path = v.tgt
                else:
                    path = path + ('*',)
            elif k == 'field': path = path + (e['i'],)
            elif k == 'downcast': path = path + (('v', e['v']),)
            elif k in ('index', 'cindex', 'subslice'): path = path + ('[]',)
            else: path = path + ('?',)
        return (l, path)

    def read_place(self, st, p):
        key = self.pkey(st, p)
        v = st.m.get(key)
        if v is not None: return v
        v = self.default(st, key, p['ty'], p)
        # give the unknown scalar an identity, so that a later test on one read of the place refines the next read too
        # (sound under Rust's aliasing rules: the place can only change through this path, which kills the key)
        if v.k in ('int', 'bool', 'float') and '[]' not in key[1]:
            st.m[key] = v
        return v

    def default(self, st, key, tystr, p=None):
        """value of an untracked place: folded const item, field contract, or type range"""
        l, path = key
        # inside a folded `const` item?
        for n in range(len(path), -1, -1):
            base = st.m.get((l, path[:n]))
            if base is not None and base.extra and isinstance(base.extra, tuple) and base.extra[0] == 'item':
                pre = base.extra[2] if len(base.extra) > 2 else ()
                hv = self.ctx.models.item_hull(self.F, self.crate, base.extra[1], tuple(pre) + tuple(path[n:]), tystr)
                if hv is not None: return hv
                break
        fc = self._field_contract(key, p)
        if fc is not None: return fc
        ts = tystr.strip()
        if ts.startswith('&') or ts.startswith('*const') or ts.startswith('*mut'):
            # an unknown reference: it points to its own symbolic pointee, so that copies of it alias the same abstract location
            ex = None
            m = re.match(r'^&(?:mut )?\[.*; (\d+)\]$', ts)
            if m: ex = ('arrlen', int(m.group(1)))
            v = AV('ref', ty=ts, tgt=(l, path + ('*',)), extra=ex)
            st.m[key] = v
            return v
        return top_of(tystr)

    def _field_contract(self, key, p):
        """declared range of `Adt.field` when the place is that field"""
        fcs = self.ctx.contracts.get('fields', {})
        if not fcs or p is None: return None
        # find the type of the parent of the last field projection
        proj = p['proj']
        if not proj or proj[-1]['p'] != 'field': return None
        parent_ty = self._proj_type(p, len(proj) - 1)
        if parent_ty is None: return None
        spec = fcs.get(parent_ty, {}).get(str(proj[-1]['i']))
        if spec is None: return None
        return self._from_spec(spec, p['ty'])

    def _proj_type(self, p, n):
        """ADT path (crate-less) of place p truncated to its first n projections, if it is a local ADT"""
        cur = self.body['locals'][p['l']]
        for e in p['proj'][:n]:
            t = cur['t'] if 't' in cur else cur
            k = e['p']
            if k == 'deref':
                if t['k'] in ('ref', 'ptr'): cur = t['to']
                else: return None
            elif k == 'field':
                while t['k'] in ('ref', 'ptr'):
                    cur = t['to']; t = cur['t'] if 't' in cur else cur
                if t['k'] == 'tuple' and e['i'] < len(t['of']): cur = t['of'][e['i']]
                elif t['k'] == 'adt':
                    a = self.F.adts.get(self.crate + '::' + t['path'])
                    if a and len(a['variants']) == 1 and e['i'] < len(a['variants'][0]['fields']): cur = a['variants'][0]['fields'][e['i']]['ty']
                    else: return None
                else: return None
            elif k in ('index', 'cindex'):
                if t['k'] in ('array', 'slice'): cur = t['of']
                else: return None
            else:
                return None
        t = cur['t'] if 't' in cur else cur
        while t['k'] in ('ref', 'ptr'):
            cur = t['to']; t = cur['t'] if 't' in cur else cur
        return t['path'] if t['k'] == 'adt' else None

    def deref_value(self, st, r):
        """value a reference AV points to (materialised in the state so that it has an identity), or None"""
        if r is None or r.k != 'ref': return None
        if r.extra and r.extra[0] == 'constval': return r.extra[1]
        if r.tgt is None: return None
        v = st.m.get(r.tgt)
        if v is None:
            ts = (r.ty or '').strip()
            m = re.match(r'^&(?:mut )?(.*)$', ts)
            if not m: return None
            v = self.default(st, r.tgt, m.group(1), None)
            if v.k in ('int', 'bool', 'float', 'enum'): st.m[r.tgt] = v
        return v

    def write_place(self, st, p, val, src_key=None):
        key = self.pkey(st, p)
        weak = '[]' in key[1] and any(e['p'] == 'index' for e in p['proj'])
        if weak:
            old = st.m.get(key)
            st.kill(key)
            st.m[key] = join(old, val) if old is not None else join(self.default(st, key, p['ty'], p), val)
        else:
            st.set(key, val)
        if src_key is not None and val.k != 'ref':
            for k in st.subkeys(src_key):
                st.m[(key[0], key[1] + k[1][len(src_key[1]):])] = st.m[k]
        self._check_field_store(st, p, val)

    def _check_field_store(self, st, p, val):
        fcs = self.ctx.contracts.get('fields', {})
        if not fcs or not self.collecting: return
        proj = p['proj']
        if not proj or proj[-1]['p'] != 'field': return
        parent_ty = self._proj_type(p, len(proj) - 1)
        spec = fcs.get(parent_ty, {}).get(str(proj[-1]['i'])) if parent_ty else None
        if spec is None: return
        want = self._from_spec(spec, p['ty'])
        if want is not None and not leq(val, want):
            self.ctx.field_viol.append((self.name, parent_ty, proj[-1]['i'], repr(val), spec))

    # ---------------------------------------------------------------- operands
    def operand(self, st, o):
        if o['o'] == 'const':
            ty = o['ty']['t']
            if 'bits' in o and ty['k'] == 'int':
                v = const_value(o); return mk_int(v, v, ('int', ty['bits'], ty['s']))
            if 'bits' in o and ty['k'] == 'bool':
                return mk_bool({int(int(o['bits']) != 0)})
            if 'bits' in o and ty['k'] == 'float':
                v = const_value(o); return AV('float', v, v, ('float', ty['bits']), nan=(v != v))
            if 'uneval' in o and 'promoted' not in o:
                return AV('top', ty=o['ty']['s'], extra=('item', o['uneval']))
            if 'uneval' in o and 'promoted' in o:
                from .dataflow import const_item_of
                it = const_item_of(self.F, self.body, o)
                if it: return AV('ref', ty=o['ty']['s'], tgt=None, extra=('item', it))
                pn = '%s::%s::promoted[%d]' % (self.crate, o['uneval'], o['promoted'])
                if pn in self.F.bodies:
                    try:
                        from .cprop import Folder
                        v = Folder(self.F).call(pn, [])
                        if v[0] == 'ref' and v[1][0] == 'int':
                            return AV('ref', ty=o['ty']['s'], tgt=None, extra=('constval', mk_int(v[1][1], v[1][1], ('int', v[1][2], v[1][3]))))
                    except Exception:
                        pass
            return top_of(o['ty']['s'])
        return self.read_place(st, o['p'])

    def operand_key(self, st, o):
        if o['o'] in ('copy', 'move'): return self.pkey(st, o['p'])
        return None

    # ---------------------------------------------------------------- rvalues
    def rvalue(self, st, rv, lhs):
        """returns (AV, src_key or None)"""
        k = rv['r']
        if k == 'use':
            v = self.operand(st, rv['a'])
            return v, self.operand_key(st, rv['a'])
        if k == 'bin':
            return self.binop(st, rv['op'], self.operand(st, rv['a']), self.operand(st, rv['b']), lhs), None
        if k == 'un':
            a = self.operand(st, rv['a'])
            op = rv['op']
            if op == 'Not':
                if a.k == 'bool':
                    c = ('not', a.cond) if a.cond else None
                    return mk_bool({1 - x for x in a.vs}, cond=c), None
                if a.k == 'int':
                    tlo, thi = int_range(a.ty[1], a.ty[2])
                    if a.ty[2]: return mk_int(-a.hi - 1, -a.lo - 1, a.ty), None
                    return mk_int(thi - a.hi, thi - a.lo, a.ty), None
            if op == 'Neg':
                if a.k == 'int':
                    lo, hi, ov = clamp_ty(-a.hi, -a.lo, a.ty)
                    return mk_int(lo, hi, a.ty), None
                if a.k == 'float':
                    return AV('float', -a.hi, -a.lo, a.ty, nan=a.nan), None
            if op == 'PtrMetadata':
                return self.len_of_ref(a), None
            return top_of(lhs['ty']), None
        if k == 'cast':
            a = self.operand(st, rv['a'])
            if self.collecting and rv.get('k') == 'IntToInt' and rv['a'].get('o') in ('copy', 'move'):
                # a narrowing / sign-changing integer cast is an obligation of the canonical-form and term readings (they treat `as` as the identity
                # wherever it cannot change the value): record it as a site, discharged when the operand's interval fits the target type
                src = tyinfo(rv['a']['p'].get('ty', '')); dst = tyinfo(rv['to']['s'])
                if src[0] == 'int' and dst[0] == 'int':
                    slo, shi = int_range(src[1], src[2]); dlo, dhi = int_range(dst[1], dst[2])
                    if not (dlo <= slo and shi <= dhi) and not (rv['a']['p'].get('ty') == 'usize' and rv['to']['s'] == 'isize'):
                        ok = a.k == 'int' and dlo <= a.lo and a.hi <= dhi
                        if a.k == 'bool' or a.k == 'enum': ok = True
                        span = getattr(self, '_cur_span', None) or {'file': '?', 'line': 0}
                        self.sites.append(Site(self.name, self._cur_bb, 'cast:%s->%s' % (rv['a']['p'].get('ty'), rv['to']['s']), ok,
                                               None if ok else 'the operand range %s does not fit %s: the cast can change the value' % (a, rv['to']['s']), span, [repr(a)]))
            return self.cast(a, rv), None
        if k in ('ref', 'rawptr'):
            p = rv['p']
            # reborrow `&*x` keeps the identity of x
            if len(p['proj']) >= 1 and p['proj'][-1]['p'] == 'deref':
                base = {'l': p['l'], 'proj': p['proj'][:-1], 'ty': ''}
                bk = self.pkey(st, base)
                bv = st.m.get(bk)
                if bv is not None and bv.k == 'ref':
                    return bv, None
            key = self.pkey(st, p)
            cur = st.m.get(key)
            ex = cur.extra if cur is not None and cur.extra and cur.extra[0] in ('item', 'arrlen', 'slicelen') else None
            if ex is None:
                # length of the referent, when it is an array
                m = re.match(r'^\[.*; (\d+)\]$', p['ty'].strip())
                if m: ex = ('arrlen', int(m.group(1)))
            return AV('ref', ty=lhs['ty'], tgt=key, extra=ex), None
        if k == 'discr':
            key = self.pkey(st, rv['p'])
            v = st.m.get(key)
            if v is None: v = self.default(st, key, rv['p']['ty'], rv['p'])
            if v.k == 'enum':
                return mk_int(min(v.vs), max(v.vs), ('int', 64, True), cond=('discr', key, v.vs)), None
            return mk_int(0, 255, ('int', 64, True), cond=('discr', key, None)), None
        if k == 'agg':
            return AV('top', ty=lhs['ty'], extra=('agg', rv)), None
        if k == 'repeat':
            return AV('top', ty=lhs['ty'], extra=('repeat', rv)), None
        return top_of(lhs['ty']), None

    def len_of_ref(self, a):
        if a.k == 'ref' and a.extra and a.extra[0] == 'arrlen':
            n = a.extra[1]; return mk_int(n, n, ('int', 64, False))
        if a.k == 'ref' and a.extra and a.extra[0] == 'slicelen':
            lo, hi = a.extra[1], a.extra[2]
            return mk_int(lo, hi, ('int', 64, False), sym=('len', a.vid))
        return mk_int(0, MEM_BOUND, ('int', 64, False), sym=('len', a.vid))

    def cast(self, a, rv):
        to = rv['to']; tt = tyinfo(to['s']); kind = rv['k']
        if tt[0] == 'int':
            tlo, thi = int_range(tt[1], tt[2])
            if a.k == 'int':
                if tlo <= a.lo and a.hi <= thi:
                    return AV('int', a.lo, a.hi, tt, sym=a.sym, ubs=a.ubs, lin=a.lin or (a.vid, 0, a.sym))
                return AV('int', tlo, thi, tt)
            if a.k == 'bool':
                return mk_int(min(a.vs), max(a.vs), tt)
            if a.k == 'float':
                lo = tlo if a.lo == -math.inf or a.lo < tlo else int(math.trunc(a.lo)) if a.lo == a.lo else tlo
                hi = thi if a.hi == math.inf or a.hi > thi else int(math.trunc(a.hi)) if a.hi == a.hi else thi
                if a.nan: lo = min(lo, 0); hi = max(hi, 0)
                return mk_int(max(lo, tlo), min(hi, thi), tt)
            if a.k == 'enum':
                return mk_int(min(a.vs), max(a.vs), tt)
            return top_int(tt)
        if tt[0] == 'float':
            if a.k == 'int': return AV('float', float(a.lo), float(a.hi), tt)
            if a.k == 'float': return AV('float', a.lo, a.hi, tt, nan=a.nan)
            return top_of(to['s'])
        if a.k == 'ref':
            # unsizing &[T; N] -> &[T]: remember the length
            if a.extra is None and rv['a']['o'] in ('copy', 'move'):
                m = re.match(r'^&(?:mut )?\[.*; (\d+)\]$', rv['a']['p']['ty'].strip())
                if m: return a.clone(extra=('arrlen', int(m.group(1))))
            return a
        return top_of(to['s']) if tt[0] != 'other' else (a if a.k in ('ref', 'top') else AV('top', ty=to['s']))

    def binop(self, st, op, a, b, lhs):
        base = op.replace('WithOverflow', '').replace('Unchecked', '')
        if base in ('Eq', 'Ne', 'Lt', 'Le', 'Gt', 'Ge'):
            return mk_bool(cmp_eval(base, a, b), cond=('cmp', base, a, b))
        if a.k == 'bool' and b.k == 'bool':
            if base == 'BitAnd': return mk_bool({x & y for x in a.vs for y in b.vs}, cond=('and', a, b))
            if base == 'BitOr': return mk_bool({x | y for x in a.vs for y in b.vs}, cond=('or', a, b))
            if base == 'BitXor': return mk_bool({x ^ y for x in a.vs for y in b.vs})
        if a.k == 'int' and b.k == 'int':
            r = arith(base, a, b, a.ty)
            ty = a.ty
            # x - (x / k) * k : the subtrahend is a multiple of k not above x (recorded as the bound ('vidp1', vid of x): value < x + 1)
            if r is not None and base == 'Sub' and a.vid is not None and ('vidp1', a.vid) in b.ubs and a.lo >= 0:
                r = (max(r[0], 0), r[1])
            if r is None:
                res = top_int(ty); math_r = None
            else:
                lo, hi, ov = clamp_ty(r[0], r[1], ty)
                checked = op.endswith('WithOverflow')
                if checked and ov:
                    # the `.0` of a checked operation is only used after `assert(!.1)`: on that path the mathematical result is in range
                    tlo_, thi_ = int_range(ty[1], ty[2])
                    lo, hi = max(r[0], tlo_), min(r[1], thi_)
                    if lo > hi: lo, hi = tlo_, thi_
                    ov = False
                res = mk_int(lo, hi, ty); math_r = r
                if base == 'Mul' and a.lo >= 0 and b.lo >= 0: res.extra = ('mul', a.vid, b.vid, a.lo if a.lo == a.hi else None, b.lo if b.lo == b.hi else None)
                if base == 'Mul' and not ov:
                    for p_, q_ in ((a, b), (b, a)):
                        dv = getattr(p_, 'divof', None)
                        if dv is not None and q_.lo == q_.hi == dv[1]: res.ubs = frozenset(set(res.ubs) | {('vidp1', dv[0])})
                if base == 'Div' and b.lo == b.hi and b.lo >= 1 and a.lo >= 0 and a.vid is not None: res.divof = (a.vid, b.lo)
                if base == 'Rem' and a.lo >= 0 and b.lo >= 0: res.extra = ('rem', a.vid)
                if not ov:
                    if base == 'Add' and b.lo == b.hi: res.lin = _lin(a, b.lo)
                    elif base == 'Add' and a.lo == a.hi: res.lin = _lin(b, a.lo)
                    elif base == 'Sub' and b.lo == b.hi: res.lin = _lin(a, -b.lo)
                    if base == 'Sub' and b.lo >= 0: res.ubs = frozenset(set(a.ubs) | ({a.sym} if a.sym and b.lo > 0 else set()))
                    if base == 'Rem' and b.lo > 0:
                        res.ubs = frozenset({('vid', b.vid)} | ({b.sym} if b.sym else set()))
                    if base == 'Div' and b.lo >= 1 and a.lo >= 0: res.ubs = frozenset(a.ubs)
                    if base == 'Shr' and a.lo >= 0: res.ubs = frozenset(a.ubs)
                    if base == 'BitAnd' and a.lo >= 0 and b.lo >= 0: res.ubs = frozenset(set(a.ubs) | set(b.ubs))
            if op.endswith('WithOverflow'):
                tlo, thi = int_range(ty[1], ty[2])
                may = math_r is None or math_r[0] < tlo or math_r[1] > thi
                return AV('top', ty=lhs['ty'], extra=('checked', res, mk_bool({0, 1} if may else {0}, cond=('ovf', math_r, (tlo, thi)))))
            return res
        if a.k == 'float' and b.k == 'float':
            return self.float_op(base, a, b)
        if a.k == 'int' and b.k != 'int' or b.k == 'int' and a.k != 'int':
            t = a.ty if a.k == 'int' else b.ty
            res = top_int(t)
            if op.endswith('WithOverflow'):
                return AV('top', ty=lhs['ty'], extra=('checked', res, mk_bool({0, 1}, cond=('ovf', None, int_range(t[1], t[2])))))
            return res
        return top_of(lhs['ty'])

    def float_op(self, op, a, b):
        nan = a.nan or b.nan
        try:
            if op == 'Add': lo, hi = a.lo + b.lo, a.hi + b.hi
            elif op == 'Sub': lo, hi = a.lo - b.hi, a.hi - b.lo
            elif op == 'Mul':
                c = [x * y for x in (a.lo, a.hi) for y in (b.lo, b.hi)]
                c = [x for x in c if x == x] or [-math.inf, math.inf]
                lo, hi = min(c), max(c)
            elif op == 'Div':
                if b.lo <= 0 <= b.hi: lo, hi, nan = -math.inf, math.inf, True
                else:
                    c = [x / y for x in (a.lo, a.hi) for y in (b.lo, b.hi)]
                    c = [x for x in c if x == x] or [-math.inf, math.inf]
                    lo, hi = min(c), max(c)
            else: lo, hi, nan = -math.inf, math.inf, True
        except (OverflowError, ZeroDivisionError):
            lo, hi, nan = -math.inf, math.inf, True
        if lo != lo or hi != hi: lo, hi, nan = -math.inf, math.inf, True
        if math.isinf(a.lo) or math.isinf(a.hi) or math.isinf(b.lo) or math.isinf(b.hi): nan = nan or op in ('Sub', 'Add', 'Mul', 'Div')
        # outward rounding slack for f32
        eps = 1e-6
        return AV('float', lo - abs(lo) * eps if math.isfinite(lo) else lo, hi + abs(hi) * eps if math.isfinite(hi) else hi, a.ty, nan=nan)

    # ---------------------------------------------------------------- statements
    def assign(self, st, s):
        lhs = s['lhs']; rv = s['rv']
        val, src_key = self.rvalue(st, rv, lhs)
        if val.extra and isinstance(val.extra, tuple) and val.extra[0] == 'checked':
            key = self.pkey(st, lhs)
            st.set(key, AV('top', ty=lhs['ty']))
            st.m[(key[0], key[1] + (0,))] = val.extra[1]
            st.m[(key[0], key[1] + (1,))] = val.extra[2]
            return
        if val.extra and isinstance(val.extra, tuple) and val.extra[0] == 'agg':
            self.aggregate(st, lhs, val.extra[1]); return
        if val.extra and isinstance(val.extra, tuple) and val.extra[0] == 'repeat':
            key = self.pkey(st, lhs)
            st.set(key, AV('top', ty=lhs['ty']))
            st.m[(key[0], key[1] + ('[]',))] = self.operand(st, val.extra[1]['a'])
            return
        if rv['r'] == 'use' and rv['a']['o'] == 'move' and src_key is not None and src_key == self.pkey(st, lhs):
            return
        self.write_place(st, lhs, val, src_key if rv['r'] == 'use' else None)
        if val.k == 'top' and val.extra and val.extra[0] == 'item' and len(val.extra) == 2:
            self._expand_item(st, self.pkey(st, lhs), val.extra[1])

    def _expand_item(self, st, key, item):
        """a small constant struct/tuple: write its scalar leaves into the state (so they survive joins)"""
        from . import tables
        try:
            v = tables.fold_const(self.F, self.crate + '::' + item)
        except Exception:
            return
        def walk(x, path, depth):
            if depth > 3: return
            if x[0] == 'int': st.m[(key[0], key[1] + path)] = mk_int(x[1], x[1], ('int', x[2], x[3]))
            elif x[0] == 'bool': st.m[(key[0], key[1] + path)] = mk_bool({int(x[1])})
            elif x[0] in ('tuple', 'struct'):
                for i, f in enumerate(x[1]): walk(f, path + (i,), depth + 1)
            elif x[0] == 'enum':
                adt = self.F.adts.get(self.crate + '::' + x[1])
                if adt and adt['kind'] == 'struct':
                    for i, f in enumerate(x[3]): walk(f, path + (i,), depth + 1)
        if v[0] in ('tuple', 'struct', 'enum'):
            walk(v, (), 0)

    def aggregate(self, st, lhs, rv):
        kd = rv['kind']; key = self.pkey(st, lhs)
        ops = [(self.operand(st, o), self.operand_key(st, o)) for o in rv['ops']]
        if kd['a'] == 'adt':
            adt = self.F.adts.get(self.crate + '::' + kd['path'])
            is_enum = (adt and adt['kind'] == 'enum') or kd['path'] in ('std::option::Option', 'std::result::Result', 'std::ops::ControlFlow')
            if is_enum:
                st.set(key, AV('enum', ty=lhs['ty'], vs=frozenset({kd['variant']})))
                pre = key[1] + (('v', kd['variant']),)
            else:
                st.set(key, AV('top', ty=lhs['ty'], extra=('adt', kd['path'])))
                pre = key[1]
            for i, (v, sk) in enumerate(ops):
                fk = (key[0], pre + (i,))
                st.m[fk] = v
                if sk is not None:
                    for k2 in st.subkeys(sk):
                        st.m[(fk[0], fk[1] + k2[1][len(sk[1]):])] = st.m[k2]
                # field contracts are checked where values are produced
                if self.collecting and not is_enum:
                    spec = self.ctx.contracts.get('fields', {}).get(kd['path'], {}).get(str(i))
                    if spec:
                        want = self._from_spec(spec, None)
                        if want is not None and v.k == 'int' and not (want.lo <= v.lo and v.hi <= want.hi):
                            self.ctx.field_viol.append((self.name, kd['path'], i, repr(v), spec))
            return
        st.set(key, AV('top', ty=lhs['ty'], extra=('arrlen', len(ops)) if kd['a'] == 'array' else None))
        if kd['a'] == 'closure' and self.collecting:
            cn = self.crate + '::' + kd['path']
            env = {}
            for i, (v, sk) in enumerate(ops):
                if v.k in ('int', 'bool', 'enum', 'float'):
                    env[(i,)] = v
                elif v.k == 'ref' and v.tgt is not None:
                    # captured by reference: the referent cannot change while the closure holds a shared borrow;
                    # for a unique borrow only the closure itself changes it, so only shared captures are propagated
                    is_shared = rv['ops'][i]['o'] in ('copy', 'move') and rv['ops'][i]['p'].get('ty', '').startswith('&') and not rv['ops'][i]['p'].get('ty', '').startswith('&mut')
                    tv = st.m.get(v.tgt)
                    if is_shared and tv is not None and tv.k in ('int', 'bool', 'enum', 'float'):
                        env[(i, '*')] = tv
                    if is_shared:
                        for k2 in st.subkeys(v.tgt):
                            if st.m[k2].k in ('int', 'bool', 'enum', 'float'):
                                env[(i, '*') + k2[1][len(v.tgt[1]):]] = st.m[k2]
            old = self.ctx.closure_env_next.get(cn)
            if old is None: self.ctx.closure_env_next[cn] = env
            else: self.ctx.closure_env_next[cn] = {p: join(old[p], env[p]) for p in old if p in env}
        if kd['a'] == 'array':
            ev = None
            for v, sk in ops: ev = join(ev, v) if ev is not None else v
            if ev is not None: st.m[(key[0], key[1] + ('[]',))] = ev
            return
        for i, (v, sk) in enumerate(ops):
            fk = (key[0], key[1] + (i,))
            st.m[fk] = v
            if sk is not None:
                for k2 in st.subkeys(sk):
                    st.m[(fk[0], fk[1] + k2[1][len(sk[1]):])] = st.m[k2]

    # ---------------------------------------------------------------- branch refinement
    def refine_bool(self, st, bv, truth):
        """refine state `st` (in place) knowing that bool value bv is `truth`; returns False if infeasible"""
        if bv.k != 'bool': return True
        if int(truth) not in bv.vs: return False
        st.refine_vid(bv.vid, lambda v: mk_bool({int(truth)}, cond=v.cond, vid=v.vid) if v.k == 'bool' else None)
        c = bv.cond
        if c is None: return True
        return self._refine_cond(st, c, truth)

    def _refine_cond(self, st, c, truth):
        if c[0] == 'not':
            return self._refine_cond(st, c[1], not truth) if c[1] else True
        if c[0] == 'cmp':
            _, op, a, b = c
            # use the *current* versions of a and b (they may have been refined since)
            a = self._current(st, a); b = self._current(st, b)
            na, nb = refine_cmp(op, a, b, truth)
            if na is None or nb is None: return False
            if na is not a: st.refine_vid(a.vid, lambda v, na=na: _merge_refined(v, na))
            if nb is not b: st.refine_vid(b.vid, lambda v, nb=nb: _merge_refined(v, nb))
            for v, nv in ((a, na), (b, nb)):
                if v.k == 'int' and nv.lo >= 1 and v.extra and v.extra[0] in ('mul', 'rem'):
                    # a product of non-negative factors is >= 1 only if both are; x % m >= 1 only if x >= 1
                    for fv in v.extra[1:3]:
                        st.refine_vid(fv, lambda w: w.clone(lo=max(w.lo, 1)) if w.k == 'int' and w.hi >= 1 else None)
            # propagate through `x = y + c` links: refine the base value as well
            for v, nv in ((a, na), (b, nb)):
                if v.k == 'int' and v.lin and nv is not v:
                    base_vid, off = v.lin[0], v.lin[1]
                    st.refine_vid(base_vid, lambda w, nv=nv, off=off: _merge_refined(w, w.clone(lo=max(w.lo, nv.lo - off), hi=min(w.hi, nv.hi - off))) if w.k == 'int' and max(w.lo, nv.lo - off) <= min(w.hi, nv.hi - off) else None)
            return True
        if c[0] == 'and':
            if truth:
                return self.refine_bool(st, c[1], True) and self.refine_bool(st, c[2], True)
            return True
        if c[0] == 'or':
            if not truth:
                return self.refine_bool(st, c[1], False) and self.refine_bool(st, c[2], False)
            return True
        if c[0] in ('isnone', 'issome', 'iserr', 'isok'):
            key = c[1]
            variant_if_true = {'isnone': 0, 'issome': 1, 'iserr': 1, 'isok': 0}[c[0]]
            want = variant_if_true if truth else 1 - variant_if_true
            cur = st.m.get(key)
            vs = cur.vs if cur is not None and cur.k == 'enum' else frozenset({0, 1})
            if want not in vs: return False
            st.m[key] = AV('enum', ty=cur.ty if cur else None, vs=frozenset({want}))
            return True
        if c[0] == 'model':
            return c[1](self, st, truth)
        return True

    def _current(self, st, v):
        for w in st.m.values():
            if w.vid == v.vid: return w
        return v

    def switch_edges(self, st, t):
        """yield (target, refined state or None)"""
        on = t['on']
        v = self.operand(st, on)
        arms = [(int(a), to) for a, to in t['arms']]
        out = []
        targets = []
        for _, to in arms:
            if to not in targets: targets.append(to)
        if t['otherwise'] not in targets: targets.append(t['otherwise'])
        for tgt in targets:
            vals = [a for a, to in arms if to == tgt]
            is_other = (tgt == t['otherwise'])
            if tgt not in self.g.succ[self._cur_bb]:
                continue
            res = None
            cases = list(vals)
            if is_other: cases.append(None)
            for cv in cases:
                s2 = st.copy()
                ok = self._refine_switch(s2, v, cv, [a for a, _ in arms])
                if ok:
                    res = s2 if res is None else join_states(res, s2)
            out.append((tgt, res))
        return out

    def _refine_switch(self, st, v, cv, all_vals):
        """cv: the matched value, or None for `otherwise`"""
        if v.k == 'bool':
            if cv is None:
                rest = v.vs - set(all_vals)
                if not rest: return False
                if len(rest) == 1: return self.refine_bool(st, v, bool(list(rest)[0]))
                return True
            return self.refine_bool(st, v, bool(cv))
        if v.k == 'int':
            c = v.cond
            if c and c[0] == 'discr':
                key = c[1]
                cur = st.m.get(key)
                vs = cur.vs if cur is not None and cur.k == 'enum' else (c[2] if c[2] is not None else None)
                if cv is None:
                    if vs is not None:
                        rest = frozenset(vs) - set(all_vals)
                        if not rest: return False
                        st.m[key] = AV('enum', ty=cur.ty if cur is not None else None, vs=rest)
                    return True
                if vs is not None and cv not in vs: return False
                st.m[key] = AV('enum', ty=cur.ty if cur is not None else None, vs=frozenset({cv}))
                if cur is not None and cur.extra and cur.extra[0] == 'ordcmp' and cur.extra[1] is not None and cur.extra[2] is not None:
                    op = {1: 'Gt', 255: 'Lt', 0: 'Eq'}.get(cv)
                    if op:
                        return self._refine_cond(st, ('cmp', op, cur.extra[1], cur.extra[2]), True)
                return True
            sv = cv
            if sv is not None and v.ty and v.ty[2] and sv >= (1 << (v.ty[1] - 1)): sv -= (1 << v.ty[1])
            if sv is None:
                lo, hi = v.lo, v.hi
                avs = set()
                for a in all_vals:
                    if v.ty and v.ty[2] and a >= (1 << (v.ty[1] - 1)): a -= (1 << v.ty[1])
                    avs.add(a)
                while lo in avs and lo <= hi: lo += 1
                while hi in avs and hi >= lo: hi -= 1
                if lo > hi: return False
                if (lo, hi) != (v.lo, v.hi):
                    st.refine_vid(v.vid, lambda w: w.clone(lo=max(w.lo, lo), hi=min(w.hi, hi)) if w.k == 'int' else None)
                return True
            if not (v.lo <= sv <= v.hi): return False
            st.refine_vid(v.vid, lambda w: w.clone(lo=sv, hi=sv) if w.k == 'int' else None)
            if v.lin:
                st.refine_vid(v.lin[0], lambda w: w.clone(lo=sv - v.lin[1], hi=sv - v.lin[1]) if w.k == 'int' and w.lo <= sv - v.lin[1] <= w.hi else None)
            return True
        if v.k == 'enum':
            if cv is None:
                rest = v.vs - set(all_vals)
                return bool(rest)
            return cv in v.vs
        return True

    # ---------------------------------------------------------------- fixpoint
    def run(self):
        """Chaotic iteration in reverse post-order.  Out-states are kept per CFG edge; the in-state of a block is the join of
        its incoming edge states (so identities created in a predecessor survive on straight-line edges); only loop headers
        accumulate (join with their previous in-state, widening after two visits).  Two narrowing sweeps follow."""
        g = self.g
        rpo = g.rpo()
        heads = set(g.loops().keys())
        ins = {0: self.initial()}
        edge = {}
        visits = {}
        inv = self._loop_invariant_locals()

        def incoming(bb):
            ss = [edge[(p, bb)] for p in g.pred[bb] if (p, bb) in edge and edge[(p, bb)] is not None]
            if not ss: return None
            cur = ss[0]
            for s2 in ss[1:]:
                cur = join_states(cur, s2)
            return cur if len(ss) > 1 else cur.copy()

        def sweep(mode):
            changed = False
            for bb in rpo:
                if bb != 0:
                    new_in = incoming(bb)
                    if new_in is None:
                        if bb not in ins: continue
                    else:
                        old = ins.get(bb)
                        if bb in heads:
                            # locals that are never assigned (nor mutably borrowed) inside the loop have, on every back edge,
                            # the value they had on entry: take it from the entry edges only
                            loop = g.loops()[bb]
                            ent = [edge[(p, bb)] for p in g.pred[bb] if p not in loop and edge.get((p, bb)) is not None]
                            if ent:
                                e0 = ent[0]
                                for e1 in ent[1:]: e0 = join_states(e0, e1)
                                keep = inv[bb]
                                for k in [k for k in new_in.m if k[0] in keep]:
                                    del new_in.m[k]
                                for k, v in e0.m.items():
                                    if k[0] in keep: new_in.m[k] = v
                                if old is not None:
                                    old = State({k: v for k, v in old.m.items() if k[0] not in keep})
                                    for k, v in e0.m.items():
                                        if k[0] in keep: old.m[k] = v
                        if bb in heads and old is not None:
                            if mode == 'widen':
                                visits[bb] = visits.get(bb, 0) + 1
                                new_in = join_states(old, new_in, widen=visits[bb] > 2, thresholds=self.thresholds)
                            else:
                                # narrowing: keep the new (smaller) description where it is below the old one
                                if not state_leq(new_in, old):
                                    new_in = self._meet_keep(old, new_in)
                        # only loop headers accumulate; every other block is a function of its predecessors, so the
                        # iteration has converged when the headers are stable (one more sweep propagates)
                        if bb in heads and (old is None or not (state_leq(new_in, old) and state_leq(old, new_in))):
                            changed = True
                        ins[bb] = new_in
                if bb not in ins: continue
                outs = self.transfer(bb, ins[bb].copy())
                seen = set()
                for tgt, s2 in outs:
                    if tgt in seen and edge.get((bb, tgt)) is not None and s2 is not None:
                        edge[(bb, tgt)] = join_states(edge[(bb, tgt)], s2)
                    else:
                        edge[(bb, tgt)] = s2
                    seen.add(tgt)
                for tgt in g.succ[bb]:
                    if tgt not in seen: edge[(bb, tgt)] = None
            return changed
        it = 0
        while sweep('widen'):
            it += 1
            if it > self.MAX_ITERS: break
        if heads: sweep('widen')
        self.iterations = it
        for _ in range(2):
            sweep('narrow')
        self.in_states = ins
        # final pass: collect sites and the return summary
        self.collecting = True
        self.sites = []
        ret = None
        for bb in rpo:
            if bb not in ins: continue
            st = ins[bb].copy()
            self.transfer(bb, st)
            if self.blocks[bb]['term']['t'] == 'return':
                sub = {k[1]: v for k, v in st.m.items() if k[0] == 0}
                if ret is None: ret = sub
                else:
                    A_ = {(0, p): v for p, v in ret.items()}; B_ = {(0, p): v for p, v in sub.items()}
                    ret = {k[1]: v for k, v in join_states(State(A_), State(B_)).m.items()}
        self.collecting = False
        self.returns = ret or {}
        return self

    def _loop_invariant_locals(self):
        """per loop header: locals not assigned, not the destination of a call, not mutably borrowed and not written through
        by any callee inside the loop"""
        g = self.g
        nloc = len(self.body['locals'])
        borrowed = set()
        for bb in g.reach:
            for s_ in self.blocks[bb]['stmts']:
                if s_['s'] == 'assign' and s_['rv']['r'] in ('ref', 'rawptr') and ('Mut' in s_['rv'].get('bk', 'Mut') or s_['rv']['r'] == 'rawptr'):
                    borrowed.add(s_['rv']['p']['l'])
        out = {}
        for h, loop in g.loops().items():
            mod = set(borrowed)
            for bb in loop:
                for s_ in self.blocks[bb]['stmts']:
                    if s_['s'] == 'assign': mod.add(s_['lhs']['l'])
                    elif s_['s'] == 'setdiscr': mod.add(s_['p']['l'])
                t = self.blocks[bb]['term']
                if t['t'] == 'call': mod.add(t['dest']['l'])
                if t['t'] == 'drop': mod.add(t['p']['l'])
                for e in self.eff_at.get(bb, []):
                    if e.loc[0][0] in ('local', 'param'): mod.add(e.loc[0][1])
            # references held in unmodified locals may still point to modified memory: only value-typed locals qualify
            keep = set()
            for l in range(nloc):
                if l in mod: continue
                k = self.body['locals'][l]['t']['k']
                if k in ('int', 'bool', 'float', 'tuple', 'array', 'adt', 'closure', 'other'):
                    if '&' in self.body['locals'][l]['s'] and k != 'int': continue
                    keep.add(l)
            out[h] = keep
        return out

    def _meet_keep(self, old, new):
        """both describe the same concrete states soundly: per place take the new value where it is below the old one"""
        byvid = {}
        for k, ov in old.m.items():
            nv = new.m.get(k)
            byvid.setdefault(ov.vid, []).append(nv if (nv is not None and leq(nv, ov)) else None)
        m2 = dict(old.m)
        for k, ov in old.m.items():
            cands = byvid[ov.vid]
            if all(c is not None for c in cands) and len({c.vid for c in cands}) == 1:
                m2[k] = new.m[k]
        return State(m2)

    # ---------------------------------------------------------------- transfer of one block
    def transfer(self, bb, st):
        self._cur_bb = bb
        blk = self.blocks[bb]
        for s in blk['stmts']:
            if s['s'] == 'assign':
                self._cur_span = s.get('span')
                self.assign(st, s)
            elif s['s'] == 'setdiscr':
                key = self.pkey(st, s['p'])
                st.set(key, AV('enum', vs=frozenset({s['v']})))
        t = blk['term']; k = t['t']
        if k == 'goto': return [(t['to'], st)]
        if k == 'return' or k == 'unreachable': return []
        if k == 'drop':
            return [(t['to'], st)]
        if k == 'switch':
            if len(self.g.succ[bb]) == 1 and (t['on']['o'] == 'const'):
                return [(self.g.succ[bb][0], st)]
            return self.switch_edges(st, t)
        if k == 'assert':
            c = self.operand(st, t['cond'])
            exp = bool(t['expected'])
            ok = (c.k == 'bool' and c.vs == frozenset({int(exp)}))
            if self.collecting:
                self.sites.append(Site(self.name, bb, 'assert:' + t['kind'], ok, None, t['span'], [repr(self.operand(st, o)) for o in t['ops']]))
            feasible = self.refine_bool(st, c, exp) if c.k == 'bool' else True
            # after an overflow assert the checked result is within the type (already clamped)
            return [(t['to'], st if feasible else None)]
        if k == 'call':
            return self.call(bb, t, st)
        return [(x, st) for x in self.g.succ[bb]]

    # ---------------------------------------------------------------- calls
    def call(self, bb, t, st):
        F = self.F
        args = [self.operand(st, a) for a in t['args']]
        akeys = [self.operand_key(st, a) for a in t['args']]
        callee = F.local_callee(self.crate, t)
        ename = F.callee_name(t)
        dest = t['dest']
        # ---- havoc what the call may write (caller-side effect list: callee summaries, closures, conservative externals)
        pre = st
        model = self.ctx.models.lookup(ename) if not callee else None
        if not (model and model.get('nohavoc')):
            for e in self.eff_at.get(bb, []):
                self._havoc(st, e.loc)
        result = None; payload = None
        if callee:
            self._check_param_contracts(bb, callee, args, t, st, akeys)
            summ = self.ctx.summaries.get(callee)
            dkey = self.pkey(st, dest)
            st.set(dkey, top_of(dest['ty']))
            rc = self.ctx.contracts.get('returns', {}).get(callee)
            if callee.split('::')[-1] in ('with_transaction', 'with_transaction_union', 'with_lookahead') and t['f'].get('closures'):
                # these wrappers return what the closure returned, or Err from a failed rollback (established by rule T4 of C05)
                cs = self.ctx.summaries.get(self.crate + '::' + t['f']['closures'][0])
                if cs:
                    summ = dict(cs)
                    if () in summ and summ[()].k == 'enum': summ[()] = AV('enum', vs=frozenset(set(summ[()].vs) | {1}))
            if summ:
                for p, v in summ.items():
                    st.m[(dkey[0], dkey[1] + p)] = v.clone(vid=None) if v.k != 'ref' else AV('ref', ty=v.ty, tgt=None, extra=v.extra)
            if rc:
                for pk, spec in rc.items():
                    key = _contract_key('0' + ('.' + pk if pk else ''))
                    av = self._from_spec(spec, None)
                    if av is not None:
                        ty = tyinfo(spec.get('ty', '')) if spec.get('ty') else None
                        if ty and ty[0] == 'int': av.ty = ty
                        st.m[(dkey[0], dkey[1] + key[1])] = av
            ar = self.ctx.contracts.get('assumed_returns', {}).get(callee)
            if ar:
                pk = (dkey[0], dkey[1] + (('v', 0), 0))
                tt = tyinfo(self._result_payload_ty(t))
                if 'ok_payload_bits_of_param' in ar:
                    n = args[ar['ok_payload_bits_of_param'] - 1]
                    if n.k == 'int' and n.hi <= 64:
                        if ar.get('signed'):
                            lo, hi = (-(1 << (n.hi - 1)), (1 << (n.hi - 1)) - 1) if n.hi >= 1 else (0, 0)
                        else:
                            lo, hi = 0, (1 << n.hi) - 1
                        if tt[0] == 'int':
                            tlo, thi = int_range(tt[1], tt[2])
                            if not tt[2] and ar.get('signed'):
                                lo, hi = tlo, thi      # sign-extended into an unsigned type: all bit patterns
                            st.m[pk] = mk_int(max(lo, tlo), min(hi, thi), tt)
                        else:
                            st.m[pk] = mk_int(lo, hi, ('int', 64, True))
                elif 'ok_payload_range' in ar:
                    st.m[pk] = mk_int(ar['ok_payload_range'][0], ar['ok_payload_range'][1], tt if tt[0] == 'int' else ('int', 64, True))
            if t['to'] is None: return []
            return [(t['to'], st)]
        # ---- external callee
        if model is None:
            self.ctx.unknown_externs.setdefault(ename, []).append((self.name, bb))
            if self.collecting:
                self.sites.append(Site(self.name, bb, 'call:unmodelled:' + ename, False, 'external callee without a model', t['span'], [repr(a) for a in args]))
            dkey = self.pkey(st, dest); st.set(dkey, top_of(dest['ty']))
            return [(t['to'], st)] if t['to'] is not None else []
        if model.get('panics'):
            pre_ok, why = model['panics'](self, st, args, akeys, t)
            if self.collecting:
                self.sites.append(Site(self.name, bb, 'call:' + model['name'], pre_ok, why, t['span'], [repr(a) for a in args]))
        if model.get('diverges'):
            return []
        dkey = self.pkey(st, dest)
        st.set(dkey, top_of(dest['ty']))
        if model.get('value'):
            model['value'](self, st, args, akeys, t, dkey)
        if t['to'] is None: return []
        return [(t['to'], st)]

    def _result_payload_ty(self, t):
        """T of a call returning Result<T, E>"""
        s_ = t['dest']['ty']
        m = re.match(r'^std::result::Result<(.*), [^,]*>$', s_)
        return m.group(1) if m else ''

    def _havoc(self, st, loc):
        root, path = loc
        if root[0] not in ('local', 'param'): return
        l = root[1]
        epath = tuple(x for x in path if x != '*')
        wild = bool(path) and path[-1] == '*'
        for k in [k for k in st.m if k[0] == l]:
            kp = tuple(x for x in k[1] if x != '*' and not (isinstance(x, tuple) and x[0] == 'v'))
            kp_f = tuple(x for x in kp if x != '[]')
            n = min(len(kp_f), len(epath))
            if kp_f[:n] == epath[:n]:
                if len(kp_f) >= len(epath) or True:
                    # the written location is at, below or above this key
                    if len(k[1]) == 0 and st.m[k].k == 'ref':
                        continue      # the reference itself is not changed by writing through it
                    del st.m[k]
        # symbolic lengths of vectors rooted here are no longer valid
        for k, v in list(st.m.items()):
            if v.k == 'int' and (v.sym and v.sym[0] == 'veclen' and v.sym[1][0] == l or any(u[0] == 'veclen' and u[1][0] == l for u in v.ubs if isinstance(u, tuple) and len(u) > 1 and isinstance(u[1], tuple))):
                nv = v.clone(vid=None); 
                if v.sym and v.sym[0] == 'veclen' and v.sym[1][0] == l: nv.sym = None
                nv.ubs = frozenset(u for u in v.ubs if not (isinstance(u, tuple) and u[0] == 'veclen' and u[1][0] == l))
                st.m[k] = nv

    def _check_param_contracts(self, bb, callee, args, t, st=None, akeys=None):
        con = self.ctx.contracts.get('params', {}).get(callee)
        if self.collecting:
            obs = self.ctx.param_obs.setdefault(callee, {})
            for i, a in enumerate(args):
                obs[i + 1] = join(obs[i + 1], a) if (i + 1) in obs else a
        if not con or not self.collecting: return
        env = self.ctx.closure_env.get(self.name, {})
        for path, av in env.items():
            st.m[(1, path)] = av.clone(vid=None)
        for pk, spec in con.items():
            key = _contract_key(pk)
            i = key[0] - 1
            if i >= len(args): continue
            if 'len' in spec:
                if key[1]: continue
                lo, hi, sym = self.ctx.models.slice_len(self, st, args[i])
                ok = spec['len'][0] <= lo and hi <= spec['len'][1]
                self.sites.append(Site(self.name, bb, 'contract:%s:param%d' % (callee.split('::', 1)[1], key[0]), ok,
                                       'slice argument of length [%s,%s] must have length in %s (%s)' % (lo, hi, spec['len'], spec.get('why', '')), t['span'], [repr(args[i])]))
                continue
            want = self._from_spec(spec, None)
            a = args[i]
            if key[1]:
                if '*' in key[1]: continue      # assumptions on a pointee: checked by field contracts where it is produced
                a = None
                if akeys and akeys[i] is not None and st is not None:
                    a = st.m.get((akeys[i][0], akeys[i][1] + key[1]))
                    if a is None:
                        # the argument is a constant item or an untracked place
                        base = st.m.get(akeys[i])
                        if base is not None and base.extra and base.extra[0] == 'item':
                            a = self.ctx.models.item_hull(self.F, self.crate, base.extra[1], tuple(base.extra[2] if len(base.extra) > 2 else ()) + key[1], spec.get('ty', 'i64'))
                if a is None and args[i].extra and args[i].extra[0] == 'item':
                    a = self.ctx.models.item_hull(self.F, self.crate, args[i].extra[1], tuple(args[i].extra[2] if len(args[i].extra) > 2 else ()) + key[1], spec.get('ty', 'i64'))
                if a is None: a = AV('top')
            ok = False
            if want is not None and want.k == 'int' and a.k == 'int': ok = want.lo <= a.lo and a.hi <= want.hi
            elif want is not None and want.k == 'bool' and a.k == 'bool': ok = a.vs <= want.vs
            self.sites.append(Site(self.name, bb, 'contract:%s:param%d' % (callee.split('::', 1)[1], key[0]), ok,
                                   'argument %r must satisfy %s (%s)' % (a, spec.get('range', spec), spec.get('why', '')), t['span'], [repr(a)]))


def _merge_refined(old, new):
    if old.k != new.k: return None
    if old.k == 'int':
        lo = max(old.lo, new.lo); hi = min(old.hi, new.hi)
        if lo > hi: return old
        return old.clone(lo=lo, hi=hi, ubs=frozenset(set(old.ubs) | set(new.ubs)), sym=old.sym or new.sym)
    return new


def _lin(a, c):
    if a.lin: return (a.lin[0], a.lin[1] + c) + tuple(a.lin[2:])
    return (a.vid, c, a.sym)


def _rv_ops(rv):
    k = rv['r']
    if k in ('use', 'cast', 'un', 'repeat'): return [rv['a']]
    if k == 'bin': return [rv['a'], rv['b']]
    if k == 'agg': return rv['ops']
    return []


def _contract_key(pk):
    """'2' -> (2, ()) ; '1.0' -> (1, (0,)) ; '1.*.2' -> (1, ('*', 2)) ; 'v1.0' downcast"""
    parts = str(pk).split('.')
    l = int(parts[0]); path = []
    for x in parts[1:]:
        if x == '*': path.append('*')
        elif x == '[]': path.append('[]')
        elif x.startswith('v'): path.append(('v', int(x[1:])))
        else: path.append(int(x))
    return (l, tuple(path))
