"""Canonical local names.

The rules anchor on the names the reviewed tree gives to parameters, locals and captured variables (`zigzag_index`, `motion_vectors`, `y_width`, ...).
Renaming a variable does not change behaviour, so before any rule runs the debug names of every function that exists in the reviewed tree
(tables/known_locals.json) are mapped back to the reviewed names:
  * parameters and captured variables by position;
  * named locals positionally when the sequence of their types is the one of the reviewed tree (a pure rename), otherwise: identical (name, type)
    pairs first, then the remaining ones positionally inside each type when the counts agree; anything else keeps its own name (and a rule that
    needs it will say so - fail closed).
Only names change; no statement, type or index of the MIR facts is touched.  What was renamed is recorded in Facts.renamed (evidence)."""
import json, os
from collections import defaultdict

VERIF = os.path.dirname(os.path.dirname(os.path.abspath(__file__)))


def _table():
    p = os.path.join(VERIF, 'tables', 'known_locals.json')
    if not os.path.exists(p): return None
    return json.load(open(p))['functions']


def apply(F):
    F.renamed = []
    tab = _table()
    if tab is None: return
    for name, b in F.bodies.items():
        k = tab.get(name)
        if k is None: continue
        dbg = b.get('debug') or {}
        argc = b.get('argc', 0)
        cur = sorted((int(i), n, b['locals'][int(i)]['s']) for i, n in dbg.items() if int(i) < len(b['locals']))
        known = [(i, n, t) for i, n, t in k['locals']]
        new = {}
        # parameters: by position
        kp = {i: (n, t) for i, n, t in known if i <= k.get('argc', 0)}
        for i, n, t in cur:
            if i <= argc and i in kp and argc == k.get('argc', 0): new[i] = kp[i][0]
        cl = [(i, n, t) for i, n, t in cur if i > argc]
        kl = [(i, n, t) for i, n, t in known if i > k.get('argc', 0)]
        if [t for _, _, t in cl] == [t for _, _, t in kl]:
            for (i, n, t), (_, kn, _) in zip(cl, kl): new[i] = kn
        else:
            used_k = set(); left = []
            # identical (name, type) pairs, in order
            pool = defaultdict(list)
            for j, (_, kn, kt) in enumerate(kl): pool[(kn, kt)].append(j)
            for i, n, t in cl:
                if pool.get((n, t)):
                    used_k.add(pool[(n, t)].pop(0)); new[i] = n
                else: left.append((i, n, t))
            rest_k = defaultdict(list)
            for j, (_, kn, kt) in enumerate(kl):
                if j not in used_k: rest_k[kt].append(kn)
            rest_c = defaultdict(list)
            for i, n, t in left: rest_c[t].append((i, n))
            for t, lst in rest_c.items():
                if len(rest_k.get(t, [])) == len(lst):
                    for (i, n), kn in zip(lst, rest_k[t]): new[i] = kn
        changed = {i: (dbg[str(i)], nn) for i, nn in new.items() if dbg.get(str(i)) != nn}
        if changed:
            for i, (old, nn) in changed.items(): dbg[str(i)] = nn
            b['debug'] = dbg
            F.renamed.append((name, sorted('%s->%s' % v for v in changed.values())))
        # captured variables: by position
        up = b.get('upvars') or {}
        kup = k.get('upvars') or {}
        if up and len(up) == len(kup) and any(up[i] != kup.get(i) for i in up):
            F.renamed.append((name, sorted('%s->%s' % (up[i], kup[i]) for i in up if up[i] != kup.get(i))))
            b['upvars'] = dict(kup)


def rename_functions(raw, crates):
    """A private function of the reviewed tree that is gone while a new one with the identical signature (parameter and return types) exists
    is a renamed function: its path (and that of its closures) is mapped back, in every fact that mentions it.  Unique pairs only; returns the
    list of (new path, reviewed path) applied."""
    import re
    tab = _table()
    if tab is None: return []
    applied = []
    for c in crates:
        d = raw.get(c)
        if d is None: continue
        cur = {}
        for b in d['bodies']:
            if b.get('kind') in ('Fn', 'AssocFn'):
                argc = b.get('argc', 0)
                sig = [b['locals'][i]['s'] for i in range(1, argc + 1)] + ['->', (b.get('ret') or {}).get('s') or b['locals'][0]['s']]
                cur[b['fn']] = sig
        known = {n[len(c) + 2:]: v for n, v in tab.items() if n.startswith(c + '::') and v.get('kind') in ('Fn', 'AssocFn') and '#' not in n}
        missing = {n: v['sig'] for n, v in known.items() if n not in cur}
        new = {n: s for n, s in cur.items() if n not in known and '::tests::' not in n and '::test::' not in n}
        pairs = []
        for n, s in new.items():
            cands = [m for m, ms in missing.items() if ms == s and m.rsplit('::', 1)[0] == n.rsplit('::', 1)[0]]     # same module / impl
            others = [n2 for n2, s2 in new.items() if s2 == s and n2.rsplit('::', 1)[0] == n.rsplit('::', 1)[0]]
            if len(cands) == 1 and len(others) == 1: pairs.append((n, cands[0]))
        if not pairs: continue
        txt = json.dumps(d)
        for n, m in pairs:
            # the path as a whole token (followed by a quote, `::{closure`, `}` ...), not as a prefix of a longer identifier
            txt = re.sub(re.escape(json.dumps(n)[1:-1]) + r'(?![A-Za-z0-9_])', lambda _m: json.dumps(m)[1:-1], txt)
            applied.append((c + '::' + n, c + '::' + m))
        raw[c] = json.loads(txt)
    return applied


def rename_fields(F):
    """field names of the reviewed tree's types, by position, when the field types are unchanged (private fields may be renamed freely)"""
    p = os.path.join(VERIF, 'tables', 'known_locals.json')
    if not os.path.exists(p): return
    known = json.load(open(p)).get('adts') or {}
    F.fields_renamed = []
    for path, a in F.adts.items():
        k = known.get(path)
        if not k or len(k['variants']) != len(a.get('variants', [])): continue
        for v, kv in zip(a['variants'], k['variants']):
            fs = v.get('fields', [])
            if v['name'] != kv['name'] or len(fs) != len(kv['fields']): continue
            tys = [(f.get('ty') or {}).get('s') if isinstance(f.get('ty'), dict) else f.get('ty') for f in fs]
            if tys != [t for _, t in kv['fields']]: continue
            for f, (kn, _) in zip(fs, kv['fields']):
                if f.get('name') != kn:
                    F.fields_renamed.append((path, f.get('name'), kn)); f['name'] = kn


_INTS = {'u8': 8, 'u16': 16, 'u32': 32, 'u64': 64, 'u128': 128, 'usize': 64, 'i8': 8, 'i16': 16, 'i32': 32, 'i64': 64, 'i128': 128, 'isize': 64}


def normalize_int_conversions(F):
    """`usize::from(x)` / `x.into()` between primitive integer types is the lossless cast `x as usize`: in functions whose reviewed version has no
    such call, the call is rewritten to the cast statement it is equivalent to, so the two spellings present the same MIR to every rule."""
    p = os.path.join(VERIF, 'tables', 'known_locals.json')
    if not os.path.exists(p): return
    keep = set(json.load(open(p)).get('int_conversion_fns') or [])
    F.conversions_normalized = []
    for name, b in F.bodies.items():
        if name in keep: continue
        n = 0
        for blk in b['blocks']:
            t = blk['term']
            if t['t'] != 'call' or t['f'].get('fn') not in ('std::convert::From::from', 'std::convert::Into::into') or len(t['args']) != 1 or t.get('to') is None: continue
            a = t['args'][0]
            sty = a.get('p', {}).get('ty') if a.get('o') in ('copy', 'move') else (a.get('ty', {}) or {}).get('s')
            dty = t['dest'].get('ty')
            if sty not in _INTS or dty not in _INTS: continue
            signed_s, signed_d = sty[0] == 'i', dty[0] == 'i'
            lossless = (signed_s == signed_d and _INTS[dty] >= _INTS[sty]) or (not signed_s and signed_d and _INTS[dty] > _INTS[sty])
            if not lossless: continue
            blk['stmts'].append({'s': 'assign', 'lhs': t['dest'], 'rv': {'r': 'cast', 'k': 'IntToInt', 'a': a,
                                 'to': {'s': dty, 't': {'k': 'int', 's': signed_d, 'bits': _INTS[dty]}}}, 'span': t['span']})
            blk['term'] = {'t': 'goto', 'to': t['to']}
            n += 1
        if n: F.conversions_normalized.append((name, n))
