"""Models of external (std / wide / bytemuck / num-traits / itertools / bitflags / lazy_static) callees for the abstract
interpreter: which of them can panic and under which precondition, and what value they return (DESIGN.md Appendix C).
An external callee without an entry here makes the analysis fail closed (site `call:unmodelled`).
This table is part of the trusted base."""
import math, re
from .absint import (AV, mk_int, mk_bool, top_of, top_int, join, tyinfo, int_range, MEM_BOUND, cmp_eval, refine_cmp, _merge_refined, clamp_ty)

USIZE = ('int', 64, False)


def norm(name):
    if name.startswith('bytemuck::core::'): name = name[len('bytemuck::'):]
    return name


# ---------------------------------------------------------------------------------------- helpers
def _ref_target(I, st, a):
    return a.tgt if a is not None and a.k == 'ref' else None


def _enum_at(st, key):
    v = st.m.get(key) if key else None
    if v is not None and v.k == 'enum': return v
    return None


def _copy_sub(st, src, dst):
    """copy all sub-places of src to dst"""
    if src is None: return
    v = st.m.get(src)
    if v is not None: st.m[dst] = v
    for k in st.subkeys(src):
        st.m[(dst[0], dst[1] + k[1][len(src[1]):])] = st.m[k]


def _slice_len(I, st, a):
    """(lo, hi, sym) of the slice/array a reference AV points to"""
    if a is None or a.k != 'ref': return (0, MEM_BOUND, None)
    if a.extra and a.extra[0] == 'arrlen': return (a.extra[1], a.extra[1], None)
    if a.extra and a.extra[0] == 'slicelen': return (a.extra[1], a.extra[2], ('len', a.vid))
    if a.extra and a.extra[0] == 'item':
        from . import tables
        try:
            v = tables.fold_const(I.F, I.crate + '::' + a.extra[1])
            if v[0] == 'array': return (len(v[1]), len(v[1]), None)
        except Exception:
            pass
    if a.tgt is not None:
        tv = st.m.get(a.tgt)
        if tv is not None and tv.extra and tv.extra[0] == 'arrlen': return (tv.extra[1], tv.extra[1], None)
        lk = st.m.get((a.tgt[0], a.tgt[1] + ('#len',)))
        if lk is not None and lk.k == 'int': return (lk.lo, lk.hi, ('veclen', a.tgt))
        # a local array: length from the local's type
        if not a.tgt[1]:
            t = I.body['locals'][a.tgt[0]]['t']
            if t['k'] == 'array' and t['len'] is not None: return (t['len'], t['len'], None)
    return (0, MEM_BOUND, ('len', a.vid))


def _len_multiple(a):
    """(vid, k) when the slice length is known to be k times the value with identity vid"""
    if a is not None and a.k == 'ref' and a.extra and a.extra[0] == 'slicelen' and len(a.extra) > 3:
        return a.extra[3]
    return None


def _as_multiple(n):
    """(vid, k) if integer AV n is k * value(vid)"""
    if n.k != 'int': return None
    if n.extra and n.extra[0] == 'mul':
        _, av, bv, ac, bc = n.extra
        if bc is not None and ac is None: return (av, bc)
        if ac is not None and bc is None: return (bv, ac)
    return (n.lin[0], 1) if (n.lin and n.lin[1] == 0) else (n.vid, 1)


def _len_av(I, st, a):
    lo, hi, sym = _slice_len(I, st, a)
    return mk_int(lo, hi, USIZE, sym=sym)


def _idx_lt_len(idx, lo, hi, sym):
    if idx.k != 'int': return False
    if idx.hi < lo: return True
    if sym is not None and sym in idx.ubs: return True
    return False


def _idx_le_len(idx, lo, hi, sym):
    if idx.k != 'int': return False
    if idx.hi <= lo: return True
    if sym is not None and sym in idx.ubs: return True
    if sym is not None and idx.sym == sym: return True
    return False


def _set_option(st, dkey, vs, payload=None, ty=None):
    st.m[dkey] = AV('enum', ty=ty, vs=frozenset(vs))
    if payload is not None and 1 in vs:
        st.m[(dkey[0], dkey[1] + (('v', 1), 0))] = payload


def _arg_local_ty(I, t, i):
    a = t['args'][i]
    if a['o'] in ('copy', 'move'):
        if not a['p']['proj']: return I.body['locals'][a['p']['l']]['s']
        return a['p']['ty']
    return a.get('ty', {}).get('s', '')


# ---------------------------------------------------------------------------------------- iterator descriptors
# stored in AV.extra of the iterator value:  ('iter', kind, lenlo, lenhi, lensym, item)   item: AV or tuple description
def _iter_desc(I, st, a, akey):
    """descriptor of an iterator-valued argument (by value, or behind a reference)"""
    v = a
    if a is not None and a.k == 'ref' and a.tgt is not None:
        v = st.m.get(a.tgt)
    if v is not None and v.extra and isinstance(v.extra, tuple) and v.extra[0] == 'iter':
        return v.extra
    # a Range<T> value used as an iterator
    k = akey if not (a is not None and a.k == 'ref' and a.tgt is not None) else a.tgt
    if k is not None:
        s_ = st.m.get((k[0], k[1] + (0,))); e_ = st.m.get((k[0], k[1] + (1,)))
        base = st.m.get(k)
        if s_ is not None and e_ is not None and s_.k == 'int' and e_.k == 'int' and base is not None and base.extra and base.extra[0] == 'adt' and 'Range' in base.extra[1]:
            item = mk_int(s_.lo, max(s_.lo, e_.hi - 1), s_.ty)
            n_hi = max(0, e_.hi - s_.lo)
            n_lo = max(0, e_.lo - s_.hi)
            if e_.lin and e_.lin[0] == s_.vid: n_lo = n_hi = max(0, e_.lin[1])
            elif e_.lin and s_.lin and e_.lin[0] == s_.lin[0]: n_lo = n_hi = max(0, e_.lin[1] - s_.lin[1])
            return ('iter', 'range', n_lo, n_hi, None, item)
    return None


def _mk_iter(ty, kind, lo, hi, sym, item):
    return AV('top', ty=ty, extra=('iter', kind, lo, hi, sym, item))


# ---------------------------------------------------------------------------------------- the table
class Models:
    def __init__(self):
        self.table = []
        self._cache = {}
        self._build()

    def lookup(self, name):
        name = norm(name)
        if name in self._cache: return self._cache[name]
        r = None
        for pat, m in self.table:
            if pat.search(name):
                r = dict(m); r.setdefault('name', m.get('name', name.split('::')[-1])); break
        self._cache[name] = r
        return r

    def slice_len(self, I, st, a):
        return _slice_len(I, st, a)

    def add(self, pat, name=None, panics=None, value=None, nohavoc=False, diverges=False):
        self.table.append((re.compile(pat), {'name': name or pat, 'panics': panics, 'value': value, 'nohavoc': nohavoc, 'diverges': diverges}))

    # folded const items: hull of the entries selected by `path`
    def item_hull(self, F, crate, item, path, tystr):
        from . import tables
        try:
            v = tables.fold_const(F, crate + '::' + item)
        except Exception:
            return None
        def walk(vals, path):
            if not path: return vals
            el = path[0]; out = []
            for x in vals:
                if el == '[]':
                    if x[0] == 'array': out += list(x[1])
                elif el == '*':
                    out.append(x[1] if x[0] == 'ref' else x)
                elif isinstance(el, int):
                    if x[0] in ('tuple', 'struct') and el < len(x[1]): out.append(x[1][el])
                    elif x[0] == 'enum' and el < len(x[3]): out.append(x[3][el])
                elif isinstance(el, tuple) and el[0] == 'v':
                    if x[0] == 'enum' and x[2] == el[1]: out.append(x)
            return walk(out, path[1:])
        vals = walk([v], tuple(path))
        if not vals: return None
        t = tyinfo(tystr)
        if t[0] == 'int' and all(x[0] == 'int' for x in vals):
            return mk_int(min(x[1] for x in vals), max(x[1] for x in vals), t)
        if t[0] == 'float' and all(x[0] == 'float' for x in vals):
            return AV('float', min(x[1] for x in vals), max(x[1] for x in vals), t)
        if t[0] == 'bool' and all(x[0] == 'bool' for x in vals):
            return mk_bool({int(x[1]) for x in vals})
        if all(x[0] == 'enum' for x in vals):
            return AV('enum', ty=tystr, vs=frozenset(x[2] for x in vals), extra=('item', item))
        if all(x[0] in ('array', 'tuple', 'struct') for x in vals):
            return AV('top', ty=tystr, extra=('item', item, tuple(path)))
        return None

    # ------------------------------------------------------------------------------------
    def _build(self):
        A = self.add

        # ---- never panic, nothing interesting returned
        for pat in [r'^wide::', r'^<wide::', r'^bytemuck::cast$', r'^std::collections::HashMap', r'^std::io::Error::kind$', r'^std::io::Read::read_exact$',
                    r'^lazy_static::lazy::Lazy', r'^std::ops::FnOnce::call_once$', r'^std::clone::Clone::clone$', r'^std::fmt::', r'^<.* as std::fmt::',
                    r'^std::cmp::PartialOrd::(gt|lt|ge|le)$', r'^std::cmp::PartialEq::(ne|eq)$', r'PartialEq>::(eq|ne)$',
                    r'^std::ops::(BitOr|BitAnd|Not|Shr|Shl)::\w+$', r'^num_traits::', r'^core::num::<impl \w+>::checked_sh[lr]$', r'^std::vec::Vec::<T>::new$',
                    r'^std::vec::Vec::<T, A>::(push|capacity|is_empty|resize)$', r'^std::collections::VecDeque::<T, A>::(push_back|iter)$',
                    r'^std::collections::VecDeque::<T>::new$', r'^<&f32 as std::ops::(Div|Mul)<f32>>::', r'^bitflags::', r'^<.*bitflags',
                    r'^std::option::Option::<T>::and_then$', r'^std::iter::Iterator::map$', r'^<std::iter::Map<I, F> as std::iter::Iterator>::next$',
                    r'^std::error::Error', r'^<std::io::Error', r'^std::result::Result::<T, E>::map_err$', r'^std::mem::(swap|replace|take)$', r'^itertools::']:
            A(pat)

        # ---- panics unconditionally when reached
        A(r'^core::panicking::(panic|panic_fmt|assert_failed|panic_explicit|unreachable_display|panic_const)', name='panic',
          panics=lambda I, st, args, akeys, t: (False, 'explicit panic / failed assertion is reachable'), diverges=True)

        # ---- Try / ?
        def try_branch(I, st, args, akeys, t, dkey):
            src = akeys[0]
            is_opt = 'Option' in I.F.callee_name(t)
            e = _enum_at(st, src)
            vs = e.vs if e is not None else frozenset({0, 1})
            okv = 1 if is_opt else 0
            out = set()
            if okv in vs: out.add(0)
            if (1 - okv) in vs: out.add(1)
            st.m[dkey] = AV('enum', vs=frozenset(out))
            if src is not None:
                _copy_sub(st, (src[0], src[1] + (('v', okv), 0)), (dkey[0], dkey[1] + (('v', 0), 0)))
        A(r'as std::ops::Try>::branch$', name='?', value=try_branch, nohavoc=True)

        def from_residual(I, st, args, akeys, t, dkey):
            is_opt = 'Option<T> as' in I.F.callee_name(t)
            st.m[dkey] = AV('enum', vs=frozenset({0 if is_opt else 1}))
        A(r'FromResidual<.*>>::from_residual$', name='from_residual', value=from_residual, nohavoc=True)

        # ---- Option / Result
        def is_x(kind):
            def f(I, st, args, akeys, t, dkey):
                tgt = _ref_target(I, st, args[0])
                e = _enum_at(st, tgt)
                true_variant = {'isnone': 0, 'issome': 1, 'iserr': 1, 'isok': 0}[kind]
                if e is not None:
                    vs = set()
                    if true_variant in e.vs: vs.add(1)
                    if (1 - true_variant) in e.vs: vs.add(0)
                else: vs = {0, 1}
                st.m[dkey] = mk_bool(vs, cond=(kind, tgt) if tgt else None)
            return f
        A(r'^std::option::Option::<T>::is_none$', value=is_x('isnone'), nohavoc=True)
        A(r'^std::option::Option::<T>::is_some$', value=is_x('issome'), nohavoc=True)
        A(r'^std::result::Result::<T, E>::is_err$', value=is_x('iserr'), nohavoc=True)
        A(r'^std::result::Result::<T, E>::is_ok$', value=is_x('isok'), nohavoc=True)

        def unwrap_pre(want):
            def f(I, st, args, akeys, t):
                e = _enum_at(st, akeys[0])
                if e is not None and e.vs == frozenset({want}): return True, None
                return False, 'value may be %s' % ('None' if want == 1 else 'Err')
            return f

        def unwrap_val(want):
            def f(I, st, args, akeys, t, dkey):
                if akeys[0] is not None:
                    _copy_sub(st, (akeys[0][0], akeys[0][1] + (('v', want), 0)), dkey)
            return f
        A(r'^std::option::Option::<T>::(unwrap|expect)$', name='unwrap', panics=unwrap_pre(1), value=unwrap_val(1), nohavoc=True)
        A(r'^std::result::Result::<T, E>::(unwrap|expect)$', name='unwrap', panics=unwrap_pre(0), value=unwrap_val(0), nohavoc=True)

        def unwrap_or(I, st, args, akeys, t, dkey):
            pay = st.m.get((akeys[0][0], akeys[0][1] + (('v', 1), 0))) if akeys[0] else None
            d = args[1] if len(args) > 1 else None
            e = _enum_at(st, akeys[0])
            if e is not None and e.vs == frozenset({0}) and d is not None and d.k in ('int', 'float', 'bool'):
                st.m[dkey] = d; return
            if pay is not None and d is not None and pay.k == d.k and d.k in ('int', 'float', 'bool'):
                st.m[dkey] = join(pay, d).clone(vid=None)
        A(r'^std::option::Option::<T>::unwrap_or$', value=unwrap_or, nohavoc=True)
        A(r'^std::option::Option::<T>::unwrap_or_else$')
        A(r'^std::option::Option::<T>::unwrap_or_default$')

        def ok_or(I, st, args, akeys, t, dkey):
            e = _enum_at(st, akeys[0])
            vs = e.vs if e is not None else frozenset({0, 1})
            out = set()
            if 1 in vs: out.add(0)
            if 0 in vs: out.add(1)
            st.m[dkey] = AV('enum', vs=frozenset(out))
            if akeys[0] is not None:
                _copy_sub(st, (akeys[0][0], akeys[0][1] + (('v', 1), 0)), (dkey[0], dkey[1] + (('v', 0), 0)))
        A(r'^std::option::Option::<T>::ok_or$', value=ok_or, nohavoc=True)

        def keep_variants(I, st, args, akeys, t, dkey):
            e = _enum_at(st, akeys[0])
            st.m[dkey] = AV('enum', vs=e.vs if e is not None else frozenset({0, 1}))
        A(r'^std::option::Option::<T>::map$', value=keep_variants)
        A(r'^std::option::Option::<&T>::(copied|cloned)$', value=keep_variants, nohavoc=True)
        A(r'^std::option::Option::<T>::(as_ref|as_mut)$', value=keep_variants, nohavoc=True)

        # ---- numeric helpers
        def sat_sub(I, st, args, akeys, t, dkey):
            a, b = args
            if a.k == 'int' and b.k == 'int':
                tlo, thi = int_range(a.ty[1], a.ty[2])
                r = mk_int(max(tlo, a.lo - b.hi), max(tlo, a.hi - b.lo), a.ty)
                if b.lo >= 0: r.ubs = a.ubs
                st.m[dkey] = r
        A(r'^core::num::<impl \w+>::saturating_sub$', value=sat_sub, nohavoc=True)

        def sat_add(I, st, args, akeys, t, dkey):
            a, b = args
            if a.k == 'int' and b.k == 'int':
                tlo, thi = int_range(a.ty[1], a.ty[2])
                st.m[dkey] = mk_int(max(tlo, min(thi, a.lo + b.lo)), max(tlo, min(thi, a.hi + b.hi)), a.ty)
        A(r'^core::num::<impl \w+>::saturating_add$', value=sat_add, nohavoc=True)

        def wrapping(I, st, args, akeys, t, dkey):
            pass
        A(r'^core::num::<impl \w+>::wrapping_\w+$', value=wrapping, nohavoc=True)

        def abs_(I, st, args, akeys, t, dkey):
            a = args[0]
            if a.k == 'int':
                tlo, thi = int_range(a.ty[1], a.ty[2])
                if a.lo == tlo:      # MIN.abs() overflows (std is built without overflow checks: returns MIN)
                    st.m[dkey] = mk_int(tlo, thi, a.ty); return
                lo = 0 if a.lo <= 0 <= a.hi else min(abs(a.lo), abs(a.hi))
                st.m[dkey] = mk_int(lo, max(abs(a.lo), abs(a.hi)), a.ty)
        A(r'^core::num::<impl i\w+>::abs$', value=abs_, nohavoc=True)

        def signum(I, st, args, akeys, t, dkey):
            a = args[0]
            if a.k == 'int':
                st.m[dkey] = mk_int(-1 if a.lo < 0 else (0 if a.lo == 0 else 1), 1 if a.hi > 0 else (0 if a.hi == 0 else -1), a.ty)
        A(r'^core::num::<impl i\w+>::signum$', value=signum, nohavoc=True)

        def fsignum(I, st, args, akeys, t, dkey):
            st.m[dkey] = AV('float', -1.0, 1.0, args[0].ty if args[0].k == 'float' else ('float', 32), nan=getattr(args[0], 'nan', True))
        A(r'^core::f(32|64)::<impl f(32|64)>::signum$', value=fsignum, nohavoc=True)

        def fround(fn):
            def f(I, st, args, akeys, t, dkey):
                a = args[0]
                if a.k == 'float':
                    lo = fn(a.lo) if math.isfinite(a.lo) else a.lo
                    hi = fn(a.hi) if math.isfinite(a.hi) else a.hi
                    st.m[dkey] = AV('float', float(lo), float(hi), a.ty, nan=a.nan)
            return f
        A(r'^std::f(32|64)::<impl f(32|64)>::ceil$', value=fround(math.ceil), nohavoc=True)
        A(r'^std::f(32|64)::<impl f(32|64)>::floor$', value=fround(math.floor), nohavoc=True)
        A(r'^std::f(32|64)::<impl f(32|64)>::(round|trunc|abs|sqrt)$', nohavoc=True)

        def clamp_pre(I, st, args, akeys, t):
            x, lo, hi = args
            if lo.k == 'int' and hi.k == 'int' and lo.hi <= hi.lo: return True, None
            return False, 'clamp bounds may be inverted (min %r, max %r)' % (lo, hi)

        def clamp_val(I, st, args, akeys, t, dkey):
            x, lo, hi = args
            if x.k == 'int' and lo.k == 'int' and hi.k == 'int':
                st.m[dkey] = mk_int(max(min(x.lo, hi.lo), lo.lo), min(max(x.hi, lo.hi), hi.hi), x.ty)
        A(r'^std::cmp::impls::<impl std::cmp::Ord for \w+>::clamp$|^std::cmp::Ord::clamp$', name='clamp', panics=clamp_pre, value=clamp_val, nohavoc=True)

        def max_(I, st, args, akeys, t, dkey):
            a, b = args
            if a.k == 'int' and b.k == 'int': st.m[dkey] = mk_int(max(a.lo, b.lo), max(a.hi, b.hi), a.ty)

        def min_(I, st, args, akeys, t, dkey):
            a, b = args
            if a.k == 'int' and b.k == 'int':
                r = mk_int(min(a.lo, b.lo), min(a.hi, b.hi), a.ty)
                r.ubs = frozenset(set(a.ubs) & set(b.ubs))
                st.m[dkey] = r
        A(r'^std::cmp::Ord::max$|^std::cmp::max$', value=max_, nohavoc=True)
        A(r'^std::cmp::Ord::min$|^std::cmp::min$', value=min_, nohavoc=True)

        def div_ceil_pre(I, st, args, akeys, t):
            b = args[1]
            if b.k == 'int' and (b.lo > 0 or b.hi < 0): return True, None
            return False, 'div_ceil divisor may be zero (%r)' % (b,)

        def div_ceil_val(I, st, args, akeys, t, dkey):
            a, b = args
            if a.k == 'int' and b.k == 'int' and b.lo > 0 and a.lo >= 0:
                st.m[dkey] = mk_int(-(-a.lo // b.hi), -(-a.hi // b.lo), a.ty)
        A(r'^core::num::<impl u\w+>::div_ceil$', name='div_ceil', panics=div_ceil_pre, value=div_ceil_val, nohavoc=True)

        def into(I, st, args, akeys, t, dkey):
            a = args[0]
            tt = tyinfo(t['dest']['ty'])
            if tt[0] == 'int' and a.k == 'int':
                tlo, thi = int_range(tt[1], tt[2])
                if tlo <= a.lo and a.hi <= thi:
                    st.m[dkey] = AV('int', a.lo, a.hi, tt, ubs=a.ubs, sym=a.sym, lin=a.lin or (a.vid, 0, a.sym))
            elif tt[0] == 'int' and a.k == 'bool':
                st.m[dkey] = mk_int(min(a.vs), max(a.vs), tt)
            elif tt[0] == 'float' and a.k == 'int':
                st.m[dkey] = AV('float', float(a.lo), float(a.hi), tt)
            elif tt[0] == 'float' and a.k == 'float':
                st.m[dkey] = AV('float', a.lo, a.hi, tt, nan=a.nan)
            elif tt[0] == 'other' and akeys[0] is not None and a.k in ('top', 'enum'):
                _copy_sub(st, akeys[0], dkey)
        A(r'^<T as std::convert::Into<U>>::into$|^std::convert::num::<impl std::convert::From<\w+> for \w+>::from$|^<\w+ as std::convert::From<\w+>>::from$', name='into', value=into, nohavoc=True)

        # ---- lengths
        def slice_len(I, st, args, akeys, t, dkey):
            st.m[dkey] = _len_av(I, st, args[0])
        A(r'^core::slice::<impl \[T\]>::len$', value=slice_len, nohavoc=True)
        A(r'^core::slice::<impl \[T\]>::is_empty$', nohavoc=True)

        def vec_len(I, st, args, akeys, t, dkey):
            tgt = _ref_target(I, st, args[0])
            if tgt is not None:
                lk = st.m.get((tgt[0], tgt[1] + ('#len',)))
                if lk is not None and lk.k == 'int':
                    st.m[dkey] = lk.clone(vid=None, sym=('veclen', tgt)); return
                st.m[dkey] = mk_int(0, MEM_BOUND, USIZE, sym=('veclen', tgt)); return
            st.m[dkey] = mk_int(0, MEM_BOUND, USIZE)
        A(r'^std::vec::Vec::<T, A>::len$|^std::collections::VecDeque::<T, A>::len$', value=vec_len, nohavoc=True)

        def from_elem(I, st, args, akeys, t, dkey):
            n = args[1]
            if n.k == 'int': st.m[(dkey[0], dkey[1] + ('#len',))] = n.clone(vid=None)
        A(r'^std::vec::from_elem$', value=from_elem, nohavoc=True)

        def with_cap(I, st, args, akeys, t, dkey):
            st.m[(dkey[0], dkey[1] + ('#len',))] = mk_int(0, 0, USIZE)
        A(r'^std::vec::Vec::<T>::with_capacity$', value=with_cap, nohavoc=True)

        def to_vec(I, st, args, akeys, t, dkey):
            lo, hi, sym = _slice_len(I, st, args[0])
            st.m[(dkey[0], dkey[1] + ('#len',))] = mk_int(lo, hi, USIZE, sym=sym)
        A(r'^std::slice::<impl \[T\]>::to_vec$', value=to_vec, nohavoc=True)

        def vec_deref(I, st, args, akeys, t, dkey):
            tgt = _ref_target(I, st, args[0])
            if tgt is not None:
                ck = (tgt[0], tgt[1] + ('#slice',))
                cur = st.m.get(ck)
                lk = st.m.get((tgt[0], tgt[1] + ('#len',)))
                if cur is None:
                    ex = ('slicelen', lk.lo, lk.hi) if lk is not None and lk.k == 'int' else None
                    cur = AV('ref', ty=t['dest']['ty'], tgt=(tgt[0], tgt[1] + ('#buf',)), extra=ex)
                    st.m[ck] = cur
                st.m[dkey] = cur
        A(r'^<std::vec::Vec<T, A> as std::ops::Deref(Mut)?>::deref(_mut)?$|^<std::vec::Vec<T, A> as std::convert::As(Mut|Ref)<\[T\]>>::as_(mut|ref)$|^std::vec::Vec::<T, A>::as_(mut_)?slice$',
          name='vec_deref', value=vec_deref, nohavoc=True)

        def _promoted_range(I, t):
            """(lo, hi) when the receiver is a promoted constant `lo..=hi` (`(1..=12).contains(..)` compiles to a reference to promoted[k])"""
            b = I.body
            def single_def(l):
                ds = [s_ for blk in b['blocks'] for s_ in blk['stmts'] if s_['s'] == 'assign' and s_['lhs']['l'] == l and not s_['lhs'].get('proj')]
                return ds[0] if len(ds) == 1 else None
            a = t['args'][0]
            for _ in range(6):
                if a.get('o') == 'const' and 'promoted' in a:
                    pb = I.F.bodies.get('%s::%s::promoted[%d]' % (b['crate'], a['uneval'], a['promoted']))
                    if pb is None: return None
                    for blk in pb['blocks']:
                        pt = blk['term']
                        if pt['t'] == 'call' and I.F.callee_name(pt).split('#')[0].endswith('RangeInclusive::<Idx>::new') and len(pt['args']) == 2 \
                                and all(x.get('o') == 'const' and x.get('bits') is not None for x in pt['args']):
                            return int(pt['args'][0]['bits']), int(pt['args'][1]['bits'])
                    return None
                if a.get('o') not in ('copy', 'move'): return None
                d = single_def(a['p']['l'])
                if d is None: return None
                rv = d['rv']
                if rv['r'] == 'use': a = rv['a']
                elif rv['r'] == 'ref': a = {'o': 'copy', 'p': {'l': rv['p']['l'], 'proj': []}}
                else: return None
            return None

        def from_one(I, st, args, akeys, t, dkey):
            a = args[0]
            st.m[dkey] = AV('ref', ty=t['dest']['ty'], tgt=a.tgt if a is not None and a.k == 'ref' else None, extra=('slicelen', 1, 1))
        A(r'^(std|core)::slice::from_(mut|ref)$', name='slice_from_one', value=from_one, nohavoc=True)      # one-element slice over the referent: never panics

        # ---- indexing
        def index_pre(I, st, args, akeys, t):
            base, idx = args[0], args[1]
            ity = _arg_local_ty(I, t, 1)
            lo, hi, sym = _slice_len(I, st, base)
            if 'Vec<' in _arg_local_ty(I, t, 0) or 'Vec<' in I.F.callee_name(t):
                tgt = _ref_target(I, st, base)
                lk = st.m.get((tgt[0], tgt[1] + ('#len',))) if tgt else None
                lo, hi, sym = (lk.lo, lk.hi, ('veclen', tgt)) if lk is not None and lk.k == 'int' else (0, MEM_BOUND, ('veclen', tgt) if tgt else None)
            if 'RangeFull' in ity: return True, None
            if ity.strip() == 'usize':
                if _idx_lt_len(idx, lo, hi, sym): return True, None
                return False, 'index %r not known to be < len [%s,%s]' % (idx, lo, hi)
            k = akeys[1]
            if 'RangeFrom' in ity:
                s = st.m.get((k[0], k[1] + (0,))) if k else None
                if s is not None and _idx_le_len(s, lo, hi, sym): return True, None
                return False, 'range start %r not known to be <= len [%s,%s]' % (s, lo, hi)
            if 'RangeTo' in ity:
                e = st.m.get((k[0], k[1] + (0,))) if k else None
                if e is not None and _idx_le_len(e, lo, hi, sym): return True, None
                return False, 'range end %r not known to be <= len [%s,%s]' % (e, lo, hi)
            if 'Range<' in ity:
                s = st.m.get((k[0], k[1] + (0,))) if k else None
                e = st.m.get((k[0], k[1] + (1,))) if k else None
                if s is not None and e is not None and s.k == 'int' and e.k == 'int':
                    ordered = s.hi <= e.lo or (e.lin and e.lin[0] == s.vid and e.lin[1] >= 0) or (e.lin and s.lin and e.lin[0] == s.lin[0] and e.lin[1] >= s.lin[1])
                    if ordered and _idx_le_len(e, lo, hi, sym): return True, None
                return False, 'range %r..%r not known to be within len [%s,%s]' % (s, e, lo, hi)
            return False, 'index type %s not modelled' % ity

        def index_val(I, st, args, akeys, t, dkey):
            base, idx = args[0], args[1]
            ity = _arg_local_ty(I, t, 1)
            lo, hi, sym = _slice_len(I, st, base)
            k = akeys[1]
            if 'RangeFull' in ity:
                st.m[dkey] = AV('ref', ty=t['dest']['ty'], tgt=base.tgt if base.k == 'ref' else None, extra=('slicelen', lo, hi) if lo == hi else (base.extra if base.k == 'ref' else None))
                if base.k == 'ref' and lo != hi: st.m[dkey] = base
                return
            if ity.strip() == 'usize':
                tgt = base.tgt if base.k == 'ref' else None
                st.m[dkey] = AV('ref', ty=t['dest']['ty'], tgt=(tgt[0], tgt[1] + ('[]',)) if tgt else None)
                return
            s = e = None
            if 'RangeFrom' in ity:
                s = st.m.get((k[0], k[1] + (0,))) if k else None
                if s is not None and s.k == 'int':
                    st.m[dkey] = AV('ref', ty=t['dest']['ty'], tgt=None, extra=('slicelen', max(0, lo - s.hi), max(0, hi - s.lo))); return
            elif 'Range<' in ity:
                s = st.m.get((k[0], k[1] + (0,))) if k else None
                e = st.m.get((k[0], k[1] + (1,))) if k else None
                if s is not None and e is not None and s.k == 'int' and e.k == 'int':
                    if e.lin and e.lin[0] == s.vid: n = (e.lin[1], e.lin[1])
                    elif e.lin and s.lin and e.lin[0] == s.lin[0]: n = (e.lin[1] - s.lin[1],) * 2
                    else: n = (max(0, e.lo - s.hi), max(0, e.hi - s.lo))
                    st.m[dkey] = AV('ref', ty=t['dest']['ty'], tgt=None, extra=('slicelen', n[0], min(n[1], hi))); return
            elif 'RangeTo' in ity:
                e = st.m.get((k[0], k[1] + (0,))) if k else None
                if e is not None and e.k == 'int':
                    st.m[dkey] = AV('ref', ty=t['dest']['ty'], tgt=None, extra=('slicelen', e.lo, min(e.hi, hi))); return
            st.m[dkey] = AV('ref', ty=t['dest']['ty'], tgt=None)
        A(r'ops::Index(Mut)?<I>( for \[T(; N)?\])?>::index(_mut)?$', name='index', panics=index_pre, value=index_val, nohavoc=True)

        def get_val(I, st, args, akeys, t, dkey):
            base, idx = args[0], args[1]
            lo, hi, sym = _slice_len(I, st, base)
            if _idx_lt_len(idx, lo, hi, sym): st.m[dkey] = AV('enum', vs=frozenset({1}))
            else: st.m[dkey] = AV('enum', vs=frozenset({0, 1}))
        A(r'^core::slice::<impl \[T\]>::get(_mut)?$', value=get_val, nohavoc=True)

        def split_pre(I, st, args, akeys, t):
            lo, hi, sym = _slice_len(I, st, args[0])
            if _idx_le_len(args[1], lo, hi, sym): return True, None
            lm = _len_multiple(args[0]); mm = _as_multiple(args[1])
            if lm and mm and lm[0] == mm[0] and mm[1] <= lm[1]: return True, None
            return False, 'split point %r not known to be <= len [%s,%s]' % (args[1], lo, hi)

        def split_val(I, st, args, akeys, t, dkey):
            lo, hi, sym = _slice_len(I, st, args[0]); mid = args[1]
            if mid.k == 'int':
                lm = _len_multiple(args[0]); mm = _as_multiple(mid)
                st.m[(dkey[0], dkey[1] + (0,))] = AV('ref', tgt=None, extra=('slicelen', mid.lo, mid.hi, mm))
                rest = ('slicelen', max(0, lo - mid.hi), max(0, hi - mid.lo))
                if lm and mm and lm[0] == mm[0] and mm[1] <= lm[1]:
                    k = lm[1] - mm[1]
                    rest = ('slicelen', k * mid.lo // max(mm[1], 1), k * mid.hi // max(mm[1], 1), (lm[0], k))
                st.m[(dkey[0], dkey[1] + (1,))] = AV('ref', tgt=None, extra=rest)
        A(r'^core::slice::<impl \[T\]>::split_at(_mut)?$', name='split_at', panics=split_pre, value=split_val, nohavoc=True)

        def copy_pre(I, st, args, akeys, t):
            a = _slice_len(I, st, args[0]); b = _slice_len(I, st, args[1])
            if a[0] == a[1] == b[0] == b[1]: return True, None
            return False, 'slice lengths not known to be equal (%s vs %s)' % (a[:2], b[:2])
        A(r'^core::slice::<impl \[T\]>::copy_from_slice$', name='copy_from_slice', panics=copy_pre)

        def chunks_pre(I, st, args, akeys, t):
            n = args[1]
            if n.k == 'int' and n.lo > 0: return True, None
            return False, 'chunk size may be zero (%r)' % (n,)

        def chunks_val(I, st, args, akeys, t, dkey):
            lo, hi, sym = _slice_len(I, st, args[0]); n = args[1]
            if n.k == 'int' and n.lo > 0:
                item = AV('ref', tgt=None, extra=('slicelen', n.lo, n.hi, _as_multiple(n)))
                st.m[dkey] = _mk_iter(t['dest']['ty'], 'chunks', lo // n.hi, hi // n.lo, None, item)
                st.m[dkey].extra = st.m[dkey].extra + ((n.lo, n.hi),)
        A(r'^core::slice::<impl \[T\]>::chunks_exact(_mut)?$', name='chunks_exact', panics=chunks_pre, value=chunks_val, nohavoc=True)

        def remainder_val(I, st, args, akeys, t, dkey):
            d = _iter_desc(I, st, args[0], akeys[0])
            if d and len(d) > 6:
                st.m[dkey] = AV('ref', ty=t['dest']['ty'], tgt=None, extra=('slicelen', 0, d[6][1] - 1))
        A(r'ChunksExact(Mut)?::<.*>::into_remainder$', value=remainder_val, nohavoc=True)

        def cast_slice_pre(I, st, args, akeys, t):
            return False, 'bytemuck::cast_slice panics unless the byte length is a multiple of the target element size'
        A(r'^bytemuck::cast_slice(_mut)?$', name='cast_slice', panics=cast_slice_pre)

        def drain_pre(I, st, args, akeys, t):
            return False, 'VecDeque::drain panics unless range.end <= len'
        A(r'^std::collections::VecDeque::<T, A>::drain$|^std::vec::Vec::<T, A>::drain$', name='drain', panics=drain_pre)

        # ---- iterators
        def slice_iter(I, st, args, akeys, t, dkey):
            lo, hi, sym = _slice_len(I, st, args[0])
            tgt = args[0].tgt if args[0].k == 'ref' else None
            item = AV('ref', tgt=(tgt[0], tgt[1] + ('[]',)) if tgt else None)
            st.m[dkey] = _mk_iter(t['dest']['ty'], 'slice', lo, hi, sym, item)
        A(r'^core::slice::<impl \[T\]>::iter(_mut)?$', value=slice_iter, nohavoc=True)

        def into_iter(I, st, args, akeys, t, dkey):
            a = args[0]
            ty = _arg_local_ty(I, t, 0)
            if 'ops::Range<' in ty and akeys[0] is not None:
                _copy_sub(st, akeys[0], dkey)
                return
            d = _iter_desc(I, st, a, akeys[0])
            if d is not None:
                st.m[dkey] = AV('top', ty=t['dest']['ty'], extra=d); return
            if a.k == 'ref':
                slice_iter(I, st, args, akeys, t, dkey)
        A(r'^<I as std::iter::IntoIterator>::into_iter$|IntoIterator>::into_iter$', value=into_iter, nohavoc=True)

        def range_next(I, st, args, akeys, t, dkey):
            tgt = _ref_target(I, st, args[0])
            if tgt is None: return
            s = st.m.get((tgt[0], tgt[1] + (0,))); e = st.m.get((tgt[0], tgt[1] + (1,)))
            if s is None or e is None or s.k != 'int' or e.k != 'int':
                st.kill(tgt); return
            vs = set()
            if s.lo < e.hi: vs.add(1)
            if s.hi >= e.lo: vs.add(0)
            st.m[dkey] = AV('enum', vs=frozenset(vs))
            if 1 in vs:
                item = mk_int(s.lo, min(s.hi, e.hi - 1), s.ty)
                ub = set(e.ubs) | {('vid', e.vid)}
                if e.sym: ub.add(e.sym)
                if e.lin and e.lin[1] <= 0: ub.add(('vid', e.lin[0]))
                item.ubs = frozenset(ub)
                if s.lin: item.lin = s.lin
                st.m[(dkey[0], dkey[1] + (('v', 1), 0))] = item
                ns = mk_int(min(s.lo + 1, e.hi), max(s.lo, min(s.hi + 1, e.hi)), s.ty)
                if 0 in vs: ns = join(ns, s).clone(vid=None)
                st.m[(tgt[0], tgt[1] + (0,))] = ns
        A(r'^std::iter::range::<impl std::iter::Iterator for std::ops::Range<A>>::next$', name='Range::next', value=range_next, nohavoc=True)

        def adaptor(kind):
            def f(I, st, args, akeys, t, dkey):
                d = _iter_desc(I, st, args[0], akeys[0])
                if kind == 'enumerate':
                    if d is None: d = ('iter', '?', 0, MEM_BOUND, None, None)
                    idx = mk_int(0, max(0, d[3] - 1), USIZE)
                    if d[4]: idx.ubs = frozenset({d[4]})
                    st.m[dkey] = _mk_iter(t['dest']['ty'], 'enumerate', d[2], d[3], d[4], ('tuple', idx, d[5]))
                elif kind == 'take':
                    n = args[1]
                    if d is None: d = ('iter', '?', 0, MEM_BOUND, None, None)
                    hi = min(d[3], n.hi) if n.k == 'int' else d[3]
                    lo = min(d[2], n.lo) if n.k == 'int' else 0
                    sym = d[4]
                    st.m[dkey] = _mk_iter(t['dest']['ty'], 'take', lo, hi, sym if hi == d[3] else None, d[5])
                    # index bound: also < n
                    st.m[dkey].extra = st.m[dkey].extra[:5] + (d[5],) + ((('take', n),) if n.k == 'int' else ())
                elif kind == 'skip':
                    if d is None: return
                    n = args[1]
                    st.m[dkey] = _mk_iter(t['dest']['ty'], 'skip', max(0, d[2] - (n.hi if n.k == 'int' else d[2])), d[3], None, d[5])
                elif kind == 'zip':
                    e = _iter_desc(I, st, args[1], akeys[1])
                    if e is None and args[1].k == 'ref':
                        lo, hi, sym = _slice_len(I, st, args[1])
                        e = ('iter', 'slice', lo, hi, sym, AV('ref', tgt=None))
                    if d is None: d = ('iter', '?', 0, MEM_BOUND, None, None)
                    if e is None: e = ('iter', '?', 0, MEM_BOUND, None, None)
                    st.m[dkey] = _mk_iter(t['dest']['ty'], 'zip', min(d[2], e[2]), min(d[3], e[3]), None, ('tuple', d[5], e[5]))
            return f
        A(r'^std::iter::Iterator::enumerate$', value=adaptor('enumerate'), nohavoc=True)
        A(r'^std::iter::Iterator::take$', value=adaptor('take'), nohavoc=True)
        A(r'^std::iter::Iterator::skip$', value=adaptor('skip'), nohavoc=True)
        A(r'^std::iter::Iterator::zip$', value=adaptor('zip'), nohavoc=True)
        A(r'^std::iter::Iterator::(rev|copied|cloned|peekable|step_by|chain|filter)$', nohavoc=True)

        def iter_next(I, st, args, akeys, t, dkey):
            d = _iter_desc(I, st, args[0], akeys[0])
            st.m[dkey] = AV('enum', vs=frozenset({0, 1}) if not d or d[2] == 0 or True else frozenset({1}))
            if d is None: return
            base = (dkey[0], dkey[1] + (('v', 1), 0))
            take_n = d[6][1] if len(d) > 6 and isinstance(d[6], tuple) and d[6] and d[6][0] == 'take' else None
            def put(key, item):
                if item is None: return
                if isinstance(item, tuple) and item and item[0] == 'tuple':
                    for i, sub in enumerate(item[1:]): put((key[0], key[1] + (i,)), sub)
                elif isinstance(item, AV):
                    v = item.clone(vid=None)
                    if v.k == 'int' and take_n is not None and take_n.k == 'int':
                        v.hi = min(v.hi, take_n.hi - 1)
                    st.m[key] = v
            put(base, d[5])
        A(r'^<std::iter::(Enumerate|Zip|Skip|Take)<.*> as std::iter::Iterator>::next$|^<std::slice::(Iter|IterMut|ChunksExact|ChunksExactMut)<.*> as std::iter::Iterator>::next$'
          r'|^<std::collections::vec_deque::Iter<.*> as std::iter::Iterator>::next$', name='Iterator::next', value=iter_next, nohavoc=True)

        # ---- primitive operator impls taken through references (`&u8 << usize`): #[rustc_inherit_overflow_checks]
        def shift_pre(I, st, args, akeys, t):
            a, b = args
            av = a
            if a.k == 'ref' and a.tgt is not None: av = st.m.get(a.tgt) or a
            m = re.search(r'<&?(\w+) as std::ops::Sh[lr]<', I.F.callee_name(t))
            bits = tyinfo(m.group(1))[1] if m and tyinfo(m.group(1))[0] == 'int' else 8
            if b.k == 'int' and 0 <= b.lo and b.hi < bits: return True, None
            return False, 'shift amount %r not known to be < %d' % (b, bits)
        A(r'^<&?\w+ as std::ops::Sh[lr]<\w+>>::sh[lr]$', name='shift', panics=shift_pre, nohavoc=True)

        def ord_cmp(I, st, args, akeys, t, dkey):
            a, b = args
            av = I.deref_value(st, a); bv = I.deref_value(st, b)
            # Ordering: Less = -1 (255 as u8), Equal = 0, Greater = 1
            st.m[dkey] = AV('enum', vs=frozenset({255, 0, 1}), extra=('ordcmp', av, bv))
        A(r'^std::cmp::impls::<impl std::cmp::Ord for \w+>::cmp$|^std::cmp::Ord::cmp$', name='cmp', value=ord_cmp, nohavoc=True)

        # ---- ranges
        def range_incl_new(I, st, args, akeys, t, dkey):
            st.m[(dkey[0], dkey[1] + (0,))] = args[0]; st.m[(dkey[0], dkey[1] + (1,))] = args[1]
        A(r'^std::ops::RangeInclusive::<Idx>::new$', value=range_incl_new, nohavoc=True)

        def contains(I, st, args, akeys, t, dkey):
            r = _ref_target(I, st, args[0]); x = args[1]
            xv = I.deref_value(st, x)
            if xv is None or xv.k != 'int':
                st.m[dkey] = mk_bool({0, 1}); return
            if r is None: r = (-1, ())
            lo = st.m.get((r[0], r[1] + (0,))); hi = st.m.get((r[0], r[1] + (1,)))
            if lo is None or hi is None or lo.k != 'int' or hi.k != 'int':
                # a promoted constant receiver: `(1..=12).contains(&x)` (the spelling of preconditions in debug_assert!s)
                pr = _promoted_range(I, t) if xv.k == 'int' else None
                if pr is None:
                    st.m[dkey] = mk_bool({0, 1}); return
                lo = mk_int(pr[0], pr[0], xv.ty); hi = mk_int(pr[1], pr[1], xv.ty)
            inclusive = 'Inclusive' in _arg_local_ty(I, t, 0)
            t1 = cmp_eval('Ge', xv, lo); t2 = cmp_eval('Le' if inclusive else 'Lt', xv, hi)
            vs = {a & b for a in t1 for b in t2}
            xvid = xv.vid
            def refine(I2, st2, truth):
                if not truth: return True
                cur = None
                for w in st2.m.values():
                    if w.vid == xvid: cur = w
                if cur is None: return True
                nl = max(cur.lo, lo.lo); nh = min(cur.hi, hi.hi if inclusive else hi.hi - 1)
                if nl > nh: return False
                st2.refine_vid(xvid, lambda w: w.clone(lo=max(w.lo, nl), hi=min(w.hi, nh)) if w.k == 'int' else None)
                return True
            st.m[dkey] = mk_bool(vs, cond=('model', refine))
        A(r'^std::ops::Range(Inclusive)?::<Idx>::contains$', value=contains, nohavoc=True)
