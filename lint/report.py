"""Obligation bookkeeping, violation reports, known findings, evidence files."""
import hashlib, json, os, time, re

VERIF = os.path.dirname(os.path.dirname(os.path.abspath(__file__)))


def load_known():
    p = os.path.join(VERIF, 'known_findings.json')
    if not os.path.exists(p):
        return []
    return json.load(open(p)).get('findings', [])


class Scoped:
    """view of a Check that prefixes rule ids and violation keys: lets one property re-run clauses owned by another on the same tree"""
    def __init__(self, ck, prefix):
        self._ck = ck; self._p = prefix
        self.assumptions = []; self.explanation = ''; self.trusted = []; self.extra = {}; self.analysed = {}

    def __getattr__(self, k):
        # read-only passthrough (tier, pid, seed, ...) for attributes the view does not override
        if k.startswith('_'): raise AttributeError(k)
        return getattr(self._ck, k)

    def rule(self, rid, text): self._ck.rule(self._p + rid, text)
    def ok(self, rule, instance, where=None, detail=None, nontrivial=True): self._ck.ok(self._p + rule, instance, where, detail, nontrivial)
    def reviewed(self, rule, instance, where=None, detail=None): self._ck.reviewed(self._p + rule, instance, where, detail)
    def violation(self, rule, key, where, msg, detail=None): self._ck.violation(self._p + rule, self._p + key, where, msg, detail)
    def unanalysable(self, what, msg): self._ck.unanalysable(self._p + what, msg)
    def count(self, k, n=1): self._ck.count(self._p + k, n)
    def floor(self, what, got, want): self._ck.floor(self._p + what, got, want)
    def sample(self, s): self._ck.sample(s)


class Check:
    def __init__(self, pid, tier, seed=0):
        self.pid = pid; self.tier = tier; self.seed = seed
        self.t0 = time.time()
        self.obligations = []        # dicts: rule, instance, status, where, detail
        self.samples = []
        self.analysed = {}           # free-form counters
        self.assumptions = []
        self.trusted = []
        self.explanation = ''
        self.rules = {}              # rule id -> description
        self.extra = {}

    # ---- recording
    def rule(self, rid, text):
        self.rules[rid] = text

    def ok(self, rule, instance, where=None, detail=None, nontrivial=True):
        self.obligations.append({'rule': rule, 'instance': instance, 'status': 'discharged', 'where': where, 'detail': detail, 'nontrivial': nontrivial})

    def reviewed(self, rule, instance, where=None, detail=None):
        self.obligations.append({'rule': rule, 'instance': instance, 'status': 'reviewed', 'where': where, 'detail': detail, 'nontrivial': True})

    def violation(self, rule, key, where, msg, detail=None):
        """key: stable identifier without line numbers: 'rule : function : site kind : fingerprint : ordinal'"""
        self.obligations.append({'rule': rule, 'instance': key, 'status': 'violation', 'where': where, 'detail': detail, 'msg': msg, 'nontrivial': True})

    def unanalysable(self, what, msg):
        self.violation('unanalysable', 'unanalysable : %s' % what, None, msg)

    def count(self, k, n=1):
        self.analysed[k] = self.analysed.get(k, 0) + n

    def floor(self, what, got, want):
        """fail closed when a rule matches fewer instances than were confirmed by hand."""
        if got < want:
            self.violation('floor', 'floor : %s' % what, None,
                           'rule instance count fell below the confirmed floor: %s matched %d, expected at least %d' % (what, got, want))
        else:
            self.ok('floor', '%s: %d >= %d' % (what, got, want), nontrivial=False)

    def sample(self, s):
        if len(self.samples) < 12:
            self.samples.append(s)

    # ---- finishing
    def finish(self):
        known = [k for k in load_known() if k.get('property') == self.pid]
        known_keys = {k['key']: k for k in known if k.get('status') == 'known'}
        viols = [o for o in self.obligations if o['status'] == 'violation']
        outdir = os.path.join(VERIF, 'out', 'violations', self.pid)
        if os.path.isdir(outdir):
            for f in os.listdir(outdir):
                try: os.remove(os.path.join(outdir, f))
                except OSError: pass
        lines = []
        new = 0; kn = 0
        seen_keys = set()
        for v in viols:
            key = v['instance']
            if key in seen_keys:
                continue
            seen_keys.add(key)
            base = key[len('dbg.'):] if key.startswith('dbg.') else key          # the same site seen again in the debug-assertions MIR (thorough tier)
            if key in known_keys or base in known_keys:
                key = key if key in known_keys else base
                if ('known', key) in seen_keys: continue
                seen_keys.add(('known', key))
                kn += 1
                v['status'] = 'known'
                lines.append('KNOWN-FINDING: property=%s %s [%s]' % (self.pid, known_keys[key].get('what', v.get('msg', '')), key))
                continue
            new += 1
            os.makedirs(outdir, exist_ok=True)
            h = hashlib.sha1(key.encode()).hexdigest()[:12]
            path = os.path.join(outdir, h + '.json')
            json.dump({'property': self.pid, 'rule': v['rule'], 'rule_text': self.rules.get(v['rule'], ''), 'key': key,
                       'where': v.get('where'), 'message': v.get('msg'), 'detail': v.get('detail')}, open(path, 'w'), indent=1, default=str)
            wh = v.get('where') or {}
            loc = ('%s:%s' % (wh.get('file'), wh.get('line'))) if wh else '-'
            lines.append('VIOLATION property=%s replay=%s rule=%s at %s :: %s' % (self.pid, path, v['rule'], loc, (v.get('msg') or '').replace('\n', ' ')[:400]))
        for l in lines:
            print(l)
        self._write_evidence(new, kn)
        n_ob = len(self.obligations)
        n_dis = len([o for o in self.obligations if o['status'] == 'discharged'])
        n_rev = len([o for o in self.obligations if o['status'] == 'reviewed'])
        print('%s [%s]: %d obligations, %d discharged, %d reviewed-safe, %d known findings, %d violations (%.1fs)' % (
            self.pid, self.tier, n_ob, n_dis, n_rev, kn, new, time.time() - self.t0))
        return 1 if new else 0

    def _write_evidence(self, new, kn):
        obs = self.obligations
        n_dis = len([o for o in obs if o['status'] == 'discharged'])
        n_rev = len([o for o in obs if o['status'] == 'reviewed'])
        distinct = len({(o['rule'], str(o['instance'])) for o in obs if o.get('nontrivial')})
        by_rule = {}
        for o in obs:
            r = by_rule.setdefault(o['rule'], {'discharged': 0, 'reviewed': 0, 'violation': 0, 'known': 0})
            r[o['status']] = r.get(o['status'], 0) + 1
        samples = list(self.samples)
        if not samples:
            for o in obs[:8]:
                samples.append({'rule': o['rule'], 'instance': o['instance'], 'status': o['status'], 'where': o.get('where')})
        ev = {
            'property_id': self.pid,
            'tier': self.tier,
            'seed': self.seed,
            'level': 'other',
            'coverage': {
                'explanation': self.explanation or 'static analysis over type-checked MIR of /repo (see DESIGN.md)',
                'obligations': len(obs),
                'discharged': n_dis,
                'reviewed_safe': n_rev,
                'known_findings': kn,
                'new_violations': new,
                'evaluations': max(len(obs), 1),
                'distinct_nontrivial': distinct,
                'rule': 'one obligation per rule instance found in the MIR of the current tree (call site, assert site, loop, table entry, '
                        'decision-table row); distinct = distinct (rule, instance) pairs that inspected a non-empty construct',
                'samples': samples,
                'checker_cmd': './check %s --tier %s' % (self.pid, self.tier),
                'trusted_base': self.trusted or ['rustc MIR construction and type checker', 'mirfacts serialisation', 'lint/extern_models.py callee models'],
                'analysed': self.analysed,
                'rules': self.rules,
                'by_rule': by_rule,
                'exhaustive': False,
            },
            'assumptions': self.assumptions,
            'wall_s': round(time.time() - self.t0, 2),
            'violations': new,
        }
        ev['coverage'].update(self.extra)
        os.makedirs(os.path.join(VERIF, 'evidence'), exist_ok=True)
        json.dump(ev, open(os.path.join(VERIF, 'evidence', self.pid + '.json'), 'w'), indent=1, default=str)


def where_of(body, bb=None, span=None):
    if span is None:
        if bb is not None:
            t = body['blocks'][bb]['term']
            span = t.get('span')
            if span is None:
                st = body['blocks'][bb]['stmts']
                span = st[-1]['span'] if st and 'span' in st[-1] else body['span']
        else:
            span = body['span']
    return {'file': span['file'], 'line': span['line'], 'function': body.get('name', body['fn']), 'bb': bb}


def short_fn(name):
    """function path without the crate prefix and generic noise, for keys."""
    n = name.split('::', 1)[1] if '::' in name else name
    return re.sub(r'::<[^>]*>', '', n)
