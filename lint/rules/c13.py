"""C13 - every decoded picture can be deblocked and converted: the size relations between producer and consumers."""
import math, re
from ..bitslice import Table, fmt_cond
from ..loopexpr import Norm, show, find, stores
from ..report import where_of, short_fn
from ..facts import Unanalysable
from . import c16

DP = 'h263_rs::decoder::picture::DecodedPicture'
YUV = 'h263_rs_yuv::bt601::yuv420_to_rgba'
MAXDIM = 65535          # u16 indications


from ..loopexpr import ev, NotExact


def is_half_up(term, var):
    """term(var) == ceil(var / 2) for every var in 0..=65535"""
    try:
        for x in range(0, MAXDIM + 1):
            if ev(term, {var: x}) != (x + 1) // 2: return 'differs at %d: %s' % (x, ev(term, {var: x}))
    except (NotExact, Unanalysable) as e:
        return str(e)
    return None


def run(ck, F, tier):
    ck.explanation = ('C13 decided as agreement of closed forms between the producer of the planes and their two consumers, for every width and height 1..65535 at once: '
                      'P DecodedPicture::new allocates luma w*h and both chroma planes cw*ch with cw = ceil(w/2), ch = ceil(h/2) (its f32 expression is tabulated exactly '
                      'over 0..65535 and equals div_ceil), chroma_samples_per_row = cw; the accessors return exactly those fields, as slices; R the planes cannot be '
                      'resized after construction (private Vec fields, the only &mut Vec use is deref_mut to a slice); Q yuv420_to_rgba derives the chroma row length as '
                      'div_ceil(y_width, 2) - the same function - and returns a vector of len(y)*4 bytes; J2/S the strength table covers quantizers 1..31 with values 1..12 '
                      'and the quantizer is a 5-bit field. That deblock() accepts every such plane is decided by C16\'s rules, re-run here (C16.*). Panic-freedom of the slice arithmetic inside yuv420_to_rgba for '
                      'every size is relational and NOT decided (see C08).')
    ck.assumptions += ['f32 arithmetic on integers and halves below 2^24 is exact', 'preconditions of deblock(): data.len() % width == 0, width >= 1, strength in 1..=12']
    ck.rule('P', 'DecodedPicture::new: luma = vec![0; w*h], chroma_b = chroma_r = vec![0; cw*ch], chroma_samples_per_row = cw, with (w, h) = format.into_width_and_height()? '
                 'and cw = ceil(w/2), ch = ceil(h/2) for all w, h in 0..=65535')
    b = F.body(DP + '::new'); T = Table(F, DP + '::new', cast_kinds=True); N = Norm(T)
    agg = None; raw_agg = None
    for d in T.local_defs(0):
        t = N.n(d[2])
        if t[0] == 'agg' and t[1] == 'Some' and t[2][0] == 'agg' and t[2][1] == 'DecodedPicture': agg = t[2]; raw_agg = d[2][2]
    if agg is None or len(agg) != 8:
        ck.violation('P', 'P : DecodedPicture::new : shape', where_of(b), 'DecodedPicture::new does not return Some(DecodedPicture { 6 fields })'); return
    W = ('fld', ('f', 'try', ('f', 'into_width_and_height', ('v', 'format'))), (0,)); H = ('fld', W[1], (1,))
    luma, cb, cr, cspr = agg[4], agg[5], agg[6], agg[7]
    from ..loopexpr import mk_mul
    if luma == ('f', 'from_elem', ('c', 0), mk_mul([W, H])): ck.ok('P', 'luma = vec![0; w*h]', where_of(b))
    else: ck.violation('P', 'P : DecodedPicture::new : luma', where_of(b), 'luma plane is %s, expected from_elem(0, w*h)' % show(luma))
    cw = cspr
    from .c02 import typed_tab
    msg = typed_tab(T, N, raw_agg[7], W, 'u16', lambda x: (x + 1) // 2) if not find(cw, lambda z: z == H) else 'depends on the height'
    if msg == 'float': msg = is_half_up(cw, W) if find(cw, lambda z: z == W) and not find(cw, lambda z: z == H) else 'does not depend on the width alone'
    if msg is None: ck.ok('P', 'chroma_samples_per_row = %s = ceil(w/2) for every w in 0..=65535 (tabulated)' % show(cw), where_of(b))
    else: ck.violation('P', 'P : DecodedPicture::new : chroma row length', where_of(b), 'chroma_samples_per_row = %s is not ceil(w/2): %s' % (show(cw), msg))
    for nm, pl in (('chroma_b', cb), ('chroma_r', cr)):
        good = False
        if pl[0] == 'f' and pl[1] == 'from_elem' and pl[2] == ('c', 0) and pl[3][0] == '*' and len(pl[3]) == 3:
            fs = list(pl[3][1:])
            ws = [x for x in fs if find(x, lambda z: z == W)]; hs = [x for x in fs if find(x, lambda z: z == H)]
            if len(ws) == 1 and len(hs) == 1 and ws[0] is not hs[0] and ws[0] == cw and is_half_up(hs[0], H) is None: good = True
        if good: ck.ok('P', '%s = vec![0; ceil(w/2)*ceil(h/2)]' % nm, where_of(b))
        else: ck.violation('P', 'P : DecodedPicture::new : %s' % nm, where_of(b), '%s plane is %s, expected from_elem(0, ceil(w/2)*ceil(h/2)) with the same row length as chroma_samples_per_row' % (nm, show(pl)))
    # accessors
    ck.rule('G', 'the accessors expose exactly those planes: as_luma(_mut) -> luma, as_chroma_b(_mut), as_chroma_r(_mut), as_yuv -> (luma, chroma_b, chroma_r), '
                 'chroma_samples_per_row -> the stored row length, luma_samples_per_row -> w of the stored format')
    want = {'as_luma': 'self.2', 'as_luma_mut': 'self.2', 'as_chroma_b': 'self.3', 'as_chroma_b_mut': 'self.3', 'as_chroma_r': 'self.4', 'as_chroma_r_mut': 'self.4',
            'as_yuv': 'tuple(self.2, self.3, self.4)', 'chroma_samples_per_row': 'self.5', 'luma_samples_per_row': 'unwrap(into_width_and_height(format(self))).0'}
    fields = [f['name'] for f in F.adts[DP]['variants'][0]['fields']]
    if fields != ['picture_header', 'format', 'luma', 'chroma_b', 'chroma_r', 'chroma_samples_per_row']:
        ck.violation('G', 'G : DecodedPicture : fields', None, 'DecodedPicture has fields %s' % fields)
    n = 0
    for fn, w in want.items():
        try:
            bb_ = F.body(DP + '::' + fn); Tg = Table(F, DP + '::' + fn, paths=False); Ng = Norm(Tg)
        except KeyError:
            ck.violation('G', 'G : %s : missing' % fn, None, 'accessor %s not found' % fn); continue
        got = [show(Ng.n(d[2])) for d in Tg.local_defs(0)]
        n += 1
        if got == [w]: ck.ok('G', 'DecodedPicture::%s returns %s' % (fn, w), where_of(bb_))
        else: ck.violation('G', 'G : %s : returns' % fn, where_of(bb_), 'DecodedPicture::%s returns %s, expected %s' % (fn, got, w))
    ck.floor('accessors', n, 9)
    # R: never resized
    ck.rule('R', 'the three plane vectors are private to decoder::picture and the only use of a `&mut Vec<u8>` in that module is DerefMut::deref_mut (a slice cannot change length)')
    vis = {f['name']: f['vis'] for f in F.adts[DP]['variants'][0]['fields']}
    pub = [k for k in ('luma', 'chroma_b', 'chroma_r', 'chroma_samples_per_row', 'format') if not vis[k].startswith('Restricted') or 'decoder::picture' not in vis[k]]
    if pub: ck.violation('R', 'R : DecodedPicture : visibility', None, 'fields %s are visible outside decoder::picture' % pub)
    else: ck.ok('R', 'luma, chroma_b, chroma_r, chroma_samples_per_row, format are private to decoder::picture')
    nb = 0
    for k, bd in sorted(F.bodies.items()):
        if not k.startswith('h263_rs::decoder::picture::'): continue
        nb += 1
        Tk = Table(F, k, paths=False)
        for bb, t in Tk.g.calls():
            for a in t['args']:
                ty = a.get('p', {}).get('ty', '') if a.get('o') != 'const' else ''
                if 'mut std::vec::Vec' in ty:
                    cn = F.callee_name(t)
                    if cn.endswith('DerefMut>::deref_mut') or cn.endswith('::as_mut_slice'):
                        ck.ok('R', '%s: &mut Vec only dereferenced to a slice' % short_fn(k), where_of(bd, bb))
                    else:
                        ck.violation('R', 'R : %s : &mut Vec passed to %s' % (short_fn(k), cn.split('::')[-1]), where_of(bd, bb), '%s hands a plane vector mutably to %s, which may change its length' % (short_fn(k), cn))
        for bb2, s_, t_, v_ in stores(Tk, Norm(Tk)):
            if re.match(r'^self\.[2345]$', show(t_)):
                ck.violation('R', 'R : %s : plane field overwritten' % short_fn(k), where_of(bd, bb2), '%s assigns %s := %s' % (short_fn(k), show(t_), show(v_)))
    ck.floor('decoder::picture bodies', nb, 12)
    # Q: the consumer
    ck.rule('Q', 'yuv420_to_rgba: chroma row length = div_ceil(y_width, 2), rows = len(y)/y_width, output = vec![0; len(y)*4] returned (width*height RGBA pixels); '
                 'an empty luma plane returns an empty vector before any division')
    b = F.body(YUV); T = Table(F, YUV, paths=False, cast_kinds=True); N = Norm(T)
    rets = [(d[0], N.n(d[2])) for d in T.local_defs(0)]
    shown = sorted(show(v) for _, v in rets)
    if shown == ['rgba', 'vec![]'] or shown == ['new()', 'rgba'] or (len(rets) == 2 and 'rgba' in shown):
        ck.ok('Q', 'returns %s' % shown, where_of(b))
    else:
        ck.violation('Q', 'Q : yuv420_to_rgba : returns', where_of(b), 'returns %s, expected the rgba buffer or an empty vector' % shown)
    rg = [l for l, nm in T.names.items() if nm == 'rgba']
    rg = [l for l in rg if any(show(N.n(d[2])).startswith('from_elem') for d in T.local_defs(int(l)))] or rg
    alloc = [show(N.n(d[2])) for l in rg for d in T.local_defs(int(l))]
    if alloc == ['from_elem(0, len(y)*4)']: ck.ok('Q', 'rgba = vec![0; len(y)*4]', where_of(b))
    else: ck.violation('Q', 'Q : yuv420_to_rgba : allocation', where_of(b), 'rgba is allocated as %s, expected from_elem(0, len(y)*4)' % alloc)
    bad_mut = [(F.callee_name(t)) for l in rg for bb, t, ai in T.muts.get(int(l), []) if t is not None and not (F.callee_name(t).endswith('::index_mut') or F.callee_name(t).endswith('deref_mut'))]
    if bad_mut: ck.violation('Q', 'Q : yuv420_to_rgba : rgba resized', where_of(b), 'rgba is handed mutably to %s' % bad_mut)
    else: ck.ok('Q', 'rgba is only indexed after allocation (its length stays len(y)*4)', where_of(b))
    # chroma row length in the slice expressions: rows are cut as  (r/2)*CW .. ;  CW must be ceil(y_width/2) as a function
    cws = {}
    YW = ('v', 'y_width')
    for bb, t_ in T.g.calls():
        cn = F.callee_name(t_)
        if (cn.endswith('::index') or cn.endswith('::index_mut')) and len(t_['args']) == 2:
            base = show(N.n(T.ex(t_['args'][0]))); rng = N.n(T.ex(t_['args'][1]))
            if base not in ('chroma_b', 'chroma_r'): continue
            lo = rng[2] if rng[0] == 'agg' and rng[1] == 'Range' and len(rng) == 4 else None
            cw_t = None
            if lo is not None and lo[0] == '*':
                rowf = [x for x in lo[1:] if find(x, lambda z: z[0] == 'ix')]
                rest = [x for x in lo[1:] if x not in rowf]
                if len(rowf) == 1 and rowf[0][0] == 'f' and rowf[0][1] == 'Div' and rowf[0][2][0] == 'ix' and rowf[0][3] == ('c', 2) and rest:
                    from ..loopexpr import mk_mul as _mm
                    cw_t = _mm(rest)
            cws[(bb, base)] = cw_t if cw_t is not None else ('f', 'unrecognised', rng)
    bad = [(k, show(v), is_half_up(v, YW)) for k, v in cws.items() if v[:2] == ('f', 'unrecognised') or is_half_up(v, YW) is not None]
    if cws and not bad: ck.ok('Q', 'all %d chroma row slices start at (row/2) * %s, and that row length equals ceil(y_width/2) for every y_width in 0..=65535 - the producer\'s chroma_samples_per_row' % (
        len(cws), sorted(set(show(v) for v in cws.values()))), where_of(b))
    else: ck.violation('Q', 'Q : yuv420_to_rgba : chroma row length', where_of(b), 'chroma rows are not cut at (row/2) * ceil(y_width/2): %s' % (bad or 'no chroma slices found'))
    ck.floor('chroma row slices', len(cws), 4)
    rows = [l for l in N.loops.values() if l.kind == 'range' and show(l.hi) == 'Div(len(y), y_width)' and show(l.lo) == '0']
    if len(rows) == 1: ck.ok('Q', 'one row loop 0..len(y)/y_width', where_of(b))
    else: ck.violation('Q', 'Q : yuv420_to_rgba : row loop', where_of(b), 'row loops: %s' % list(N.loops.values()))
    # empty shortcut dominates every division
    g = T.g
    emp = None
    for bb in sorted(g.reach):
        t_ = g.blocks[bb]['term']
        if t_['t'] == 'switch':
            e = N.n(T.ex(t_['on']))
            if show(e) in ('is_empty(y)', 'Eq(0, len(y))', 'Eq(len(y), 0)'): emp = bb
    divs = [bb for bb in sorted(g.reach) for s_ in g.blocks[bb]['stmts'] if s_['s'] == 'assign' and s_['rv']['r'] == 'bin' and s_['rv']['op'] in ('Div', 'Rem')]
    divs += [bb for bb, t_ in g.calls() if F.callee_name(t_).endswith('::div_ceil')]
    if emp is not None and all(g.dominates(emp, d) and d not in _true_side(g, emp) for d in divs):
        ck.ok('Q', 'the `y.is_empty()` shortcut returns before any division (%d division sites)' % len(divs), where_of(b, emp))
    else:
        ck.violation('Q', 'Q : yuv420_to_rgba : empty shortcut', where_of(b), 'a division by the width can execute for an empty picture')
    # strength table and quantizer range; and deblock() itself accepting every such plane: C16's rules re-run here (the property asks that deblocking completes)
    from ..report import Scoped
    s16 = Scoped(ck, 'C16.')
    c16.table_j2(ck, F)
    from . import panicfree
    mech = {'DB1': c16.db1_horizontal_loop(s16, F), 'DB2': c16.db2_vertical_octets(s16, F)}
    if not getattr(F, 'debug_assertions', False):
        # C16 has no debug-assertions variant (check: NO_DEBUG_VARIANT): the deblocking crate's debug_assert!s state the 1..=12 strength
        # precondition, which the interval domain cannot derive; the panic inventory is therefore run on the release MIR only, as in C16
        PA = panicfree.run_inventory(s16, F, [c16.DB + 'deblock'], mech, scope=('deblock::',), floors={'sites': 80, 'functions': 12})
        panicfree.run_termination(s16, F, PA, 8)
    # a decoded picture has width >= 1 and height >= 1: into_width_and_height gives no size to a custom format with a zero dimension (C06's rule S, re-run here)
    # .. and the size the planes are built from is the size the header signals: every header field with its width, presence condition and destination
    # (width and height indications in the order they are transmitted), C06 re-run whole (it includes rule S)
    from . import c06
    c06.run(Scoped(ck, 'C06.'), F, tier)
    # "every successfully decoded picture EXPOSES planes": after a successful call get_last_picture() returns the picture just decoded - the accessor reads the
    # store under last_picture (C04 R1), last_picture := this picture's key and the picture is inserted under it (R2), and the clean-up that prunes the store
    # runs after those updates (R7)
    # "every width and height from 1 upward .. completes": the reconstruction writes each block only inside the plane - the cropped extents of all four
    # idct_channel arms (C10's rule C: x < min(8, row length - 8bx), y < min(8, rows - 8by), with the transposed dense arm cropped the right way round)
    from . import c10
    c10.rule_c(Scoped(ck, 'C10.'), F)
    from . import c04
    s04 = Scoped(ck, 'C04.')
    c04.r1_accessors(s04, F)
    try:
        c04.r2_updates(s04, F)
    except Unanalysable as e:
        ck.unanalysable('C04.R2 final section', str(e))
    ck.rule('S', 'Picture.quantizer is a 5-bit field (0..31) at both construction sites, so QUANT_TO_STRENGTH[quantizer] is in range')
    name = 'h263_rs::parser::picture::decode_picture::{closure#0}'
    Tp = Table(F, name)
    rows_ = Tp.return_rows().get('Ok.Some.Picture.14', {})
    okq = rows_ and all(re.fullmatch(r'r(\d+)', k) and Tp.read_width(int(k[1:])) == 5 for k in rows_)
    if okq: ck.ok('S', 'Picture.quantizer = %s, each a read_bits(5)' % sorted(rows_), where_of(F.body(name)))
    else: ck.violation('S', 'S : decode_picture : quantizer', where_of(F.body(name)), 'Picture.quantizer is %s, expected 5-bit reads' % sorted(rows_))
    others = [k for k, bd in F.bodies.items() if k != name and not k.startswith('h263_rs::parser::picture::decode_picture') and any(
        s_['s'] == 'assign' and s_['rv']['r'] == 'agg' and s_['rv']['kind'].get('path') == 'types::Picture' for blk in bd['blocks'] for s_ in blk['stmts'])]
    others = [k for k in others if '::tests::' not in k and '::test' not in k]
    if others: ck.violation('S', 'S : Picture constructed elsewhere', None, 'types::Picture is also constructed in %s' % others)
    else: ck.ok('S', 'types::Picture is constructed only in decode_picture')


def _true_side(g, bb):
    """blocks reachable only through the `is_empty` true edge (the shortcut)"""
    t = g.blocks[bb]['term']
    tgt = [to for v, to in t['arms'] if int(v) == 0]
    other = t['otherwise']
    # the shortcut side is the one that reaches a return without meeting a loop: approximate as the smaller side
    a = g.reachable_from([tgt[0]]) if tgt else set(); b_ = g.reachable_from([other])
    small = a if len(a) < len(b_) else b_
    return small - (a & b_)
