"""C08 - RGBA output pairs every luma sample with its 4:2:0 chroma sample: the structural clauses (slice geometry, chunk pairing, remainder path)."""
import re
from ..bitslice import Table
from ..loopexpr import Norm, show, find, stores, guards, guard_term, truth_of, mk_mul, mk_add, mk_sub
from ..report import where_of
from ..facts import Unanalysable
from . import c07, c13

YUV = 'h263_rs_yuv::bt601::yuv420_to_rgba'
K4 = 'h263_rs_yuv::bt601::yuv_to_rgba_4x'


def rng(lo, hi): return ('agg', 'Range', lo, hi)


def run(ck, F, tier):
    ck.explanation = ('C08 decided for its structural clauses, for every width and height at once: K the 4-pixel kernel takes ([u8;4], [u8;2], [u8;2]) -> [u8;16] (types) and its '
                      'lane l uses Y[l], Cb[l/2], Cr[l/2] (C07\'s canonical-form rule, re-run here); M in the whole-group path the k-th kernel call of row r receives bytes '
                      '4k.. of luma row r, bytes 2k.. of chroma row r/2 (both planes) and writes bytes 16k.. of output row r - so pixel x = 4k + l is paired with chroma '
                      'column 2k + l/2 = x/2 of chroma row r/2; R the remainder path (taken iff width mod 4 != 0) gathers y[x mod 4] = row[x], c[(x mod 4)/2] = crow[x/2] for the '
                      'last width mod 4 columns and copies bytes 4(width - width mod 4) .. 4 width of the row from the kernel result at index i mod 16; '
                      'Q (shared with C13) row length ceil(width/2), output vec![0; 4 len(y)], empty shortcut. '
                      'NOT decided: that the slice arithmetic stays in bounds for every size (the "never panics" clause) - that is relational beyond the interval reading.')
    ck.assumptions += ['bytemuck::cast_slice::<u8,[u8;N]> views consecutive groups of N bytes in order', 'width - width mod 4 is a multiple of 4 (so x mod 4 is the lane of column x in its group)']
    # K: kernel signature and lane pairing
    ck.rule('K', 'yuv_to_rgba_4x: (&[u8;4], &[u8;2], &[u8;2]) -> &mut [u8;16]; lane l of the output is the BT.601 conversion of Y[l], Cb[l/2], Cr[l/2] (rule F of C07)')
    kb = F.body(K4)
    sig = [kb['locals'][i]['s'] for i in range(1, kb['argc'] + 1)]
    if [re.sub(r"'\w+ ", '', x) for x in sig] == ['(&[u8; 4], &[u8; 2], &[u8; 2])', '&mut [u8; 16]']:
        ck.ok('K', 'kernel signature %s' % sig, where_of(kb))
    else:
        ck.violation('K', 'K : yuv_to_rgba_4x : signature', where_of(kb), 'kernel signature is %s' % sig)
    c07.lanes(ck, F, 'K')
    b = F.body(YUV); T = Table(F, YUV, paths=False, cast_kinds=True); N = Norm(T)
    g = T.g
    calls = [(bb, t) for bb, t in g.calls() if F.callee_name(t).endswith('bt601::yuv_to_rgba_4x')]
    if len(calls) != 2:
        ck.violation('M', 'M : yuv420_to_rgba : kernel calls', where_of(b), 'expected two kernel call sites (whole groups, remainder), found %d' % len(calls)); return
    terms = [(bb, N.n(T.ex(t['args'][0])), N.n(T.ex(t['args'][1]))) for bb, t in calls]
    rows = [l for l in N.loops.values() if l.kind == 'range' and show(l.hi) == 'Div(len(y), y_width)' and show(l.lo) == '0']
    if len(rows) != 1:
        ck.violation('M', 'M : yuv420_to_rgba : row loop', where_of(b), 'no unique row loop 0..len(y)/y_width'); return
    r = ('ix', rows[0].L); W = ('v', 'y_width')
    # L: every row is converted by the code below: no `continue` / `break` / early return inside the row loop - one back edge (from the end of the body),
    # the only exit is the exhausted row range, and the output is written by nothing but the kernel (through the row slices) and the remainder copy
    ck.rule('L', 'row loop discipline: each iteration runs the whole body (a single back edge; the loop is left only when the row range is exhausted), and the output buffer is '
                 'handed to no call other than the ones that slice it for the kernel and the remainder copy')
    loops_ = g.loops()
    outer = max(loops_.items(), key=lambda kv: len(kv[1])) if loops_ else None
    if outer is None or not all(bb in outer[1] for bb, _ in calls):
        ck.violation('L', 'L : yuv420_to_rgba : row loop', where_of(b), 'no loop containing both kernel call sites')
    else:
        h_, body_ = outer
        back = sorted(x for x in body_ if h_ in g.succ[x])
        exits = sorted(x for x in body_ if any(y not in body_ for y in g.succ[x]))
        rets_in = [x for x in body_ if g.blocks[x]['term']['t'] == 'return']
        # callees that receive the output vector / a view of it
        outv = [int(l) for l, nm in T.names.items() if nm == 'rgba']
        allowed = ('deref_mut', 'index_mut', 'chunks_exact_mut', 'cast_slice_mut', 'iter_mut', 'as_mut_slice', 'into_iter', 'as_mut')
        odd = []
        for bb, t in g.calls():
            cn = F.callee_name(t).split('#')[0]
            for a in t['args']:
                try: o = T.D.origin(a)
                except Exception: continue
                def roots(o_, depth=0):
                    if depth > 8 or not isinstance(o_, tuple) or not o_: return set()
                    if o_[0] == 'multi': return {o_[1]}
                    if o_[0] == 'ref' and len(o_) > 1: return roots(o_[1], depth + 1)
                    if o_[0] == 'rv' and o_[2]['rv']['r'] == 'ref': return {o_[2]['rv']['p']['l']}
                    return set()
                if roots(o) & set(outv) and not cn.endswith(allowed) and not any(cn.endswith('::' + x) or ('::' + x + '::') in cn or cn.endswith(x) for x in allowed):
                    odd.append((bb, cn.rsplit('::', 1)[-1]))
        # the same for every loop nested in it (the whole-group loop, the gather / copy loops of the remainder): no iteration is cut short
        inner_bad = []
        for h2, body2 in loops_.items():
            if h2 == h_: continue
            back2 = [x for x in body2 if h2 in g.succ[x]]
            exits2 = [x for x in body2 if any(y not in body2 for y in g.succ[x])]
            if len(back2) != 1 or len(exits2) != 1 or g.blocks[exits2[0]]['term']['t'] != 'switch':
                inner_bad.append((h2, len(back2), sorted(exits2)))
        if inner_bad:
            ck.violation('L', 'L : yuv420_to_rgba : inner loop shape', where_of(b, inner_bad[0][0]), 'a loop inside the row loop has %d back edges and exits at blocks %s (a `continue` / `break` skips part of a row)' % (inner_bad[0][1], inner_bad[0][2]))
        elif len(back) == 1 and exits == [h_] or (len(back) == 1 and len(exits) == 1 and g.blocks[exits[0]]['term']['t'] == 'switch' and not rets_in) :
            if odd: ck.violation('L', 'L : yuv420_to_rgba : output writers', where_of(b, odd[0][0]), 'the output buffer is also handed to %s' % sorted({m for _, m in odd}))
            else: ck.ok('L', 'row loop: one back edge, left only when the row range is exhausted; the output buffer goes only to slicing calls', where_of(b, h_))
        else:
            ck.violation('L', 'L : yuv420_to_rgba : row loop shape', where_of(b, h_), 'the row loop has %d back edges and exits at blocks %s (a `continue`, `break` or early return skips part of the conversion of a row)' % (len(back), exits))
    main = [x for x in terms if find(x[1], lambda z: z[0] == 'f' and z[1].startswith('cast_slice'))]
    rem = [x for x in terms if x not in main]
    ck.rule('M', 'whole groups: kernel(k) <- (luma row r bytes 4k.., chroma_b row r/2 bytes 2k.., chroma_r row r/2 bytes 2k..) -> output row r bytes 16k.., same k in all four streams; '
                 'row slices start at r*width, (r/2)*ceil(width/2), r*4*width and stop before the incomplete last group')
    if len(main) != 1 or len(rem) != 1:
        ck.violation('M', 'M : yuv420_to_rgba : call shapes', where_of(b), 'could not tell the whole-group call from the remainder call'); return
    mb, margs, mout = main[0]
    def chunk(base, rowidx, stride, cut, castfn='cast_slice'):
        lo = mk_mul([rowidx, stride]); hi = mk_sub(mk_mul([mk_add([rowidx, ('c', 1)]), stride]), cut)
        return ('f', castfn, ('slice', ('v', base), rng(lo, hi)))
    cw = c13_cw(N, T, F)
    if cw is None:
        ck.violation('M', 'M : yuv420_to_rgba : chroma row length', where_of(b), 'no br_width-like definition found'); return
    half = ('f', 'Div', r, ('c', 2))
    ks = set(find(margs, lambda z: z[0] == 'ix' and z != r)) | set(find(mout, lambda z: z[0] == 'ix' and z != r))
    if len(ks) != 1:
        ck.violation('M', 'M : yuv420_to_rgba : group index', where_of(b, mb), 'the four streams of the whole-group call are not indexed by one common group index: %s' % sorted(map(show, ks))); return
    k = list(ks)[0]
    remW = ('f', 'Rem', W, ('c', 4))
    want_args = ('agg', 'tuple', ('el', chunk('y', r, W, remW), k), ('el', chunk('chroma_b', half, cw, ('f', 'Rem', cw, ('c', 2))), k), ('el', chunk('chroma_r', half, cw, ('f', 'Rem', cw, ('c', 2))), k))
    want_out = ('el', chunk('rgba', r, mk_mul([W, ('c', 4)]), mk_mul([remW, ('c', 4)]), 'cast_slice_mut'), k)
    if margs == want_args: ck.ok('M', 'inputs of group k: %s' % show(want_args), where_of(b, mb))
    else: ck.violation('M', 'M : yuv420_to_rgba : whole-group inputs', where_of(b, mb), 'the whole-group call reads %s; expected %s' % (show(margs), show(want_args)))
    if mout == want_out: ck.ok('M', 'output of group k: %s' % show(want_out), where_of(b, mb))
    else: ck.violation('M', 'M : yuv420_to_rgba : whole-group output', where_of(b, mb), 'the whole-group call writes %s; expected %s' % (show(mout), show(want_out)))
    lk = N.loops.get(k[1])
    if lk is None or lk.kind not in ('seq', 'count') or show(lk.lo) != '0':
        ck.violation('M', 'M : yuv420_to_rgba : group loop', where_of(b, mb), 'the group index does not run over the zipped chunk sequences')
    # R: remainder
    ck.rule('R', 'remainder (iff width mod 4 != 0): for x in width - width mod 4 .. width: y4[x mod 4] = yrow[x], cb2[(x mod 4)/2] = cbrow[x/2], cr2 likewise, with whole rows '
                 'r*width.., (r/2)*ceil(width/2)..; kernel(y4, cb2, cr2) -> rgba_4x; for i in 4 width - 4 (width mod 4) .. 4 width: outrow[i] = rgba_4x[i mod 16]')
    rb, rargs, rout = rem[0]
    gsr = [truth_of(*guard_term(T, N, a, s_)) for a, s_ in guards(T, rb) if not g.dominates(a, mb) or True]
    gsr = [x for x in gsr if x is not None and find(x[0], lambda z: z == remW)]
    if gsr == [(('f', 'Ne', ('c', 0), remW), True)] or gsr == [(('f', 'Gt', remW, ('c', 0)), True)]:
        ck.ok('R', 'remainder path taken exactly when width mod 4 != 0', where_of(b, rb))
    else:
        ck.violation('R', 'R : yuv420_to_rgba : remainder guard', where_of(b, rb), 'the remainder path is guarded by %s, expected width mod 4 != 0' % [(show(t), v) for t, v in gsr])
    if show(rargs) == 'tuple(y, cb, cr)' and show(rout) == 'rgba_4x':
        ck.ok('R', 'kernel((&y4, &cb2, &cr2), &mut rgba_4x)', where_of(b, rb))
    else:
        ck.violation('R', 'R : yuv420_to_rgba : remainder kernel call', where_of(b, rb), 'remainder kernel call is (%s) -> %s' % (show(rargs), show(rout)))
    st = stores(T, N)
    def whole(base, rowidx, stride): return ('slice', ('v', base), rng(mk_mul([rowidx, stride]), mk_mul([mk_add([rowidx, ('c', 1)]), stride])))
    xs = [l for l in N.loops.values() if l.kind == 'range' and l.lo == mk_sub(W, remW) and l.hi == W]
    is_ = [l for l in N.loops.values() if l.kind == 'range' and l.lo == mk_sub(mk_mul([W, ('c', 4)]), mk_mul([remW, ('c', 4)])) and l.hi == mk_mul([W, ('c', 4)])]
    if len(xs) != 1 or len(is_) != 1:
        ck.violation('R', 'R : yuv420_to_rgba : remainder loops', where_of(b), 'expected the column loop width - width%%4 .. width and the byte loop 4*width - 4*(width%%4) .. 4*width; loops: %s' % list(N.loops.values())); return
    x = ('ix', xs[0].L); i = ('ix', is_[0].L)
    lane = ('f', 'Rem', x, ('c', 4))
    want = {
        show(('el', ('v', 'y'), lane)): ('el', whole('y', r, W), x),
        show(('el', ('v', 'cb'), ('f', 'Div', lane, ('c', 2)))): ('el', whole('chroma_b', half, cw), ('f', 'Div', x, ('c', 2))),
        show(('el', ('v', 'cr'), ('f', 'Div', lane, ('c', 2)))): ('el', whole('chroma_r', half, cw), ('f', 'Div', x, ('c', 2))),
        show(('el', whole('rgba', r, mk_mul([W, ('c', 4)])), i)): ('el', ('v', 'rgba_4x'), ('f', 'Rem', i, ('c', 16))),
    }
    got = {show(t): v for bb, s_, t, v in st}
    for tgt, val in want.items():
        if got.get(tgt) == val: ck.ok('R', '%s := %s' % (tgt, show(val)), where_of(b))
        else: ck.violation('R', 'R : yuv420_to_rgba : remainder store %s' % tgt.split('[')[0], where_of(b), 'expected %s := %s; the stores are %s' % (tgt, show(val), {k_: show(v_) for k_, v_ in got.items()}))
    extra = set(got) - set(want)
    if extra: ck.violation('R', 'R : yuv420_to_rgba : other stores', where_of(b), 'unexpected stores %s' % sorted(extra))
    # the three gather stores precede the remainder kernel call, the byte copy follows it
    order_ok = all(T.order[bb] < T.order[rb] for bb, s_, t, v in st if show(t).split('[')[0] in ('y', 'cb', 'cr')) and all(T.order[bb] > T.order[rb] for bb, s_, t, v in st if show(t).startswith('rgba['))
    if order_ok: ck.ok('R', 'gather, then kernel, then byte copy', where_of(b, rb))
    else: ck.violation('R', 'R : yuv420_to_rgba : remainder order', where_of(b, rb), 'the remainder kernel call is not between the gather stores and the byte copy')
    ck.floor('stores in yuv420_to_rgba', len(st), 4)


def c13_cw(N, T, F):
    """the chroma row length term (a function of y_width that equals ceil(y_width/2) everywhere), taken from the chroma slices"""
    W = ('v', 'y_width')
    for bb, t_ in T.g.calls():
        cn = F.callee_name(t_)
        if cn.endswith('::index') and len(t_['args']) == 2 and show(N.n(T.ex(t_['args'][0]))) == 'chroma_b':
            rg = N.n(T.ex(t_['args'][1]))
            lo = rg[2] if rg[0] == 'agg' and rg[1] == 'Range' else None
            if lo is not None and lo[0] == '*':
                rest = [x for x in lo[1:] if not find(x, lambda z: z[0] == 'ix')]
                if rest:
                    cw = mk_mul(rest)
                    if c13.is_half_up(cw, W) is None: return cw
    return None
