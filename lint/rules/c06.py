"""C06 - picture headers are parsed field-for-field as H.263 clause 5.1 / Sorenson Spark define them.

Decided statically, for every combination of header field values at once: each header sub-parser is turned into a decision
table by lint/bitslice.py (reads with widths and presence conditions; every leaf of every returned value with the condition
it is returned under; flags with the condition they are inserted under), and the table is compared - as Boolean functions
over bit slices of the reads, not as text - with the table below, which is written from the standard, not from the code.
"""
import re
from ..bitslice import (Table, TRUE, FALSE, one, dnf_and, dnf_or, dnf_not, dnf_diff, fmt_cond, TooBig, READS, S_open, CoSet)
from ..report import where_of
from ..facts import Unanalysable

P = 'h263_rs::parser::picture::'


# ---------------------------------------------------------------------------------------------------
# condition language of the tables:   r1[7:6]==2 & r1[2:0] in {1,2,3} | !(`decoder_options has X`) & r9.1 is None/Some
_TOK = re.compile(r'\s*(\(|\)|\||&|/|!(?!=)|`[^`]*`|[A-Za-z_][\w.]*(?:\[\d+(?::\d+)?\])?|==|!=|<=|>=|=|<|>|\{[^}]*\}|\d+)')


class Cond:
    def __init__(self, text, table):
        self.toks = []
        pos = 0
        text = text.strip()
        while pos < len(text):
            m = _TOK.match(text, pos)
            if not m: raise ValueError('cannot read condition %r at %d' % (text, pos))
            self.toks.append(m.group(1)); pos = m.end()
        self.i = 0; self.t = table

    def universe(self, names):
        if set(names) <= {'None', 'Some'}: return ('None', 'Some')
        if set(names) <= {'Ok', 'Err'}: return ('Ok', 'Err')
        for k, adt in sorted(self.t.F.adts.items()):
            if adt.get('kind') == 'enum' and set(names) <= {v['name'] for v in adt['variants']}:
                return tuple(v['name'] for v in adt['variants'])
        raise ValueError('no enum has the variants %s' % (names,))

    def peek(self): return self.toks[self.i] if self.i < len(self.toks) else None
    def next(self):
        t = self.peek(); self.i += 1; return t

    def expr(self):
        r = self.term()
        while self.peek() == '|':
            self.next(); r = dnf_or(r, self.term())
        return r

    def term(self):
        r = self.factor()
        while self.peek() == '&':
            self.next(); r = dnf_and(r, self.factor())
        return r

    def factor(self):
        t = self.next()
        if t == '(':
            r = self.expr()
            if self.next() != ')': raise ValueError('missing )')
            return r
        if t == '!': return dnf_not(self.factor())
        if t == 'true': return TRUE
        if t == 'false': return FALSE
        if t.startswith('`') and self.peek() in ('==', '!='):
            # `value`==c on an integer value that is not a read: a decision on the value itself (universe unknown)
            op = self.next(); c = int(self.next())
            d = one(S_open(t[1:-1], [c]))
            return d if op == '==' else dnf_not(d)
        if t.startswith('`') and self.peek() != 'is': return one(('A', t[1:-1], True))
        if t.startswith('`'): t = t[1:-1]        # `any expression` is A/B : a variant test on a value that is not a plain name
        nxt = self.peek()
        if nxt == 'is':
            self.next()
            names = [self.next()]
            while self.peek() == '/':
                self.next(); names.append(self.next())
            return one(('V', t, self.universe(names), frozenset(names)))
        m = re.match(r'^r(\d+)(?:\[(\d+)(?::(\d+))?\])?$', t)
        if m and nxt in ('==', '!=', '=', '<', '<=', '>', '>=', 'in', 'not'):
            k = int(m.group(1))
            if m.group(2) is None:
                w = self.t.read_width(k)
                n = (1 << w) if w is not None and w <= 24 else None
            else:
                hi = int(m.group(2)); lo = int(m.group(3)) if m.group(3) is not None else hi
                n = 1 << (hi - lo + 1)
            op = self.next()
            neg = False
            if op == 'not':
                neg = True; op = self.next()
            if op == 'in':
                vals = frozenset(int(x) for x in self.next().strip('{}').split(',') if x.strip())
            else:
                c = int(self.next())
                if n is None:
                    if op in ('==', '='): vals = frozenset([c])
                    elif op == '!=': vals = frozenset([c]); neg = True
                    else: raise ValueError('ordering on a read of unknown width')
                else:
                    f = {'==': lambda v: v == c, '=': lambda v: v == c, '!=': lambda v: v != c, '<': lambda v: v < c, '<=': lambda v: v <= c,
                         '>': lambda v: v > c, '>=': lambda v: v >= c}[op]
                    vals = frozenset(v for v in range(n) if f(v))
            if n is not None and neg: vals = frozenset(range(n)) - vals; neg = False
            if n is not None:
                if not vals: return FALSE
                if len(vals) == n: return TRUE
            d = one(('S', t, n, vals)) if n is not None else one(S_open(t, vals))
            return dnf_not(d) if neg else d
        return one(('A', t, True))


def parse(text, table, rename):
    text = re.sub(r'\br(\d+)\b', lambda m: 'r%d' % rename[int(m.group(1))], text)
    text = text.replace('/', ' / ')
    c = Cond(text, table)
    # `/` separates variant names
    c.toks = [t for t in c.toks]
    r = c.expr()
    if c.peek() is not None: raise ValueError('trailing %r in %r' % (c.peek(), text))
    return r


# ---------------------------------------------------------------------------------------------------
# The tables.  rN = N-th consuming call of the function in bitstream order; r[hi:lo] a bit slice (bit 0 = last bit read).
def _flags(cond_all, **kw):
    d = {'': cond_all}
    d.update(kw)
    return d


def _bits(base, read, table):
    return {name: '%s & %s[%d]=1' % (base, read, bit) for name, bit in table.items()}


_PT_HDR = 'r1[7:6]==2'                       # PTYPE bits 1-2 = "10"
_PT_OK = _PT_HDR + ' & r1[2:0]!=0'
_PT_TWO = _PT_HDR + ' & r1[2:0] in {1,2,3,4,5,6}'
_PP_MID = '(r1==0 | r1==1 & r2[3:0]==8)'
_PP_OK = _PP_MID + ' & r3[2:0]==1'
_PP_OP = 'r1==1 & r2[3:0]==8 & r3[2:0]==1'
_PP_NOP = 'r1==0 & r3[2:0]==1'
_CF_OK = 'r1[9]=1 & r1[22:19]!=0 & (r1[22:19]!=15 | r2!=0 & r3!=0)'
_FMT = {'SubQcif': 1, 'QuarterCif': 2, 'FullCif': 3, 'FourCif': 4, 'SixteenCif': 5}

SPEC = {
    # 5.1.3 PTYPE: bits 1-2 "10", 3 split screen, 4 document camera, 5 freeze release, 6-8 source format (000 forbidden,
    # 111 extended PTYPE), then 9 coding type (0 INTRA, 1 INTER), 10 UMV, 11 SAC, 12 AP, 13 PB-frames
    'decode_ptype': {
        'reads': [('read_u8', '8', 'true'), ('read_bits', '5', _PT_TWO)],
        'ret': {
            'Err': {'InvalidPType': '!(%s) | %s & r1[2:0]==0' % (_PT_HDR, _PT_HDR)},
            'Ok.0|flags': _flags(_PT_OK, USE_SPLIT_SCREEN=_PT_OK + ' & r1[5]=1', USE_DOCUMENT_CAMERA=_PT_OK + ' & r1[4]=1',
                                 RELEASE_FULL_PICTURE_FREEZE=_PT_OK + ' & r1[3]=1', UNRESTRICTED_MOTION_VECTORS=_PT_TWO + ' & r2[3]=1',
                                 SYNTAX_BASED_ARITHMETIC_CODING=_PT_TWO + ' & r2[2]=1', ADVANCED_PREDICTION=_PT_TWO + ' & r2[1]=1'),
            'Ok.1': {'None': _PT_HDR + ' & r1[2:0]==7'},
            'Ok.1.Some.0': dict([(k, '%s & r1[2:0]==%d' % (_PT_HDR, v)) for k, v in _FMT.items()] + [('Reserved', _PT_HDR + ' & r1[2:0]==6')]),
            'Ok.1.Some.1': {'IFrame': _PT_TWO + ' & r2[4]=0 & r2[0]=0', 'PFrame': _PT_TWO + ' & r2[4]=1 & r2[0]=0', 'PbFrame': _PT_TWO + ' & r2[0]=1'},
        },
    },
    # 5.1.4 PLUSPTYPE: UFEP (000 / 001), OPPTYPE (18 bits, ends "1000"), MPPTYPE (9 bits, ends "001")
    'decode_plusptype': {
        'reads': [('read_bits', '3', 'true'), ('read_bits', '18', 'r1==1'), ('read_bits', '9', _PP_MID)],
        'ret': {
            'Err': {'InvalidPlusPType': '!(r1 in {0,1}) | r1==1 & r2[3:0]!=8 | %s & r3[2:0]!=1' % _PP_MID},
            'Ok.0|flags': _flags(_PP_OK,
                                 **dict(list(_bits(_PP_OP, 'r2', {'UNRESTRICTED_MOTION_VECTORS': 13, 'SYNTAX_BASED_ARITHMETIC_CODING': 12, 'ADVANCED_PREDICTION': 11,
                                                                 'ADVANCED_INTRA_CODING': 10, 'DEBLOCKING_FILTER': 9, 'SLICE_STRUCTURED': 8, 'REFERENCE_PICTURE_SELECTION': 7,
                                                                 'INDEPENDENT_SEGMENT_DECODING': 6, 'ALTERNATIVE_INTER_VLC': 5, 'MODIFIED_QUANTIZATION': 4}).items())
                                        + list(_bits(_PP_OK, 'r3', {'REFERENCE_PICTURE_RESAMPLING': 5, 'REDUCED_RESOLUTION_UPDATE': 4, 'ROUNDING_TYPE_ONE': 3}).items())
                                        + [('bitand(deref(static OPPTYPE_OPTIONS), previous_picture_options)', _PP_NOP)])),
            'Ok.1': {'None': '%s | %s & r2[17:15]==6' % (_PP_NOP, _PP_OP)},
            'Ok.1.Some': dict([(k, '%s & r2[17:15]==%d' % (_PP_OP, v)) for k, v in _FMT.items()] + [('Reserved', _PP_OP + ' & r2[17:15] in {0,7}')]),
            'Ok.2': dict((k, '%s & r3[8:6]==%d' % (_PP_OK, v)) for k, v in
                         {'IFrame': 0, 'PFrame': 1, 'ImprovedPbFrame': 2, 'BFrame': 3, 'EiFrame': 4, 'EpFrame': 5}.items()),
            'Ok.2.Reserved': {'r3[8:6]': _PP_OK + ' & r3[8:6] in {6,7}'},
            'Ok.3|flags': _flags(_PP_OK, HAS_CUSTOM_FORMAT=_PP_OP + ' & r2[17:15]==6', HAS_CUSTOM_CLOCK=_PP_OP + ' & r2[14]=1',
                                 HAS_MOTION_VECTOR_RANGE=_PP_OP + ' & r2[13]=1', HAS_SLICE_STRUCTURED_SUBMODE=_PP_OP + ' & r2[8]=1',
                                 HAS_REFERENCE_PICTURE_SELECTION_MODE=_PP_OP + ' & r2[7]=1',
                                 HAS_REFERENCE_LAYER_NUMBER=_PP_OP + ' & `decoder_options has USE_SCALABILITY_MODE`'),
            'Ok.4': {'0': _PP_NOP, '1': _PP_OP},
        },
        'statics': {'parser::picture::OPPTYPE_OPTIONS': ['UNRESTRICTED_MOTION_VECTORS', 'SYNTAX_BASED_ARITHMETIC_CODING', 'ADVANCED_PREDICTION', 'ADVANCED_INTRA_CODING',
                                                        'DEBLOCKING_FILTER', 'SLICE_STRUCTURED', 'REFERENCE_PICTURE_SELECTION', 'INDEPENDENT_SEGMENT_DECODING',
                                                        'ALTERNATIVE_INTER_VLC', 'MODIFIED_QUANTIZATION']},
    },
    # Sorenson Spark: 3-bit size code (0: 8-bit w,h; 1: 16-bit w,h; 2 CIF 3 QCIF 4 SQCIF 5 320x240 6 160x120), 2-bit type, deblocking flag
    'decode_sorenson_ptype': {
        'reads': [('read_bits', '3', 'true'), ('read_bits', {'8': 'r1==0', '16': 'r1==1'}, 'r1 in {0,1}'),
                  ('read_bits', {'8': 'r1==0', '16': 'r1==1'}, 'r1 in {0,1}'), ('read_bits', '2', 'true'), ('read_bits', '1', 'true')],
        'ret': {
            'Ok.0': {'FullCif': 'r1==2', 'QuarterCif': 'r1==3', 'SubQcif': 'r1==4', 'Reserved': 'r1==7'},
            'Ok.0.Extended.CustomPictureFormat.0': {'Square': 'r1 in {0,1,5,6}'},
            'Ok.0.Extended.CustomPictureFormat.1': {'r2': 'r1 in {0,1}', '320': 'r1==5', '160': 'r1==6'},
            'Ok.0.Extended.CustomPictureFormat.2': {'r3': 'r1 in {0,1}', '240': 'r1==5', '120': 'r1==6'},
            'Ok.1': {'IFrame': 'r4==0', 'PFrame': 'r4==1', 'DisposablePFrame': 'r4==2'},
            'Ok.1.Reserved': {'r4': 'r4==3'},
            'Ok.2|flags': _flags('true', USE_DEBLOCKER='r5=1'),
        },
    },
    'decode_cpm_and_psbi': {
        'reads': [('read_bits', '1', 'true'), ('read_bits', '2', 'r1=1')],
        'ret': {'Ok': {'None': 'r1=0'}, 'Ok.Some': {'r2': 'r1=1'}},
    },
    # 5.1.5 CPFMT: bits 1-4 PAR, 5-13 PWI (width = (PWI+1)*4), 14 "1", 15-23 PHI (height = PHI*4); 5.1.6 EPAR
    'decode_cpfmt': {
        'reads': [('read_bits', '23', 'true'), ('read_u8', '8', 'r1[9]=1 & r1[22:19]==15'), ('read_u8', '8', 'r1[9]=1 & r1[22:19]==15')],
        'ret': {
            'Err': {'PictureFormatInvalid': 'r1[9]=0 | r1[22:19]==0 | r1[9]=1 & r1[22:19]==15 & (r2==0 | r3==0)'},
            'Ok.CustomPictureFormat.0': dict((k, 'r1[9]=1 & r1[22:19]==%d' % v) for k, v in
                                             {'Square': 1, 'Par12_11': 2, 'Par10_11': 3, 'Par16_11': 4, 'Par40_33': 5}.items()),
            'Ok.CustomPictureFormat.0.Reserved': {'r1[22:19]': 'r1[9]=1 & r1[22:19] in {6,7,8,9,10,11,12,13,14}'},
            'Ok.CustomPictureFormat.0.Extended.0': {'r2': 'r1[9]=1 & r1[22:19]==15 & r2!=0 & r3!=0'},
            'Ok.CustomPictureFormat.0.Extended.1': {'r3': 'r1[9]=1 & r1[22:19]==15 & r2!=0 & r3!=0'},
            'Ok.CustomPictureFormat.1': {'4*r1[18:10]+4': _CF_OK},
            'Ok.CustomPictureFormat.2': {'4*r1[8:0]': _CF_OK},
        },
    },
    # 5.1.7 CPCFC: bit 1 clock conversion code (1 = 1001), bits 2-8 divisor
    'decode_cpcfc': {
        'reads': [('read_u8', '8', 'true')],
        'ret': {'Ok.CustomPictureClock.0': {'1': 'r1[7]=1', '0': 'r1[7]=0'}, 'Ok.CustomPictureClock.1': {'r1[6:0]': 'true'}},
    },
    # 5.1.9 UUI: "1" / "01"
    'decode_uui': {
        'reads': [('read_bits', '1', 'true'), ('read_bits', '1', 'r1=0')],
        'ret': {'Ok': {'Extended': 'r1=1', 'Unlimited': 'r1=0 & r2=1'}, 'Err': {'InvalidBitstream': 'r1=0 & r2=0'}},
    },
    # 5.1.10 SSS: two flag bits; which of the two bits carries which flag is not decided here (see DESIGN.md)
    'decode_sss': {
        'reads': [('read_bits', '2', 'true')],
        'ret': {'Ok|flags': {'': 'true'}},
        'one_bit_each': ('Ok|flags', 'r1', 2, ['RECTANGULAR_SLICES', 'ARBITRARY_ORDER']),
    },
    # 5.1.11/12 ELNUM, RLNUM (only with OPPTYPE)
    'decode_elnum_rlnum': {
        'reads': [('read_bits', '4', 'true'), ('read_bits', '4', '`followers has HAS_REFERENCE_LAYER_NUMBER`')],
        'ret': {'Ok.ScalabilityLayer.0': {'r1': 'true'}, 'Ok.ScalabilityLayer.1': {'None': '!`followers has HAS_REFERENCE_LAYER_NUMBER`'},
                'Ok.ScalabilityLayer.1.Some': {'r2': '`followers has HAS_REFERENCE_LAYER_NUMBER`'}},
    },
    # 5.1.13 RPSMF: 100 none, 101 ACK, 110 NACK, 111 both; 0xx reserved
    'decode_rpsmf': {
        'reads': [('read_bits', '3', 'true')],
        'ret': {'Ok|flags': _flags('true', RESERVED='r1[2]=0', REQUEST_NEGATIVE_ACKNOWLEDGEMENT='r1[1]=1', REQUEST_ACKNOWLEDGEMENT='r1[0]=1')},
    },
    'decode_trpi': {
        'reads': [('read_bits', '1', 'true'), ('read_bits', '10', 'r1=1')],
        'ret': {'Ok': {'None': 'r1=0'}, 'Ok.Some': {'r2': 'r1=1'}},
    },
    # 5.1.16 BCI: "1" (message follows: not implemented) / "01"
    'decode_bcm': {
        'reads': [('read_bits', '1', 'true'), ('read_bits', '1', 'r1=0')],
        'ret': {'Ok': {'None': 'r1=0 & r2=1'}, 'Err': {'UnimplementedDecoding': 'r1=1', 'InvalidBitstream': 'r1=0 & r2=0'}},
    },
    'decode_rprp': {'reads': [], 'ret': {'Err': {'UnimplementedDecoding': 'true'}}},
    # 5.1.22 TRB: 3 bits, 5 with a custom picture clock
    'decode_trb': {
        'reads': [('read_bits', '5', '`has_custom_pclk`'), ('read_bits', '3', '!`has_custom_pclk`')],
        'ret': {'': {'result(r1)': '`has_custom_pclk`', 'result(r2)': '!`has_custom_pclk`'}},
    },
    'decode_dbquant': {
        'reads': [('read_bits', '2', 'true')],
        'ret': {'Ok': {'Five': 'r1==0', 'Six': 'r1==1', 'Seven': 'r1==2', 'Eight': 'r1==3'}},
    },
}

# decode_picture: order and presence of every consuming call, then the assembled record (field index = declaration order of types::Picture)
_SOR = '`decoder_options has SORENSON_SPARK_BITSTREAM`'
_STD = '!%s & r3==0' % _SOR
_PLUS = _STD + ' & r9.1 is None'
_NOPLUS = _STD + ' & r9.1 is Some'
_RPS = '(%s & `r10.0 has REFERENCE_PICTURE_SELECTION` | %s & `r9.0 has REFERENCE_PICTURE_SELECTION`)' % (_PLUS, _STD)
_RPR = '(%s & `r10.0 has REFERENCE_PICTURE_RESAMPLING` | %s & `r9.0 has REFERENCE_PICTURE_RESAMPLING`)' % (_PLUS, _STD)
_DIFF = ('previous_picture is Some & (%s & !`r10.3 has HAS_CUSTOM_FORMAT` & `fmtdiff(r10.1)` | %s & `r10.3 has HAS_CUSTOM_FORMAT` & '
         '`fmtdiff(Some(Extended(r12)))` | %s & `fmtdiff(Some(r9.1.as1.0.0))`)' % (_PLUS, _PLUS, _NOPLUS))
_RPRP = '%s & (%s | %s)' % (_STD, _RPR, _DIFF)
_PB = '(%s & r10.2 is PbFrame/ImprovedPbFrame | %s & r9.1.as1.0.1 is PbFrame/ImprovedPbFrame)' % (_PLUS, _NOPLUS)
PICTURE_FIELDS = ['version', 'temporal_reference', 'format', 'options', 'has_plusptype', 'has_opptype', 'picture_type', 'motion_vector_range', 'slice_submode',
                  'scalability_layer', 'reference_picture_selection_mode', 'prediction_reference', 'backchannel_message', 'reference_picture_resampling',
                  'quantizer', 'multiplex_bitstream', 'pb_reference', 'pb_quantizer', 'extra']


def _fol(f): return '%s & `r10.3 has %s`' % (_PLUS, f)


def _pic(**kw):
    return dict(('Ok.Some.Picture.%d%s' % (PICTURE_FIELDS.index(k.split('__')[0]), ''.join('.' + x for x in k.split('__')[1:])), v) for k, v in kw.items())


SPEC_PICTURE = {
    'reads': [
        ('recognize_start_code', None, 'true'),
        ('skip_bits', 'Add(17, some(r1 or MiddleOfBitstream))', 'true'),
        ('read_bits', '5', 'true'),                                         # r3: GN / Sorenson version
        ('read_u8', '8', _SOR), ('decode_sorenson_ptype', None, _SOR), ('read_bits', '5', _SOR), ('decode_pei', None, _SOR),      # r4..r7
        ('read_u8', '8', _STD), ('decode_ptype', None, _STD),               # r8 TR, r9 PTYPE
        ('decode_plusptype', None, _PLUS), ('decode_cpm_and_psbi', None, _PLUS),                                               # r10, r11
        ('decode_cpfmt', None, _fol('HAS_CUSTOM_FORMAT')), ('decode_cpcfc', None, _fol('HAS_CUSTOM_CLOCK')), ('read_bits', '2', _fol('HAS_CUSTOM_CLOCK')),   # r12..r14
        ('decode_uui', None, _fol('HAS_MOTION_VECTOR_RANGE')), ('decode_sss', None, _fol('HAS_SLICE_STRUCTURED_SUBMODE')),  # r15, r16
        ('decode_elnum_rlnum', None, _STD + ' & `decoder_options has USE_SCALABILITY_MODE`'),                                  # r17
        ('decode_rpsmf', None, _fol('HAS_REFERENCE_PICTURE_SELECTION_MODE')), ('decode_trpi', None, _RPS), ('decode_bcm', None, _RPS),   # r18..r20
        ('decode_rprp', None, _RPRP),                                         # r21: RPR mode, or a previous picture exists and its format differs from this one's (closure checked by rule A)
        ('read_bits', '5', _STD),                                           # r22 PQUANT
        ('decode_cpm_and_psbi', None, _NOPLUS),                             # r23
        ('decode_trb', None, _PB), ('decode_dbquant', None, _PB),           # r24, r25
        ('decode_pei', None, _STD),                                         # r26
    ],
    'ret': dict(list({
        'Ok': {'None': '!%s & r3!=0' % _SOR},
    }.items()) + list(_pic(
        version={'None': _STD}, version__Some={'r3': _SOR},
        temporal_reference={'r4': _SOR, 'r8': '%s | %s & !`r10.3 has HAS_CUSTOM_CLOCK`' % (_NOPLUS, _PLUS), 'BitOr(256*r14, r8)': _fol('HAS_CUSTOM_CLOCK')},
        format={'r10.1': _PLUS + ' & !`r10.3 has HAS_CUSTOM_FORMAT`'},
        format__Some={'r5.0': _SOR, 'r9.1.as1.0.0': _NOPLUS}, format__Some__Extended={'r12': _fol('HAS_CUSTOM_FORMAT')},
        options={'r5.2': _SOR},
        has_plusptype={'0': '%s | %s' % (_SOR, _NOPLUS), '1': _PLUS},
        has_opptype={'0': '%s | %s' % (_SOR, _NOPLUS), 'r10.4': _PLUS},
        picture_type={'r5.1': _SOR, 'r9.1.as1.0.1': _NOPLUS, 'r10.2': _PLUS},
        motion_vector_range={'None': '%s | %s & !`r10.3 has HAS_MOTION_VECTOR_RANGE`' % (_NOPLUS, _PLUS)},
        motion_vector_range__Some={'Unlimited': _SOR, 'r15': _fol('HAS_MOTION_VECTOR_RANGE')},
        slice_submode={'None': '%s | %s | %s & !`r10.3 has HAS_SLICE_STRUCTURED_SUBMODE`' % (_SOR, _NOPLUS, _PLUS)},
        slice_submode__Some={'r16': _fol('HAS_SLICE_STRUCTURED_SUBMODE')},
        scalability_layer={'None': '%s | %s & !`decoder_options has USE_SCALABILITY_MODE`' % (_SOR, _STD)},
        scalability_layer__Some={'r17': _STD + ' & `decoder_options has USE_SCALABILITY_MODE`'},
        reference_picture_selection_mode={'None': '%s | %s | %s & !`r10.3 has HAS_REFERENCE_PICTURE_SELECTION_MODE`' % (_SOR, _NOPLUS, _PLUS)},
        reference_picture_selection_mode__Some={'r18': _fol('HAS_REFERENCE_PICTURE_SELECTION_MODE')},
        prediction_reference={'None': '%s | %s & !%s' % (_SOR, _STD, _RPS), 'r19': _RPS},
        backchannel_message={'None': '%s | %s & !%s' % (_SOR, _STD, _RPS), 'r20': _RPS},
        quantizer={'r6': _SOR, 'r22': _STD},
        multiplex_bitstream={'None': _SOR, 'r11': _PLUS, 'r23': _NOPLUS},
        pb_reference={'None': '%s | %s & !%s' % (_SOR, _STD, _PB)}, pb_reference__Some={'r24': _PB},
        pb_quantizer={'None': '%s | %s & !%s' % (_SOR, _STD, _PB)}, pb_quantizer__Some={'r25': _PB},
        extra={'r7': _SOR, 'r26': _STD},
    ).items())),
    'flags': {'Ok.Some.Picture.3|flags': {'': _STD, 'r9.0': _STD, 'r10.0': _PLUS}},
    'skip': ['Ok.Some.Picture.13'],          # reference_picture_resampling: decode_rprp never succeeds
    # what the sub-parsers that take more than the reader are handed (rule G): argument position -> {value: condition}
    'args': {
        # OPPTYPE semantics need the decoder options and the options in force in the previous picture (none: the empty set)
        'decode_plusptype': {1: {'decoder_options': _PLUS}, 2: 'PREVIOUS_OPTIONS'},
        # RLNUM is present iff PLUSPTYPE announced it: the follower set of this picture's PLUSPTYPE, empty without PLUSPTYPE
        'decode_elnum_rlnum': {1: {'r10.3': _PLUS + ' & `decoder_options has USE_SCALABILITY_MODE`', 'empty()': _NOPLUS + ' & `decoder_options has USE_SCALABILITY_MODE`'}},
        # 5.1.22: TRB is 5 bits iff a custom picture clock frequency is in use (CPCFC present in this header), 3 bits otherwise
        'decode_trb': {1: {'1': '%s & r10.2 is PbFrame/ImprovedPbFrame & `r10.3 has HAS_CUSTOM_CLOCK`' % _PLUS,
                           '0': '%s & r10.2 is PbFrame/ImprovedPbFrame & !`r10.3 has HAS_CUSTOM_CLOCK` | %s & r9.1.as1.0.1 is PbFrame/ImprovedPbFrame' % (_PLUS, _NOPLUS)}},
    },
}


# ---------------------------------------------------------------------------------------------------
def match_reads(ck, T, fn, spec_reads, b):
    """map the table's reads (numbered in bitstream order) onto the function's consuming calls; returns {spec k: code k} or None"""
    rows = T.read_rows()
    used = set()
    rename = {}
    ok = True
    for i, (callee, width, cond) in enumerate(spec_reads):
        k_spec = i + 1
        found = None
        why = []
        for (k, c_callee, ws, c_cond) in rows:
            if k in used or c_callee != callee: continue
            rename_try = dict(rename); rename_try[k_spec] = k
            try:
                if cond is not None:
                    want = parse(cond, T, _identity_for(rename_try, len(spec_reads)))
                    d = dnf_diff(want, c_cond)
                    if d is not None:
                        why.append('call #%d executes under [%s], the standard requires [%s] (differs at %s)' % (k, fmt_cond(c_cond), fmt_cond(want), _wit(d)))
                        continue
                if width is not None:
                    wt = width if isinstance(width, dict) else {width: 'true'}
                    got = dict(ws)
                    bad = None
                    for w_txt, w_cond in wt.items():
                        w_txt2 = re.sub(r'\br(\d+)\b', lambda m: 'r%d' % rename_try.get(int(m.group(1)), 0), w_txt)
                        base = parse(cond, T, _identity_for(rename_try, len(spec_reads))) if cond is not None else c_cond
                        wantc = dnf_and(base, parse(w_cond, T, _identity_for(rename_try, len(spec_reads))))
                        gotc = got.get(w_txt2, FALSE)
                        d = dnf_diff(wantc, gotc)
                        if d is not None:
                            bad = 'call #%d reads width %s under [%s], the standard requires width %s under [%s]' % (
                                k, ', '.join('%s if %s' % (a, fmt_cond(c_)) for a, c_ in ws) or '?', '', w_txt2, fmt_cond(wantc))
                            break
                    if bad is None and set(got) - set(re.sub(r'\br(\d+)\b', lambda m: 'r%d' % rename_try.get(int(m.group(1)), 0), w) for w in wt):
                        bad = 'call #%d also reads widths %s' % (k, sorted(set(got) - set(wt)))
                    if bad:
                        why.append(bad); continue
            except (ValueError, KeyError, TooBig) as e:
                why.append('call #%d: %s' % (k, e)); continue
            found = k; break
        if found is None:
            ok = False
            ck.violation('R', 'R : %s : read %d (%s%s)' % (fn, k_spec, callee, ' %s' % (width if not isinstance(width, dict) else '/'.join(sorted(width))) if width else ''), where_of(b),
                         'no consuming call of %s matches read %d of the header table: %s' % (fn, k_spec, '; '.join(why) or 'no %s call left' % callee))
            rename[k_spec] = 0
        else:
            used.add(found); rename[k_spec] = found
            ck.ok('R', '%s: read %d = %s%s under [%s]' % (fn, k_spec, callee, '' if width is None else ' width %s' % (width,), cond), where_of(b))
    for (k, c_callee, ws, c_cond) in rows:
        if k not in used:
            ok = False
            ck.violation('R', 'R : %s : extra %s' % (fn, c_callee), where_of(b), '%s consumes bits the header table does not have: call #%d %s %s under [%s]' % (
                fn, k, c_callee, ', '.join(a for a, _ in ws), fmt_cond(c_cond)))
    # bitstream order: a later read of the table is never executed before an earlier one
    order = [rename[i + 1] for i in range(len(spec_reads)) if rename.get(i + 1)]
    for a, b_ in zip(order, order[1:]):
        ba, bb = T.reads[a - 1][0], T.reads[b_ - 1][0]
        if bb in T.g.reachable_from([ba]) or ba not in T.g.reachable_from([bb]): continue
        ok = False
        ck.violation('R', 'R : %s : order of %s and %s' % (fn, T.reads[a - 1][1], T.reads[b_ - 1][1]), where_of(b),
                     'call #%d (%s) can execute after call #%d (%s) but the bitstream has them the other way round' % (a, T.reads[a - 1][1], b_, T.reads[b_ - 1][1]))
    return rename if ok else None


def _identity_for(rename, n):
    d = {i: 0 for i in range(1, n + 1)}
    d.update(rename)
    return d


def _wit(d):
    env, a, b = d
    return ', '.join('%s=%s' % (k, v) for k, v in sorted(env.items(), key=lambda kv: str(kv[0])))


def compare_rows(ck, T, fn, spec_ret, rename, b, skip=(), skip_vals=(), rule='T'):
    rows = T.return_rows()
    n = len(rename)
    def ren(txt):
        return re.sub(r'\br(\d+)\b', lambda m: 'r%d' % rename.get(int(m.group(1)), 0), txt)
    seen = set()
    for path, vals in sorted(spec_ret.items()):
        got = rows.get(path, {})
        for val, cond in sorted(vals.items()):
            v2 = ren(val)
            seen.add((path, v2))
            want = parse(cond, T, rename)
            have = got.get(v2, FALSE)
            try:
                d = dnf_diff(want, have)
            except TooBig as e:
                ck.unanalysable('%s: %s = %s too large to compare' % (fn, path, val), str(e)); continue
            what = '%s%s%s' % (path.replace('|flags', ' contains ' if val else ' (flag set) is returned'), '' if path.endswith('|flags') else ' = ', v2)
            if d is None:
                ck.ok(rule, '%s: %s  <=>  %s' % (fn, what, fmt_cond(want)), where_of(b))
            else:
                env, a_, b_ = d
                ck.violation(rule, '%s : %s : %s' % (rule, fn, what), where_of(b),
                             '%s yields %s under [%s]; H.263 / Sorenson define it under [%s]. They differ e.g. at %s (standard: %s, code: %s)' % (
                                 fn, what, fmt_cond(have), fmt_cond(want), _wit(d), a_, b_))
    for path, vals in sorted(rows.items()):
        if path in skip: continue
        for val, cond in sorted(vals.items()):
            if (path, val) in seen or val in skip_vals: continue
            ck.violation(rule, '%s : %s : %s = %s (not in the table)' % (rule, fn, path, val or '<set>'), where_of(b),
                         '%s can return %s %s under [%s], which the header table does not contain' % (fn, path, val, fmt_cond(cond)))


def one_bit_each(ck, T, fn, spec, rename, b):
    path, read, width, flags = spec
    rows = T.return_rows().get(path, {})
    rd = re.sub(r'\br(\d+)\b', lambda m: 'r%d' % rename.get(int(m.group(1)), 0), read)
    bits = {}
    for f in flags:
        c = rows.get(f, FALSE)
        hit = None
        for bit in range(width):
            if dnf_diff(c, one(('S', '%s[%d]' % (rd, bit), 2, frozenset([1])))) is None: hit = bit
        if hit is None:
            ck.violation('T', 'T : %s : %s' % (fn, f), where_of(b), '%s inserts %s under [%s], not under exactly one bit of the %d-bit field' % (fn, f, fmt_cond(c), width))
        else:
            bits[f] = hit
            ck.ok('T', '%s: %s <=> %s[%d] = 1 (which flag sits on which bit is not decided)' % (fn, f, rd, hit), where_of(b))
    if len(set(bits.values())) != len(bits):
        ck.violation('T', 'T : %s : distinct bits' % fn, where_of(b), 'two flags of %s are driven by the same bit: %s' % (fn, bits))
    extra = set(rows) - set(flags) - {''}
    if extra:
        ck.violation('T', 'T : %s : extra flags' % fn, where_of(b), 'unexpected insertions %s' % sorted(extra))


def rename_atoms(dnf, f):
    """the DNF with every atom text passed through f (canonical names for atoms that different spellings of one test produce)"""
    out = set()
    for c in dnf:
        out.add(frozenset((('A', f(d[1]), d[2]) if d[0] == 'A' else d) for d in c))
    return frozenset(out)


def _assume_false(dnf, pred):
    """dnf restricted to the assignments on which every atom matching pred is false"""
    out = set()
    for c in dnf:
        keep = True; lits = []
        for d in c:
            if d[0] == 'A' and pred(d[1]):
                if d[2]: keep = False; break
                continue
            lits.append(d)
        if keep: out.add(frozenset(lits))
    from ..bitslice import simplify
    return simplify(frozenset(out)) if out else FALSE


class View:
    """a Table seen through (a) VLC table operands by name and (b) an assumption that some atoms are false"""
    def __init__(self, T, pred=None, rename=None):
        self.T = T; self.pred = pred; self.rename = rename
    def __getattr__(self, k): return getattr(self.T, k)
    def _c(self, d):
        if self.rename: d = rename_atoms(d, self.rename)
        return _assume_false(d, self.pred) if self.pred else d
    def read_rows(self):
        out = []
        for k, callee, ws, c in self.T.read_rows():
            ws2 = [(re.sub(r'^index\((\w+), RangeFull\)$', r'\1', w), self._c(cc)) for w, cc in ws]
            out.append((k, callee, [(w, cc) for w, cc in ws2 if cc], self._c(c)))
        return out
    def return_rows(self, items=None):
        rows = self.T.return_rows(items)
        return {p: {v: self._c(c) for v, c in d.items() if self._c(c)} for p, d in rows.items()}
    def value_rows(self, items): return self.return_rows(items)


def static_flags(F, name):
    """flag names OR-ed together in the initialiser of a lazy_static PictureOption set"""
    out = None
    for bn, body in F.bodies.items():
        if name.split('::')[-1] in bn and '__static_ref_initialize' in bn and bn.startswith('h263_rs::' + name.rsplit('::', 1)[0]):
            T = Table(F, bn)
            names = set()
            def walk(e):
                if not isinstance(e, tuple) or not e: return
                if e[0] == 'item': names.add(str(e[1]).split('::')[-1]); return
                for x in e[1:]:
                    if isinstance(x, tuple): walk(x)
            for d in T.local_defs(0):
                walk(d[2])
            out = (bn, names, T)
    return out


def run(ck, F, tier):
    ck.explanation = ('C06 decided for all header field values at once. Every header sub-parser of h263/src/parser/picture.rs is abstracted from MIR into a decision table: '
                      'its consuming reader calls in bitstream order with widths and presence conditions (rule R), and for every leaf of every value it can return the '
                      'condition under which it returns it (rule T); conditions are DNFs over bit slices of the reads, enum variants of earlier results and named atoms, '
                      'with multi-definition locals resolved through reaching definitions and `|=` modelled as set insertion. Each table is compared semantically '
                      '(equality of Boolean functions, with a concrete distinguishing assignment on mismatch) with the table of H.263 (02/98) clause 5.1 and the Sorenson Spark '
                      'header written in lint/rules/c06.py. decode_picture is checked the same way for the order and presence of every field and for which read feeds which '
                      'field of the returned record (rule A), and for what the sub-parsers that take more than the reader are handed (rule G). Rule I checks the inheritance set OPPTYPE_OPTIONS and the running-options / format fallback logic of '
                      'decoder/state.rs; rule H that DecodedPicture stores the header and format it is given and sizes its planes from that format.')
    ck.assumptions += ['H263Reader::read_bits(n) returns the next n bits MSB first as an unsigned integer (C04/C05 decide the reader); bit i of rK below is bit i of that integer',
                       'distinct associated constants of one bitflags type have disjoint bits (checked by rule B from the constants\' values)',
                       'loops: decode_pei is the only header loop; its table describes one iteration and rule L checks the loop shape',
                       'SSS: which of the two bits carries RECTANGULAR_SLICES is not decided (DESIGN.md 6/C06)']
    ck.rule('R', 'the consuming calls of each header sub-parser are exactly those of the header table: same reader, same width, same presence condition, same order')
    ck.rule('T', 'every value a header sub-parser can return is returned under exactly the condition the header table gives for it (all field values at once)')
    ck.rule('A', 'decode_picture calls the sub-parsers in bitstream order under the presence conditions of 5.1, and each field of the returned Picture is the value read for it')
    n_tables = 0
    for fn, spec in SPEC.items():
        name = P + fn + '::{closure#0}'
        try:
            b = F.body(name)
            T = Table(F, name)
        except (KeyError, Unanalysable) as e:
            ck.violation('R', 'R : %s : missing' % fn, None, 'header sub-parser %s not found (%s)' % (fn, e)); continue
        n_tables += 1
        if T.opaque:
            ck.violation('T', 'T : %s : opaque local' % fn, where_of(b), '%s hands a mutable borrow of a local (%s) to a call the table extractor does not model' % (
                fn, ', '.join(T.names.get(str(l), '_%d' % l) for l in sorted(T.opaque))))
            continue
        rename = match_reads(ck, T, fn, spec['reads'], b)
        if rename is None:
            rename_all = {i + 1: i + 1 for i in range(len(spec['reads']))}
            # still compare the rows with the identity numbering so one wrong read does not hide a wrong field
            if len(T.reads) != len(spec['reads']): continue
            rename = rename_all
        compare_rows(ck, T, fn, spec['ret'], rename, b, skip_vals=spec.get('one_bit_each', (None, None, None, ()))[3])
        if 'one_bit_each' in spec:
            one_bit_each(ck, T, fn, spec['one_bit_each'], rename, b)
    ck.count('header sub-parser tables', n_tables)
    ck.floor('header sub-parser tables', n_tables, 15)

    # ---- PEI loop
    ck.rule('L', 'decode_pei: repeat { 1 bit; if 1 then 8 bits appended } until the bit is 0; the bytes are returned in order')
    pei(ck, F)

    # ---- decode_picture
    picture(ck, F)

    # ---- inheritance and the decoded picture
    from . import c06_state
    c06_state.run(ck, F)

    # "the decoded picture reports exactly these [header] fields": after a successful call get_last_picture() is the picture just built from that header -
    # still there after the clean-up, for disposable pictures too (C04's R1 accessor key, R2 last_picture := its key / inserted under it, R7 clean-up after the updates)
    from . import c04
    from ..report import Scoped
    s04 = Scoped(ck, 'C04.')
    c04.r1_accessors(s04, F)
    try:
        c04.r2_updates(s04, F)
    except Unanalysable as e:
        ck.unanalysable('C04.R2 final section', str(e))


def pei(ck, F):
    name = P + 'decode_pei::{closure#0}'
    b = F.body(name); T = Table(F, name)
    rows = T.read_rows()
    shape = [(c, [w for w, _ in ws], fmt_cond(cond)) for _, c, ws, cond in rows]
    want = [('read_bits', ['1'], 'always'), ('read_u8', ['8'], 'r1=1')]
    if shape != want:
        ck.violation('L', 'L : decode_pei : reads', where_of(b), 'one iteration of decode_pei reads %s, expected %s' % (shape, want)); return
    g = T.g
    back = list(g.back_edges())
    flag_bb, byte_bb = T.reads[0][0], T.reads[1][0]
    ok = True
    # the only way back to the flag read is after the byte read; the only Ok exit is the flag = 0 edge
    if not back or any(h not in g.reachable_from([byte_bb]) or not g.dominates(byte_bb, s) for s, h in back):
        ok = False
        ck.violation('L', 'L : decode_pei : back edge', where_of(b), 'the loop does not repeat exactly after an extension byte was read (back edges %s)' % back)
    heads = {h for _, h in back}
    if ok and not all(g.dominates(h, flag_bb) for h in heads):
        ok = False
        ck.violation('L', 'L : decode_pei : loop head', where_of(b), 'the flag read is not inside the loop')
    ret = T.return_rows()
    okrow = ret.get('Ok', {})
    if list(okrow) != ['$data'] or dnf_diff(okrow['$data'], one(('S', 'r1', 2, frozenset([0])))) is not None:
        ok = False
        ck.violation('L', 'L : decode_pei : exit', where_of(b), 'decode_pei returns %s, expected the collected bytes exactly when the flag bit is 0' % {k: fmt_cond(v) for k, v in okrow.items()})
    # the byte pushed is the byte read
    pushes = [(bb, t) for bb, t in g.calls() if F.callee_name(t).endswith('Vec::<T, A>::push') or F.callee_name(t).endswith('::push')]
    if len(pushes) != 1 or T.show(T.ex(pushes[0][1]['args'][1])) != 'r2' or not g.dominates(byte_bb, pushes[0][0]):
        ok = False
        ck.violation('L', 'L : decode_pei : push', where_of(b), 'the extension byte appended is not the byte just read (%s)' % [T.show(T.ex(t['args'][1])) for _, t in pushes])
    if ok:
        ck.ok('L', 'decode_pei: flag bit r1; r1=1 -> push(read_u8) and repeat; r1=0 -> Ok(bytes)', where_of(b))


def picture_args(ck, F, T, name, b, spec, rename):
    """rule G: every header sub-parser called with more than the reader gets, under each condition, the value the header syntax ties it to"""
    from ..dataflow import expr_of, expr_str
    ck.rule('G', 'the sub-parsers of decode_picture that take more than the reader (decode_plusptype: decoder options and the previous picture\'s options; '
                 'decode_elnum_rlnum: the follower set of this PLUSPTYPE; decode_trb: "custom picture clock in use" = CPCFC present) are handed exactly those values')
    oidx = PICTURE_FIELDS.index('options')
    seen = {}
    class _P_:
        def __init__(s, rows): s.rows = rows
        def __getattr__(s, k): return getattr(T, k)
        def return_rows(s): return s.rows
    for bb, t in T.g.calls():
        cn = F.callee_name(t)
        if not cn.startswith(P.replace('h263_rs::', '')) and not cn.startswith(P): continue
        short = cn.rsplit('::', 1)[-1].split('#')[0]
        if len(t['args']) < 2 or not short.startswith('decode_'): continue
        want = spec.get(short)
        if want is None:
            ck.violation('G', 'G : decode_picture : %s' % short, where_of(b, bb), '%s is called with %d arguments beyond the reader; the table has no entry for it' % (short, len(t['args']) - 1)); continue
        seen[short] = seen.get(short, 0) + 1
        for k, a in enumerate(t['args'][1:], 1):
            w = want.get(k)
            key = '%s argument %d' % (short, k)
            if w is None:
                ck.violation('G', 'G : decode_picture : %s' % key, where_of(b, bb), 'no entry for this argument'); continue
            rows = T.value_rows([(T.ex(a), bb)])
            flat = {}
            for pth, d in rows.items():
                for v, c in d.items():
                    if pth.endswith('|flags'):
                        if v: flat['<set containing %s>' % v] = c       # a flag set built in place: not one of the accepted values
                        continue
                    flat[(pth + '=' if pth else '') + v] = c
            if w == 'PREVIOUS_OPTIONS':
                pc = T.pc(bb)
                ok = False
                if len(flat) == 1:
                    m = re.match(r'^unwrap_or_else\(map\(previous_picture, \{closure#(\d+)\}\), fn empty\)$', list(flat)[0])
                    if m:
                        try:
                            cb = F.body('%s::{closure#%s}' % (name, m.group(1)))
                            ce = expr_of(F, cb, {'o': 'copy', 'p': {'l': 0, 'proj': []}})
                            ok = ce == ('param', 2, (oidx,)) and dnf_diff(list(flat.values())[0], pc) is None
                            if not ok: bad = 'the closure returns %s, expected p.options' % expr_str(ce, cb.get('debug', {}))
                        except (KeyError, Unanalysable) as e:
                            bad = str(e)
                if not ok and len(flat) != 1:
                    # written out: match previous_picture { Some(p) => p.options, None => empty() }
                    try:
                        w2 = {'previous_picture.as1.0.%d' % oidx: '(%s) & previous_picture is Some' % _PLUS, 'empty()': '(%s) & previous_picture is None' % _PLUS}
                        ok = set(flat) == set(w2) and all(dnf_diff(parse(c, T, rename), flat[v]) is None for v, c in w2.items())
                    except (ValueError, KeyError, TooBig):
                        ok = False
                    bad = 'it is %s' % {v: fmt_cond(c) for v, c in flat.items()}
                elif not ok and 'bad' not in dir():
                    bad = 'it is %s' % {v: fmt_cond(c) for v, c in flat.items()}
                if ok: ck.ok('G', '%s = the previous picture\'s options, the empty set when there is none' % key, where_of(b, bb))
                else: ck.violation('G', 'G : decode_picture : %s' % key, where_of(b, bb), '%s must be previous_picture.options (empty without a previous picture): %s' % (key, bad))
                continue
            compare_rows(ck, _P_({key: flat}), 'decode_picture', {key: w}, rename, b, rule='G')
    for short in spec:
        if seen.get(short, 0) != 1:
            ck.violation('G', 'G : decode_picture : %s calls' % short, where_of(b), 'expected one call of %s, found %d' % (short, seen.get(short, 0)))


def picture(ck, F):
    name = P + 'decode_picture::{closure#0}'
    b = F.body(name); T = Table(F, name)
    fn = 'decode_picture'
    spec = SPEC_PICTURE
    if T.opaque:
        ck.violation('A', 'A : decode_picture : opaque local', where_of(b), 'a local is mutated through a call the extractor does not model: %s' % sorted(T.opaque)); return
    # field order of types::Picture (the record leaves are addressed by field index)
    adt = F.adts.get('h263_rs::types::Picture')
    fields = [f['name'] for f in adt['variants'][0]['fields']] if adt and adt.get('variants') else None
    if fields is None and adt: fields = [f['name'] for f in adt.get('fields', [])]
    if fields != PICTURE_FIELDS:
        ck.violation('A', 'A : types::Picture : fields', None, 'types::Picture has fields %s; the table was written for %s' % (fields, PICTURE_FIELDS)); return
    # the format comparison of the RPRP presence condition, in either spelling: previous_picture.map(|p| p.format != format) (closure checked here)
    # or a guard `previous.format != format` on the Some arm; both are read as the atom fmtdiff(<this picture's format>)
    from ..dataflow import expr_of, expr_str, ematch
    fidx = PICTURE_FIELDS.index('format')
    closures = set()
    def canon_atom(txt):
        m = re.match(r'^map\(previous_picture, \{closure#(\d+)\}\((.*)\)\)$', txt)
        if m:
            closures.add(int(m.group(1))); return 'fmtdiff(%s)' % m.group(2)
        m = re.match(r'^ne\(previous_picture\.as1\.0\.%d, (.*)\)$' % fidx, txt)
        if m: return 'fmtdiff(%s)' % m.group(1)
        return txt
    T = View(T, rename=canon_atom)
    T.read_rows()            # collects the closures used
    for k in sorted(closures):
        cn = '%s::{closure#%d}' % (name, k)
        try:
            cb = F.body(cn)
            ce = expr_of(F, cb, {'o': 'copy', 'p': {'l': 0, 'proj': []}})
            up = {v: int(q) for q, v in cb.get('upvars', {}).items()}
            okc = 'format' in up and ematch(('callp', 'PartialEq::ne', ('param', 2, (fidx,)), ('param', 1, (up['format'],))), ce) is not None
            if okc: ck.ok('A', 'RPRP presence: the closure compares the previous picture\'s format with this picture\'s format (p.format != format)', where_of(cb))
            else: ck.violation('A', 'A : decode_picture : format comparison', where_of(cb), 'the closure of the RPRP presence condition is %s, expected p.format != format' % expr_str(ce, cb.get('debug', {})))
        except (KeyError, Unanalysable) as e:
            ck.violation('A', 'A : decode_picture : format comparison missing', where_of(b), 'closure %s not found (%s)' % (cn, e))
    rename = match_reads(ck, T, fn, spec['reads'], b)
    if rename is None: return
    ret = dict(spec['ret']); ret.update(spec['flags'])
    compare_rows(ck, T, fn, ret, rename, b, skip=[re.sub(r'\br(\d+)\b', lambda m: 'r%d' % rename[int(m.group(1))], s) for s in spec['skip']])
    picture_args(ck, F, T, name, b, spec['args'], rename)
    # the start code must be present: `ok_or(MiddleOfBitstream)?` on the recogniser's result is part of read 2's width text (checked above)
    ck.count('decode_picture consuming calls', len(T.reads))
    ck.floor('decode_picture consuming calls', len(T.reads), 26)
