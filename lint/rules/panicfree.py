"""Shared driver for the panic-freedom / termination properties (C01, C16, parts of C13)."""
import json, os
from ..facts import VERIF, Unanalysable
from ..panic import PanicAnalysis, load_contracts
from ..termination import Consumption, classify_loops
from ..report import short_fn


def load_reviewed():
    p = os.path.join(VERIF, 'tables', 'reviewed.json')
    if not os.path.exists(p): return {'reasons': {}, 'sites': []}
    return json.load(open(p))


def site_key(s):
    return 'panic : %s : %s : %s' % (short_fn(s.fn), s.kind, s.fp)


def run_inventory(ck, F, roots, mech_ok, scope, floors=None):
    """mech_ok: {rule id: bool}.  Records one obligation per site."""
    ck.rule('PANIC', 'every Assert terminator (bounds, overflow, division by zero) and every call to a panicking external reachable from the entry points '
                     'is discharged by the interval / option-state reading under the checked contracts, or matches exactly one reviewed-safe entry '
                     'whose required mechanism rules hold')
    ck.rule('CONTRACT', 'every call site establishes the declared range of the callee\'s parameters; every construction establishes declared field ranges')
    PA = PanicAnalysis(F, roots)
    rev = load_reviewed()
    table = {}
    for e in rev['sites']:
        table.setdefault((e['fn'], e['kind'], e['fp']), []).append(e)
    used = set()
    counts = {'sites': 0, 'discharged': 0, 'reviewed': 0, 'violations': 0}
    for s in PA.sites:
        counts['sites'] += 1
        wh = {'file': s.span['file'], 'line': s.span['line'], 'function': s.fn, 'bb': s.bb}
        if s.ok:
            counts['discharged'] += 1
            ck.ok('CONTRACT' if s.kind.startswith('contract:') else 'PANIC', '%s: %s %s' % (short_fn(s.fn), s.kind, s.fp[:100]), wh, nontrivial=True)
            continue
        if s.kind.startswith('contract:'):
            counts['violations'] += 1
            ck.violation('CONTRACT', 'contract : %s : %s' % (short_fn(s.fn), s.kind.split(':', 1)[1]) + (' : ' + s.fp.split('#')[-1] if '#' in s.fp else ''), wh,
                         '%s: %s' % (short_fn(s.fn), s.why))
            continue
        k = (short_fn(s.fn), s.kind, s.fp)
        ents = table.get(k, [])
        if len(ents) == 1:
            e = ents[0]
            r = rev['reasons'].get(e['reason'])
            if r is None:
                ck.violation('PANIC', site_key(s) + ' : unknown reason', wh, 'reviewed entry refers to unknown reason %s' % e['reason']); continue
            broken = [m for m in r.get('requires', []) if not mech_ok.get(m, False)]
            used.add(k)
            if broken:
                counts['violations'] += 1
                ck.violation('PANIC', site_key(s), wh,
                             '%s line %s: %s %s is only safe by "%s", which requires mechanism rule(s) %s - they do not hold on this tree' % (
                                 short_fn(s.fn), s.span['line'], s.kind, s.ops, r['text'][:160], ', '.join(broken)))
            else:
                counts['reviewed'] += 1
                ck.reviewed('PANIC', '%s: %s %s [%s]' % (short_fn(s.fn), s.kind, s.fp[:80], e['reason']), wh, r['text'][:200])
            continue
        counts['violations'] += 1
        ck.violation('PANIC', site_key(s), wh,
                     '%s line %s: possible panic %s with operands %s%s - not discharged and not in the reviewed-safe table' % (
                         short_fn(s.fn), s.span['line'], s.kind, s.ops, (' (' + s.why + ')') if s.why else ''))
    # stale table entries of this scope are reported in the evidence only (a site that disappeared is harmless)
    stale = [k for k in table if k not in used and any(k[0].startswith(p) for p in scope)]
    ck.extra['reviewed_entries_unused'] = ['%s | %s | %s' % k for k in stale][:40]
    for name, why in PA.ctx.unknown_externs.items():
        pass     # already reported as call:unmodelled sites
    for (fn, adt, fi, val, spec) in PA.ctx.field_viol:
        ck.violation('CONTRACT', 'contract : %s : field %s.%s' % (short_fn(fn), adt, fi), None,
                     '%s stores %s into %s.%s, declared range %s' % (short_fn(fn), val, adt, spec.get('name', fi), spec.get('range')))
    ck.count('functions_analysed', len(PA.interps))
    for k, v in counts.items(): ck.count('panic_' + k, v)
    ck.extra['residue'] = {'sites': counts['sites'], 'discharged': counts['discharged'], 'reviewed_safe': counts['reviewed'], 'violations_or_known': counts['violations']}
    if floors:
        ck.floor('panic sites inventoried', counts['sites'], floors.get('sites', 0))
        ck.floor('functions analysed', len(PA.interps), floors.get('functions', 0))
    rec = PA.recursive()
    ck.rule('NOREC', 'no recursion: every strongly connected component of the call graph below the entry points is trivial')
    if rec:
        for comp in rec:
            ck.violation('NOREC', 'norec : %s' % short_fn(sorted(comp)[0]), None, 'recursive call cycle: %s' % ', '.join(short_fn(c) for c in comp))
    else:
        ck.ok('NOREC', 'call graph below the entry points is acyclic (%d functions)' % len(PA.reach))
    return PA


def run_termination(ck, F, PA, floor_loops):
    ck.rule('LOOP', 'every natural loop is driven by a finite iterator, consumes input on every cycle (Ok edge of a must-consume call), '
                    'advances a counter towards a loop-invariant bound, or a lexicographic combination')
    C = Consumption(F)
    ls = classify_loops(F, PA.reach, C)
    n = 0
    for l in ls:
        n += 1
        wh = {'file': F.bodies[l['fn']]['span']['file'], 'line': l['line'], 'function': l['fn'], 'bb': l['header']}
        if l['kind'] == 'unclassified':
            ck.violation('LOOP', 'loop : %s : header %s' % (short_fn(l['fn']), _loop_ordinal(ls, l)), wh,
                         '%s: the loop at line %s has no termination argument (not a finite iterator, some cycle consumes no input, no monotone counter)' % (short_fn(l['fn']), l['line']))
        else:
            ck.ok('LOOP', '%s line %s: %s - %s' % (short_fn(l['fn']), l['line'], l['kind'], l['detail'][:120]), wh)
    ck.count('loops', n)
    ck.floor('loops classified', n, floor_loops)
    ck.extra['loops'] = {}
    for l in ls: ck.extra['loops'][l['kind']] = ck.extra['loops'].get(l['kind'], 0) + 1


def _loop_ordinal(ls, l):
    same = [x for x in ls if x['fn'] == l['fn']]
    return same.index(l)
