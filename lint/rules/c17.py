"""C17 - decoding is deterministic and decoder instances are independent.

Decided structurally: there is no shared mutable state (S1-S3), no source of nondeterminism is called (S4),
and the per-instance types own all their data (S5).  With these, safe Rust's aliasing rules give data-race
freedom between instances and every result is a function of (options, byte history).
"""
import re
from ..facts import is_test_fn, Unanalysable
from ..cfg import cfg_of
from ..callgraph import callgraph
from .. import effects
from ..report import where_of, short_fn

HASHMAP_ALLOWED = {'new', 'get', 'insert', 'remove', 'remove_entry', 'len', 'contains_key', 'get_mut', 'is_empty', 'clear',
                   'with_capacity', 'default'}

DENY = [
    (r'^std::time::|^core::time::Instant|SystemTime|Instant::now', 'wall-clock time'),
    (r'^std::env::', 'process environment'),
    (r'^std::thread::|ThreadId|LocalKey', 'thread identity / thread-local storage'),
    (r'^std::process::', 'process identity'),
    (r'rand::|RandomState::new|getrandom', 'randomness'),
    (r'^std::fs::|^std::net::|std::io::stdin|std::io::Stdin', 'ambient I/O'),
    (r'^std::sync::atomic::|std::sync::Mutex|std::sync::RwLock|std::sync::Once|OnceLock|OnceCell|LazyLock|LazyCell|^std::cell::',
     'shared / interior-mutable state primitive'),
    (r'std::ptr::|std::mem::transmute|std::mem::zeroed|MaybeUninit', 'raw memory primitive'),
    (r'::addr$|::expose_provenance$|::as_ptr$', 'address observation'),
]
# allowed although they match a pattern above: lazy_static's own Lazy::get (checked by S1)
ALLOW_EXACT = {'lazy_static::lazy::Lazy::<T>::get'}

EXT_ADT_OK = re.compile(r'^(std::vec::Vec|std::collections::HashMap|std::collections::VecDeque|std::option::Option|std::hash::RandomState|'
                        r'std::collections::hash_map::RandomState|std::alloc::Global|std::string::String|std::boxed::Box)$')


def rule_statics(ck, F):
    ck.rule('S1', 'every `static` is immutable and its value type is Freeze; a lazy_static LAZY cell is accepted only if its '
                  'initialiser takes no argument, reads no static and calls only bitflags-generated const operations')
    cg = callgraph(F)
    n = 0
    for s in F.statics:
        n += 1
        key = 'S1 : static %s' % s['path']
        wh = {'file': s['span']['file'], 'line': s['span']['line'], 'function': s['path']}
        if s['mutable']:
            ck.violation('S1', key + ' : static mut', wh, '`static mut %s` is shared mutable state' % s['path']); continue
        if s['freeze']:
            ck.ok('S1', '%s: immutable, Freeze' % s['path'], wh); continue
        # interior mutability: only the lazy_static pattern is accepted
        m = re.match(r'^<(.+) as std::ops::Deref>::deref::__stability::LAZY$', s['path'])
        if not m or 'lazy_static::lazy::Lazy<' not in s['ty']['s']:
            ck.violation('S1', key + ' : interior mutability', wh,
                         'static %s of type %s is not Freeze (interior mutability shared between decoder instances)' % (s['path'], s['ty']['s']))
            continue
        crate = s['crate']
        init = '%s::<%s as std::ops::Deref>::deref::__static_ref_initialize' % (crate, m.group(1))
        if init not in F.bodies:
            ck.violation('S1', key + ' : no initialiser', wh, 'lazy_static initialiser body %s not found' % init); continue
        bad = []
        ib = F.bodies[init]
        if ib['argc'] != 0:
            bad.append('initialiser takes arguments')
        for fn in sorted(cg.reachable([init])):
            b = F.bodies[fn]
            for bb, t in cfg_of(b).calls():
                if not F.local_callee(b['crate'], t):
                    en = F.callee_name(t)
                    if not re.search(r'bitflags|std::ops::(BitOr|BitAnd|Not)|core::ops', en):
                        bad.append('%s calls external %s' % (short_fn(fn), en))
            for e in effects.analysis(F).of(fn).effects:
                if e.loc[0][0] == 'static':
                    bad.append('%s touches static %s' % (short_fn(fn), e.loc[0][1]))
        if bad:
            ck.violation('S1', key + ' : impure lazy initialiser', wh, 'lazy_static %s: %s' % (m.group(1), '; '.join(bad[:5])))
        else:
            ck.ok('S1', '%s: lazy_static cell, pure constant initialiser (%d fns)' % (m.group(1), len(cg.reachable([init]))), wh)
    ck.count('statics', n)
    return n


def rule_unsafe(ck, F):
    ck.rule('S2', 'no `unsafe` block / fn / impl and no `extern` block in the three crates')
    n = 0
    for u in F.unsafe:
        if not u.get('user'):
            continue
        n += 1
        ck.violation('S2', 'S2 : %s : %s' % (u['what'], u['span']['file']), {'file': u['span']['file'], 'line': u['span']['line']},
                     '%s in %s' % (u['what'], u['crate']))
    if n == 0:
        ck.ok('S2', 'unsafe/extern items: 0 (HIR walk of %d bodies)' % len(F.bodies))
    return n


def rule_effects(ck, F):
    ck.rule('S3', 'no function writes a static; statics read are S1-approved; public entry points write only through their own &mut parameters')
    EA = effects.analysis(F)
    nfn = 0
    for name, be in sorted(EA.per_body.items()):
        if is_test_fn(name): continue
        nfn += 1
        b = F.bodies[name]
        for e in be.effects:
            if e.loc[0][0] == 'static' and e.kind == 'w':
                ck.violation('S3', 'S3 : %s : static write %s' % (short_fn(name), e.loc[0][1]), where_of(b, e.bb),
                             '%s writes static %s (via %s)' % (short_fn(name), e.loc[0][1], e.via))
        if be.unbound:
            for u in be.unbound:
                ck.violation('unanalysable', 'unanalysable : effects of %s : %s' % (short_fn(name), u[1]), where_of(b, u[0]),
                             'effect analysis could not bind %s (%s)' % (u[2], u[1]))
    pubs = [n for n, b in F.bodies.items() if b.get('reachable') and not is_test_fn(n) and b['kind'] in ('Fn', 'AssocFn')]
    for name in sorted(pubs):
        b = F.bodies[name]
        summ = EA.summaries[name]
        ck.ok('S3', '%s: writes only via &mut params %s' % (short_fn(name), sorted({r[1] for (r, p, k) in summ if k == 'w' and r[0] == 'param'})), nontrivial=bool(summ))
    ck.count('functions_effect_analysed', nfn)
    ck.count('public_entry_points', len(pubs))
    ck.floor('public entry points analysed', len(pubs), 40)


def rule_denylist(ck, F):
    ck.rule('S4', 'no call to an iteration-order-dependent HashMap API, time, environment, randomness, thread identity, '
                  'interior-mutability primitive, raw memory primitive, and no pointer-to-integer cast')
    ncalls = 0; nhash = 0
    for name, b in sorted(F.bodies.items()):
        if is_test_fn(name): continue
        g = cfg_of(b)
        for bb, t in g.calls():
            en = F.callee_name(t)
            if F.local_callee(b['crate'], t):
                continue
            ncalls += 1
            m = re.match(r'^(?:<)?std::collections::(?:hash_map::)?(HashMap|HashSet)(?:::<[^>]*>)?::(\w+)$', en)
            if m or 'std::collections::HashMap' in en or 'std::collections::HashSet' in en or 'hash_map::' in en:
                nhash += 1
                meth = en.split('::')[-1]
                if not (m and m.group(2) in HASHMAP_ALLOWED):
                    ck.violation('S4', 'S4 : %s : hash iteration %s' % (short_fn(name), en), where_of(b, bb),
                                 '%s calls %s: hash-map iteration order is not a function of the input' % (short_fn(name), en))
                else:
                    ck.ok('S4', '%s: %s (keyed access)' % (short_fn(name), en), where_of(b, bb))
                continue
            if en in ALLOW_EXACT:
                continue
            for pat, why in DENY:
                if re.search(pat, en):
                    ck.violation('S4', 'S4 : %s : %s' % (short_fn(name), en), where_of(b, bb), '%s calls %s (%s)' % (short_fn(name), en, why))
                    break
        for bb in sorted(g.reach):
            for s in g.blocks[bb]['stmts']:
                if s['s'] == 'assign' and s['rv']['r'] == 'cast' and ('Expose' in s['rv']['k'] or 'PtrToInt' in s['rv']['k']):
                    ck.violation('S4', 'S4 : %s : pointer-to-integer cast' % short_fn(name), where_of(b, bb, s['span']),
                                 '%s observes an address (%s)' % (short_fn(name), s['rv']['k']))
    ck.count('external_call_sites_screened', ncalls)
    ck.count('hashmap_call_sites', nhash)
    ck.ok('S4', 'screened %d external call sites' % ncalls, nontrivial=ncalls > 0)
    return nhash


def rule_types(ck, F):
    ck.rule('S5', 'H263State, DecodedPicture, Picture and H263Reader own their data: no reference, raw pointer, Rc/Arc or cell in any '
                  'field (transitively); all are Freeze')
    for path in ['h263_rs::decoder::state::H263State', 'h263_rs::decoder::picture::DecodedPicture', 'h263_rs::types::Picture']:
        a = F.adt(path)
        if 'freeze' not in a:
            ck.violation('unanalysable', 'unanalysable : type facts of %s' % path, None, 'type facts missing for %s (generic?)' % path); continue
        bad = [k for k in ('has_ref', 'has_ptr', 'has_rc', 'has_cell') if a.get(k)]
        if not a['freeze']: bad.append('not Freeze')
        if bad:
            ck.violation('S5', 'S5 : %s : %s' % (path, ','.join(bad)), None, '%s: %s' % (path, ', '.join(bad)))
        else:
            ck.ok('S5', '%s: Freeze, no ref/ptr/Rc/cell in %d fields (transitive walk)' % (path, len(a['variants'][0]['fields'])))
    # every ADT defined in the crates: no Rc/cell anywhere
    n = 0
    for path, a in sorted(F.adts.items()):
        if 'freeze' not in a: continue
        n += 1
        bad = [k for k in ('has_ptr', 'has_rc', 'has_cell') if a.get(k)]
        if bad:
            ck.violation('S5', 'S5 : %s : %s' % (path, ','.join(bad)), None, '%s: %s' % (path, ', '.join(bad)))
    ck.count('adts_walked', n)
    # &mut self methods of H263State: who may mutate an instance
    muts = []
    for name, b in F.bodies.items():
        if name.startswith('h263_rs::decoder::state::H263State::') and b['kind'] == 'AssocFn' and b['argc'] >= 1:
            t = b['locals'][1]['t']
            if t['k'] == 'ref' and t['mut'] and 'H263State' in b['locals'][1]['s']:
                muts.append(name.split('::')[-1])
    ck.ok('S5', 'H263State methods taking &mut self: %s' % sorted(muts))
    ck.sample({'rule': 'S5', 'mutating_methods': sorted(muts)})


def rule_stack(ck, F):
    """S6: how much stack the calling thread has left is an input the property does not allow (threads of one process differ in it): the depth of
    the call stack must not depend on the data, i.e. the call graph of the three crates has no cycle."""
    from ..callgraph import callgraph
    cg = callgraph(F)
    nodes = set(n for n, b in F.bodies.items() if b['kind'] not in ('Const', 'Static', 'Promoted'))
    ck.rule('S6', 'no call cycle in the three crates: the stack depth of a call is bounded independently of the data, so the stack the calling thread has left cannot decide the outcome')
    rec = cg.recursive_components(nodes)
    for comp in rec:
        b = F.bodies[sorted(comp)[0]]
        ck.violation('S6', 'norec : %s' % short_fn(sorted(comp)[0]), {'file': b['span']['file'], 'line': b['span']['line'], 'function': sorted(comp)[0]},
                     'recursive call cycle (depth decided by the input; the outcome then depends on the stack of the calling thread): %s' % ', '.join(short_fn(c) for c in comp))
    if not rec:
        ck.ok('S6', 'call graph acyclic (%d functions)' % len(nodes))
    ck.count('functions_in_call_graph', len(nodes))
    ck.floor('functions in the call graph', len(nodes), 150)


def run(ck, F, tier):
    ck.explanation = ('C17 decided structurally on MIR/HIR/type facts of all three crates: S1 statics immutable+Freeze (lazy_static cells: pure '
                      'constant initialiser), S2 zero unsafe/extern, S3 mod/ref effect summaries (no static written, public entry points write '
                      'only through their &mut params), S4 denylist of nondeterminism sources over every external call site (HashMap: keyed '
                      'access only), S5 transitive field walk of the per-instance types, S6 no call cycle (the stack left to the calling thread cannot decide an outcome). The same rules are run on a fixture crate of '
                      'deliberately bad constructs on every run and must fire there (positive control).')
    ck.assumptions += ['dependency crates (wide, bytemuck, bitflags, lazy_static, num-traits, itertools, thiserror) are deterministic and keep no observable global state',
                       'std HashMap keyed operations (get/insert/remove/len) do not depend on the hasher seed observably']
    ns = rule_statics(ck, F)
    rule_unsafe(ck, F)
    rule_effects(ck, F)
    nh = rule_denylist(ck, F)
    rule_types(ck, F)
    rule_stack(ck, F)
    # "a pure function of the options and the bytes supplied": the only condition of the source that ends a picture early and still succeeds is end of data
    # (C15's rule EK); any other transient I/O condition must fail the call, which then changes nothing (C05), so where a source pauses cannot show in the output
    from . import c15
    from ..report import Scoped
    c15.eof_classification(Scoped(ck, 'C15.'), F)
    # .. and the bits handed to the parsers are a function of the bytes alone, not of where earlier commits left the ring buffer: the assembly loop of
    # peek_bits walks the buffered bytes from byte bits_read / 8 on, in order (C14's rule H)
    from . import c14
    c14.h_msb_first(Scoped(ck, 'C14.'), F)
    # .. and a picture is decoded from its own bytes only: the macroblock loop leaves after exactly mb_per_line * mb_height macroblocks (C15's rule M7), so
    # whether the bytes of the NEXT picture are already behind it in the reader (one continuous reader or one reader per picture) cannot change the outcome
    c15.m7_count_bound(Scoped(ck, 'C15.'), F)
    ck.floor('HashMap call sites screened', nh, 5)
    # "a pure function of ... the sequence of bytes supplied": the only input channel is std::io::Read, whose `read` may split the same
    # byte sequence differently from call to call (sockets, pipes). The result is independent of that splitting only if the source is
    # consumed through read_exact into a buffer whose bytes are all kept: C05's rule T6, re-run here.
    from ..report import Scoped
    from . import c05
    c05.t6_retry_granularity(Scoped(ck, 'C05.'), F)
    # positive control on the fixture crate
    from ..fixture import run_fixture
    run_fixture(ck, 'C17', {
        'S1': ['static mut', 'interior mutability'],
        'S2': ['unsafe_block'],
        'S3': ['static write'],
        'S4': ['hash iteration', 'std::time', 'std::thread'],
    }, lambda ck2, F2: (rule_statics(ck2, F2), rule_unsafe(ck2, F2), rule_effects_nofloor(ck2, F2), rule_denylist(ck2, F2)))


def rule_effects_nofloor(ck, F):
    real_floor = ck.floor
    ck.floor = lambda *a, **k: None
    try:
        rule_effects(ck, F)
    finally:
        ck.floor = real_floor
