"""Mechanism rules M1-M8 for C01 (DESIGN.md 4.6): the structural part of the arguments the reviewed-safe residue relies on."""
from ..cfg import cfg_of
import sys
from ..dataflow import defs_of, callee_is, strip_ref, expr_of, expr_str, ematch, V, ANY, strip_casts, LEN
sys.setrecursionlimit(50000)
from ..report import where_of, short_fn
from ..facts import Unanalysable
from . import reader_rules as rr

G = 'h263_rs::decoder::cpu::gather::'


def _contains(e, pred):
    if not isinstance(e, tuple) or not e: return False
    if pred(e): return True
    if isinstance(e, tuple):
        return any(_contains(x, pred) for x in e[1:] if isinstance(x, tuple))
    return False


def m1_read_sample(ck, F):
    ck.rule('M1', 'read_sample: the index given to `get` is clamp(x, 0, sat_sub(samples_per_row,1)) + clamp(y, 0, sat_sub(num_rows,1)) * samples_per_row')
    b = F.body(G + 'read_sample')
    gets = rr.find_calls(F, b, '<impl [T]>::get')
    if len(gets) != 1:
        ck.violation('M1', 'M1 : read_sample : shape', where_of(b), 'expected one slice::get, found %d' % len(gets)); return False
    e = expr_of(F, b, gets[0][1]['args'][1])
    cx = ('callp', '::clamp', ('param', 4, (0,)), ('c', 0), ('callp', '::saturating_sub', ('param', 2, ()), ('c', 1)))
    cy = ('callp', '::clamp', ('param', 4, (1,)), ('c', 0), ('callp', '::saturating_sub', ('param', 3, ()), ('c', 1)))
    pat = ('op', 'Add', cx, ('op', 'Mul', cy, ('param', 2, ())))
    base_ok = strip_ref(defs_of(b).origin(gets[0][1]['args'][0]))[:2] == ('param', 1)
    if ematch(pat, e) is not None and base_ok:
        ck.ok('M1', 'read_sample index = clamp(x)+clamp(y)*stride', where_of(b, gets[0][0])); return True
    ck.violation('M1', 'M1 : read_sample : clamp provenance', where_of(b, gets[0][0]),
                 'read_sample indexes the plane with %s: the coordinates are not both clamped to the plane' % expr_str(e))
    return False


def _extent(spr_or_h, pos):
    return ('callp', '::clamp', ('op', 'Sub', spr_or_h, pos), ('c', 0), ('c', 8))


def m2_gather_extents(ck, F):
    ck.rule('M2', 'gather_block: every write index into `target` is pos.0 + i + (pos.1 + j)*stride with i, j enumerating ranges of length '
                  'clamp(stride - pos.0, 0, 8) and clamp(len(src)/stride - pos.1, 0, 8)')
    b = F.body(G + 'gather_block'); g = cfg_of(b)
    spr = ('param', 2, ()); px = ('param', 3, (0,)); py = ('param', 3, (1,))
    hh = ('op', 'Div', LEN(('param', 1, ())), spr)
    def enum_idx(ext):
        return ('fld', ('callp', '::next', ('callp', '::into_iter', ('callp', '::enumerate', ('agg', 'Range', V('s' + str(id(ext) % 97)), ('op', 'Add', V('s' + str(id(ext) % 97)), ext))))), ANY)
    ex = _extent(spr, px); ey = _extent(hh, py)
    pat = ('op', 'Add', ('op', 'Add', px, enum_idx(ex)), ('op', 'Mul', ('op', 'Add', py, enum_idx(ey)), spr))
    n = 0; ok = True
    for bb in sorted(g.reach):
        t = g.blocks[bb]['term']
        if t['t'] == 'assert' and t['kind'] == 'bounds':
            idx = expr_of(F, b, t['ops'][1]); ln = expr_of(F, b, t['ops'][0])
            if ematch(LEN(('param', 5, ())), ln) is not None:
                n += 1
                if ematch(pat, idx) is None:
                    ok = False
                    ck.violation('M2', 'M2 : gather_block : write index form', where_of(b, bb),
                                 'a write into the target plane uses index %s, not the clamped-extent form' % expr_str(idx)[:300])
    if n < 3:
        ck.violation('M2', 'M2 : gather_block : sites', where_of(b), 'expected 3 per-sample writes into target, found %d' % n); ok = False
    if ok: ck.ok('M2', 'gather_block: %d target writes use clamped extents' % n, where_of(b))
    return ok


def m3_idct_extents(ck, F):
    ck.rule('M3', 'idct_channel: every access to `output` is x_base*8 + xo + (y_base*8 + yo)*stride with xo < xs = clamp(stride - x_base*8, 0, 8), '
                  'yo < ys = clamp(len(output)/stride - y_base*8, 0, 8), x_base < blk_per_line, y_base < len(levels)/blk_per_line '
                  '(decided on normalised terms by the geometry part of C10 rule C, so spelling does not matter)')
    from ..report import Check
    from . import c10
    b = F.body('h263_rs::decoder::cpu::idct::idct_channel')
    sub = Check('C10-geometry', 'quick')
    try:
        c10.rule_c(sub, F)
    except Exception as e:
        ck.violation('M3', 'M3 : idct_channel : geometry', where_of(b), 'the block geometry of idct_channel could not be analysed (%s)' % e); return False
    GEOM = ('sample position', 'block index', ': match', 'store outside the arms', 'no store', ': stores')
    bad = [o for o in sub.obligations if o['status'] not in ('discharged', 'reviewed') and any(k in o['instance'] for k in GEOM)]
    n = len([o for o in sub.obligations if o['status'] == 'discharged'])
    if bad:
        ck.violation('M3', 'M3 : idct_channel : output index form', where_of(b), 'an access to the output plane is not bounded by the clamped block extents: %s' % str(bad[0].get('msg') or bad[0]['instance'])[:300])
        return False
    if n < 4:
        ck.violation('M3', 'M3 : idct_channel : sites', where_of(b), 'the four arms of idct_channel were not all recognised'); return False
    ck.ok('M3', 'idct_channel: all stores at (8by + y)*stride + 8bx + x with x, y below the clamped block extents', where_of(b))
    return True


def m4_fast_path(ck, F):
    ck.rule('M4', 'gather_block fast path: the 8-sample copy_from_slice is control dependent on block_cols == 8, block_rows == 8, '
                  '0 <= src_x <= stride-8, 0 <= src_y <= rows-8 and no interpolation')
    b = F.body(G + 'gather_block'); g = cfg_of(b); D = defs_of(b)
    cs = rr.find_calls(F, b, 'copy_from_slice')
    if len(cs) != 1:
        ck.violation('M4', 'M4 : gather_block : shape', where_of(b), 'expected one copy_from_slice, found %d' % len(cs)); return False
    cbb = cs[0][0]
    # conditions on every switch that dominates the copy and whose taken edge leads to it
    conds = []
    for bb in sorted(g.reach):
        t = g.blocks[bb]['term']
        if t['t'] != 'switch' or t['on']['o'] == 'const' or not g.dominates(bb, cbb): continue
        taken = [s for s in g.succ[bb] if g.dominates(s, cbb) or s == cbb]
        if len(taken) != 1: continue
        arms = {int(v): to for v, to in t['arms']}
        truth = not (arms.get(0) == taken[0])
        conds.append((expr_of(F, b, t['on']), truth))
    spr = ('param', 2, ()); px = ('param', 3, (0,)); py = ('param', 3, (1,))
    hh = ('op', 'Div', LEN(('param', 1, ())), spr)
    srcx = ('op', 'Add', px, ('fld', ('callp', 'into_lerp_parameters', ('param', 4, ())), (0, 0)))
    srcy = ('op', 'Add', py, ('fld', ('callp', 'into_lerp_parameters', ('param', 4, ())), (1, 0)))
    want = {
        'cols == 8': (('op', 'Eq', _extent(spr, px), ('c', 8)), True),
        'rows == 8': (('op', 'Eq', _extent(hh, py), ('c', 8)), True),
        'src_x in 0..=stride-8': (('callp', '::contains', ('callp', 'RangeInclusive::<Idx>::new', ('c', 0), ('op', 'Sub', spr, ('c', 8))), srcx), True),
        'src_y in 0..=rows-8': (('callp', '::contains', ('callp', 'RangeInclusive::<Idx>::new', ('c', 0), ('op', 'Sub', hh, ('c', 8))), srcy), True),
        'no x interpolation': (('fld', ('callp', 'into_lerp_parameters', ('param', 4, ())), (0, 1)), False),
        'no y interpolation': (('fld', ('callp', 'into_lerp_parameters', ('param', 4, ())), (1, 1)), False),
    }
    missing = []
    for name, (pat, truth) in want.items():
        hit = False
        for e, tr in conds:
            ee = e[2] if (e[0] == 'un' and e[1] == 'Not') else e
            tt = (not tr) if (e[0] == 'un' and e[1] == 'Not') else tr
            if ematch(pat, ee) is not None and tt == truth: hit = True
        if not hit: missing.append(name)
    if missing:
        ck.violation('M4', 'M4 : gather_block : fast-path guard set', where_of(b, cbb),
                     'the unclamped 8-sample copy is not guarded by: %s (found %d dominating conditions)' % (', '.join(missing), len(conds)))
        return False
    ck.ok('M4', 'fast path guarded by all 6 conditions', where_of(b, cbb))
    return True


def m5_reference_dimensions(ck, F):
    ck.rule('M5', 'gather: every gather_block call is dominated by a test that the reference picture and the new picture have the same dimensions '
                  '(gather_block indexes the target with the stride / height of the reference planes)')
    b = F.body(G + 'gather'); g = cfg_of(b); D = defs_of(b)
    calls = rr.find_calls(F, b, 'gather::gather_block')
    if len(calls) < 6:
        ck.violation('M5', 'M5 : gather : shape', where_of(b), 'expected 6 gather_block calls, found %d' % len(calls)); return False
    def mentions(e, which):
        # which: 'ref' -> derived from param 2 (the reference), 'new' -> param 5
        def p(x):
            return isinstance(x, tuple) and len(x) > 1 and x[0] == 'param' and x[1] == (2 if which == 'ref' else 5)
        return _contains(e, p)
    def dim_expr(e):
        def p(x):
            return isinstance(x, tuple) and len(x) > 1 and x[0] == 'call' and any(k in x[1] for k in ('into_width_and_height', 'luma_samples_per_row', 'chroma_samples_per_row', '::format', '::len'))
        return _contains(e, p)
    guards = []
    for bb in sorted(g.reach):
        t = g.blocks[bb]['term']
        if t['t'] != 'switch' or t['on']['o'] == 'const': continue
        e = expr_of(F, b, t['on'])
        # exactly: the (width, height) pairs of the two pictures are compared (plane lengths or one stride alone do not determine the chroma geometry)
        if e[0] == 'call' and (e[1].endswith('PartialEq::ne') or e[1].endswith('PartialEq::eq')) and len(e) == 4:
            sides = []
            for x in e[2:4]:
                if x[0] == 'call' and x[1].endswith('SourceFormat::into_width_and_height') and x[2][0] == 'call' and x[2][1].endswith('DecodedPicture::format'):
                    sides.append('ref' if mentions(x[2][2], 'ref') else ('new' if mentions(x[2][2], 'new') else '?'))
            if sorted(sides) == ['new', 'ref']:
                arms = {int(v): to for v, to in t['arms']}
                # the gather_block calls must lie on the "equal" side
                same = arms.get(0) if e[1].endswith('::ne') else t['otherwise']
                guards.append((bb, same))
    ok = True
    for cbb, ct in calls:
        if not any(same is not None and g.dominates(same, cbb) for gb, same in guards):
            ok = False
    if ok:
        ck.ok('M5', 'all %d gather_block calls lie on the "same (width, height)" side of a comparison of the two pictures\' dimensions (bb%s)' % (len(calls), [gb for gb, _ in guards]), where_of(b, guards[0][0]))
        return True
    ck.violation('M5', 'M5 : gather : reference of another size', where_of(b, calls[0][0]),
                 'gather_block is called with the stride and height of the reference planes but writes the new picture\'s planes, and nothing tests that the '
                 'two pictures have the same dimensions: a P picture whose size differs from its reference indexes out of bounds')
    return False


def m8_error_discipline(ck, F, reach):
    ck.rule('M8', 'every call whose callee returns the crate\'s Result is consumed: `?`, match / is_err / is_ok, or returned - never dropped unread')
    n = 0; bad = 0
    for name in sorted(reach):
        b = F.bodies[name]
        if b['kind'] in ('Const', 'Static', 'Promoted'): continue
        g = cfg_of(b); D = defs_of(b)
        # uses of locals
        uses = {}
        for bb in g.reach:
            blk = g.blocks[bb]
            for s in blk['stmts']:
                if s['s'] == 'assign':
                    for o in _ops(s['rv']):
                        if o['o'] in ('copy', 'move'): uses.setdefault(o['p']['l'], []).append(bb)
                    if s['rv']['r'] in ('ref', 'discr', 'rawptr'): uses.setdefault(s['rv']['p']['l'], []).append(bb)
            t = blk['term']
            if t['t'] == 'call':
                for a in t['args']:
                    if a['o'] in ('copy', 'move'): uses.setdefault(a['p']['l'], []).append(bb)
            if t['t'] == 'switch' and t['on']['o'] in ('copy', 'move'): uses.setdefault(t['on']['p']['l'], []).append(bb)
        for bb, t in g.calls():
            ty = t['dest']['ty']
            if not (ty.startswith('std::result::Result<') and ty.endswith('error::Error>')): continue
            if t['dest']['proj']: continue
            n += 1
            l = t['dest']['l']
            if l == 0 or uses.get(l):
                continue
            bad += 1
            ck.violation('M8', 'M8 : %s : result of %s dropped' % (short_fn(name), F.callee_name(t).split('::')[-1]), where_of(b, bb),
                         '%s discards the Result of %s without looking at it' % (short_fn(name), F.callee_name(t)))
    ck.count('result_returning_call_sites', n)
    if not bad: ck.ok('M8', '%d Result-returning call sites, all consumed' % n)
    return n


def _ops(rv):
    k = rv['r']
    if k in ('use', 'cast', 'un', 'repeat'): return [rv['a']]
    if k == 'bin': return [rv['a'], rv['b']]
    if k == 'agg': return rv['ops']
    return []


def m9_picture_fields_frozen(ck, F):
    ck.rule('M9', 'the fields of DecodedPicture (header, format, planes, chroma row length) are set only by the aggregate in DecodedPicture::new: '
                  'no field store anywhere, and `new` returns None unless format.into_width_and_height() is Some')
    ok = True; n = 0
    for name, b in sorted(F.bodies.items()):
        if b['crate'] != 'h263_rs' or b['kind'] in ('Const', 'Static', 'Promoted'): continue
        g = cfg_of(b)
        for bb in sorted(g.reach):
            for s in g.blocks[bb]['stmts']:
                if s['s'] != 'assign' or not s['lhs']['proj']: continue
                # type of the parent of the last field projection
                from ..absint import Interp
                pt = _parent_adt(F, b, s['lhs'])
                if pt == 'decoder::picture::DecodedPicture':
                    ok = False
                    ck.violation('M9', 'M9 : %s : field store into DecodedPicture' % short_fn(name), where_of(b, bb, s['span']),
                                 '%s assigns a field of DecodedPicture outside its constructor' % short_fn(name))
            t = g.blocks[bb]['term']
    nb = F.body('h263_rs::decoder::picture::DecodedPicture::new'); g = cfg_of(nb); D = defs_of(nb)
    aggs = [(bb, s) for bb in sorted(g.reach) for s in g.blocks[bb]['stmts'] if s['s'] == 'assign' and s['rv']['r'] == 'agg' and s['rv']['kind'].get('path') == 'decoder::picture::DecodedPicture']
    if len(aggs) != 1:
        ck.violation('M9', 'M9 : new : shape', where_of(nb), 'expected one DecodedPicture aggregate in new, found %d' % len(aggs)); return False
    abb, a = aggs[0]
    fmt = expr_of(F, nb, a['rv']['ops'][1])
    # the aggregate is dominated by the Some-continuation of format.into_width_and_height()?
    dom = False
    for bb in g.reach:
        t = g.blocks[bb]['term']
        if t['t'] == 'switch' and t['on']['o'] != 'const' and g.dominates(bb, abb):
            e = expr_of(F, nb, t['on'])
            if ematch(('discr', ('callp', 'Try>::branch', ('callp', 'into_width_and_height', ('param', 2, ())))), e) is not None:
                arms = {int(v): to for v, to in t['arms']}
                if 0 in arms and g.dominates(arms[0], abb): dom = True
    if fmt == ('param', 2, ()) and dom:
        ck.ok('M9', 'DecodedPicture is built once, in new, with the format whose dimensions were just obtained; no field stores elsewhere', where_of(nb, abb))
        return ok
    ck.violation('M9', 'M9 : new : format provenance', where_of(nb, abb), 'DecodedPicture::new does not store the format it validated')
    return False


def _parent_adt(F, b, place):
    cur = b['locals'][place['l']]
    proj = place['proj']
    if not proj or proj[-1]['p'] != 'field': return None
    for e in proj[:-1]:
        t = cur['t'] if 't' in cur else cur
        k = e['p']
        if k == 'deref':
            if t['k'] in ('ref', 'ptr'): cur = t['to']
            else: return None
        elif k == 'field':
            while t['k'] in ('ref', 'ptr'):
                cur = t['to']; t = cur['t'] if 't' in cur else cur
            if t['k'] == 'tuple' and e['i'] < len(t['of']): cur = t['of'][e['i']]
            elif t['k'] == 'adt':
                a = F.adts.get(b['crate'] + '::' + t['path'])
                if a and len(a['variants']) == 1 and e['i'] < len(a['variants'][0]['fields']): cur = a['variants'][0]['fields'][e['i']]['ty']
                else: return None
            else: return None
        else: return None
    t = cur['t'] if 't' in cur else cur
    while t['k'] in ('ref', 'ptr'):
        cur = t['to']; t = cur['t'] if 't' in cur else cur
    return t.get('path') if t['k'] == 'adt' else None


def m10_position_discipline(ck, F):
    ck.rule('M10', 'reader position invariant bits_read <= 8*len(buffer): peek_bits assembles bits only after ensure_bits(n) succeeded; skip_bits advances by n '
                   'only after ensure_bits(n) succeeded; rollback assigns only a checkpoint <= 8*len(buffer); commit removes bits_read/8 bytes and keeps bits_read%8')
    ok = True
    RDN = 'h263_rs::parser::reader::H263Reader::<R>::'
    def ensure_continue(b, argpat):
        g = cfg_of(b); D = defs_of(b)
        ens = rr.find_calls(F, b, 'H263Reader::<R>::ensure_bits')
        if len(ens) != 1 or ematch(argpat, expr_of(F, b, ens[0][1]['args'][1])) is None: return None
        ebb = ens[0][0]
        for bb in g.reach:
            t = g.blocks[bb]['term']
            if t['t'] == 'switch' and t['on']['o'] != 'const':
                o = D.origin(t['on'])
                if o[0] == 'rv' and o[2]['rv']['r'] == 'discr':
                    po = D.origin_place(o[2]['rv']['p'])
                    if po[0] == 'call' and callee_is(F, po[2], 'Try>::branch'):
                        ro = D.origin(po[2]['args'][0])
                        if ro[0] == 'call' and ro[1] == ebb: return {int(v): to for v, to in t['arms']}.get(0)
        return None
    # peek_bits
    b = F.body(RDN + 'peek_bits'); g = cfg_of(b)
    c = ensure_continue(b, ('multi', ANY)) or ensure_continue(b, ('param', 2, ()))
    heads = list(g.loops().keys())
    if c is not None and heads and all(g.dominates(c, h) for h in heads):
        ck.ok('M10', 'peek_bits: the assembly loop is dominated by the success of ensure_bits', where_of(b, heads[0]))
    else:
        ck.violation('M10', 'M10 : peek_bits : loop not guarded by ensure_bits', where_of(b), 'peek_bits reads the buffer without first ensuring the bits are buffered'); ok = False
    # skip_bits
    b = F.body(RDN + 'skip_bits'); g = cfg_of(b)
    c = ensure_continue(b, ('param', 2, ()))
    st = [(bb, s) for bb in sorted(g.reach) for s in g.blocks[bb]['stmts'] if s['s'] == 'assign' and s['lhs']['proj'] and [e['i'] for e in s['lhs']['proj'] if e['p'] == 'field'] == [rr.F_BITS]]
    from ..dataflow import _expr_rv
    if c is not None and len(st) == 1 and g.dominates(c, st[0][0]) and ematch(('op', 'Add', ('param', 1, (rr.F_BITS,)), ('param', 2, ())), _expr_rv(F, b, st[0][1]['rv'], 0, {})) is not None:
        ck.ok('M10', 'skip_bits: bits_read += n only after ensure_bits(n) succeeded', where_of(b, st[0][0]))
    else:
        ck.violation('M10', 'M10 : skip_bits : unguarded advance', where_of(b), 'skip_bits advances the position without ensure_bits(n) having succeeded'); ok = False
    # rollback and commit: decided on normalised terms by tabulation (shared with C14.E), not on one syntactic form
    from .c14 import check_commit, check_rollback
    good, why, b = check_rollback(F)
    if good: ck.ok('M10', 'rollback: bits_read := checkpoint exactly when checkpoint <= 8*len(buffer) (guard tabulated)', where_of(b))
    else:
        ck.violation('M10', 'M10 : rollback : unguarded restore', where_of(b), 'rollback restores a checkpoint without checking it against the buffer (%s)' % why); ok = False
    good, why, b = check_commit(F)
    if good: ck.ok('M10', 'commit: drain(0..bits_read/8), bits_read := bits_read mod 8 (tabulated)', where_of(b))
    else:
        ck.violation('M10', 'M10 : commit : drain range', where_of(b), 'commit does not drain exactly bits_read/8 bytes (%s)' % why); ok = False
    # who may write bits_read / buffer
    dw = rr.direct_writers(F, rr.F_BITS)
    extra = [short_fn(n) for n in dw if short_fn(n).split('::')[-1] not in ('skip_bits', 'rollback', 'commit', 'from_source')]
    if extra:
        ck.violation('M10', 'M10 : bits_read written by %s' % extra[0], None, 'bits_read is also written by %s' % extra); ok = False
    return ok


def m11_umv_counters(ck, F):
    ck.rule('M11', 'read_umv: bulk starts at 1 and doubles once per iteration under the guard bulk < 4096; mantissa starts at 0 and is only shifted left by one '
                   '(optionally or-ing 1) in the same iteration - hence mantissa < bulk <= 2048 where they are added')
    b = F.body('h263_rs::parser::reader::H263Reader::<R>::read_umv'); g = cfg_of(b); D = defs_of(b)
    names = {v: int(k) for k, v in b.get('debug', {}).items()}
    from ..dataflow import _expr_rv
    if 'bulk' not in names or 'mantissa' not in names:
        ck.violation('M11', 'M11 : read_umv : anchors', where_of(b), 'locals bulk / mantissa not found'); return False
    B, M = names['bulk'], names['mantissa']
    loops = g.loops()
    if len(loops) != 1:
        ck.violation('M11', 'M11 : read_umv : loops', where_of(b), 'expected one loop'); return False
    h, body = list(loops.items())[0]
    def defs_expr(l):
        return [(d[1] in body, _expr_rv(F, b, d[3]['rv'], 0, {})) for d in D.defs.get(l, []) if d[0] == 'assign']
    bd = defs_expr(B); md = defs_expr(M)
    ok = (sorted(bd, key=repr) == sorted([(False, ('c', 1)), (True, ('op', 'Shl', ('multi', B), ('c', 1)))], key=repr))
    for inl, e in md:
        if not inl: ok = ok and e == ('c', 0)
        else:
            ok = ok and (ematch(('op', 'Shl', ('multi', M), ('c', 1)), e) is not None or ematch(('op', 'BitOr', ('op', 'Shl', ('multi', M), ('c', 1)), ('c', 1)), e) is not None)
    # guard
    t = g.blocks[h]['term']
    gd = t['t'] == 'switch' and ematch(('op', 'Lt', ('multi', B), ('c', 4096)), expr_of(F, b, t['on'])) is not None
    # every cycle doubles bulk exactly once; mantissa is updated at most once per cycle (updates are in exclusive arms)
    from ..termination import _cycle_avoiding
    bsteps = {d[1] for d in D.defs.get(B, []) if d[1] in body}
    once = not _cycle_avoiding(g, h, body, set(), bsteps)
    if ok and gd and once:
        ck.ok('M11', 'read_umv counters: bulk = 1,2,4,..<4096; mantissa gains one bit per doubling', where_of(b, h)); return True
    ck.violation('M11', 'M11 : read_umv : counter form', where_of(b, h), 'read_umv: bulk/mantissa updates are not in the recognised form (bulk %s, mantissa %s)' % (bd, md))
    return False
