"""C03 - predicted pictures = motion-compensated reference + residual: the structural clauses."""
from ..bitslice import Table, fmt_cond, dnf_diff, one, dnf_and, dnf_or, dnf_not, TRUE, FALSE
from ..cprop import Folder, Unknown
from ..loopexpr import Norm, show, find, stores, guards, guard_term, truth_of, mk_mul, mk_add, mk_sub
from ..report import where_of, Scoped
from ..facts import Unanalysable
from . import c10, c12

G = 'h263_rs::decoder::cpu::gather::'
CLO = 'h263_rs::decoder::state::H263State::decode_next_picture::{closure#0}'
TY = 'h263_rs::types::'


def rule_s(ck, F):
    ck.rule('S', 'read_sample(p, spr, rows, (x, y)) = p[clamp(y, 0, rows-1) * spr + clamp(x, 0, spr-1)] (nearest edge sample outside the picture)')
    b = F.body(G + 'read_sample'); T = Table(F, G + 'read_sample', paths=False, cast_kinds=True); N = Norm(T)
    got = [N.n(d[2]) for d in T.local_defs(0)]
    def cl(v, n): return ('f', 'as_usize', ('f', 'clamp', v, ('c', 0), ('f', 'satsub', n, ('c', 1))))
    X = ('fld', ('v', 'pos'), (0,)); Y = ('fld', ('v', 'pos'), (1,))
    idx = mk_add([mk_mul([cl(Y, ('v', 'num_rows')), ('v', 'samples_per_row')]), cl(X, ('v', 'samples_per_row'))])
    ok = len(got) == 1 and find(got[0], lambda z: z == ('f', 'get', ('v', 'pixel_array'), idx)) and show(got[0]).startswith('expect(get(')
    if ok: ck.ok('S', 'read_sample = pixel_array[%s]' % show(idx), where_of(b))
    else: ck.violation('S', 'S : read_sample : form', where_of(b), 'read_sample returns %s; expected pixel_array.get(%s)' % ([show(x) for x in got], show(idx)))


def rule_l(ck, F):
    ck.rule('L', 'lerp(a, b, middle) = (a + b + 1) div 2 computed in 16 bits when middle, else a; HalfPel::into_lerp_parameters(v) = (floor(v/2), v odd) for every v '
                 '(folded over -8192..8191); MotionVector::into_lerp_parameters applies it to x then y')
    b = F.body(G + 'lerp'); T = Table(F, G + 'lerp', cast_kinds=True); N = Norm(T)
    rows = T.return_rows().get('', {})
    mid = one(('A', 'middle', True))
    vals = {}
    for d in T.local_defs(0):
        for c, v in T.cases(d[2], d[0]):
            vals[show(N.n(v))] = dnf_or(vals.get(show(N.n(v)), FALSE), dnf_and(T.pc(d[0]), c))
    from ..loopexpr import ev, NotExact
    A, B = ('v', 'sample_a'), ('v', 'sample_b')
    terms = {}
    for d in T.local_defs(0):
        for c, v in T.cases(d[2], d[0]):
            terms[show(N.n(v))] = N.n(v)
    okl = len(vals) == 2 and 'sample_a' in vals and dnf_diff(vals['sample_a'], dnf_not(mid)) is None
    other = [k for k in vals if k != 'sample_a']
    msg = None
    if okl and other and dnf_diff(vals[other[0]], mid) is None:
        t = terms[other[0]]
        try:
            for a in range(256):
                for b_ in range(256):
                    if ev(t, {A: a, B: b_}) != (a + b_ + 1) // 2: msg = 'at a=%d b=%d: %s' % (a, b_, ev(t, {A: a, B: b_})); break
                if msg: break
        except (NotExact, Unanalysable) as e:
            msg = str(e)
    else:
        msg = 'wrong selection'
    if msg is None:
        ck.ok('L', 'lerp: %s = (a + b + 1) div 2 for all 65536 sample pairs when middle, a otherwise' % other[0], where_of(b))
    else:
        ck.violation('L', 'L : lerp : form', where_of(b), 'lerp returns %s (%s)' % ({k: fmt_cond(v) for k, v in vals.items()}, msg))
    # widths: the sum is formed in u16
    sums = [s for bb in T.g.reach for s in T.g.blocks[bb]['stmts'] if s['s'] == 'assign' and s['rv']['r'] == 'bin' and s['rv']['op'].startswith('Add')]
    if sums and all(s['rv']['a'].get('p', {}).get('ty', s['lhs']['ty']).startswith('u16') or 'u16' in s['lhs']['ty'] for s in sums):
        ck.ok('L', 'lerp: the sum a + b is formed in u16 (cannot wrap)', where_of(b))
    else:
        ck.violation('L', 'L : lerp : width', where_of(b), 'the sum a + b is not formed in u16')
    fo = Folder(F)
    bad = []; n = 0
    name = TY + 'HalfPel::into_lerp_parameters'
    for v in range(-8192, 8192):
        try:
            r = fo.call(name, [('enum', 'types::HalfPel', 0, [('int', v, 16, True)])])
        except Unknown as e:
            bad.append('v=%d: %s' % (v, e)); break
        n += 1
        got = (r[1][0][1], bool(r[1][1][1])) if r[0] == 'tuple' else None
        if got != (v // 2, v % 2 != 0):
            bad.append('v=%d -> %s, expected %s' % (v, got, (v // 2, v % 2 != 0)))
            if len(bad) > 4: break
    hb = F.body(name)
    if bad: ck.violation('L', 'L : into_lerp_parameters : table', where_of(hb), 'into_lerp_parameters differs from (floor(v/2), v odd): %s' % '; '.join(bad[:4]))
    else: ck.ok('L', 'HalfPel::into_lerp_parameters: %d values folded, all (floor(v/2), v odd)' % n, where_of(hb))
    mname = TY + 'MotionVector::into_lerp_parameters'
    Tm = Table(F, mname, paths=False); Nm = Norm(Tm)
    got = [show(Nm.n(d[2])) for d in Tm.local_defs(0)]
    if got == ['tuple(into_lerp_parameters(self.0), into_lerp_parameters(self.1))']: ck.ok('L', 'MotionVector::into_lerp_parameters = (x parameters, y parameters)', where_of(F.body(mname)))
    else: ck.violation('L', 'L : MotionVector::into_lerp_parameters', where_of(F.body(mname)), 'returns %s' % got)


def rule_b(ck, F):
    ck.rule('B', 'gather_block: sample (pos + (i, j)) of the target, i < min(8, row length - pos.x), j < min(8, rows - pos.y), is interpolated from the reference at '
                 '(u, v) = pos + (dx, dy) + (i, j): s(u,v) for an integer vector, (s(u,v)+s(u+1,v)+s(u,v+1)+s(u+1,v+1)+2) div 4 when both components are half, '
                 'lerp(lerp(s(u,v), s(u+1,v), x half), lerp(s(u,v+1), s(u+1,v+1), x half), y half) when exactly one is; the 8-samples-per-row copy is used only for '
                 'integer vectors with source and target blocks fully inside the plane')
    b = F.body(G + 'gather_block'); T = Table(F, G + 'gather_block', cast_kinds=True); N = Norm(T)
    SPR = ('v', 'samples_per_row'); PX = ('fld', ('v', 'pos'), (0,)); PY = ('fld', ('v', 'pos'), (1,))
    ROWS = ('f', 'Div', ('f', 'len', ('v', 'pixel_array')), SPR)
    LP = ('f', 'into_lerp_parameters', ('v', 'mv'))
    DX = ('fld', LP, (0, 0)); XI = ('fld', LP, (0, 1)); DY = ('fld', LP, (1, 0)); YI = ('fld', LP, (1, 1))
    COLS = ('f', 'clamp', mk_sub(SPR, PX), ('c', 0), ('c', 8)); RWS = ('f', 'clamp', mk_sub(ROWS, PY), ('c', 0), ('c', 8))
    xi = one(('A', show(XI), True)); yi = one(('A', show(YI), True))
    def S(du, dv, i, j):
        return ('f', 'read_sample', ('v', 'pixel_array'), SPR, ROWS, ('agg', 'tuple', mk_add([DX, PX, i, ('c', du)]), mk_add([DY, PY, j, ('c', dv)])))
    st = stores(T, N)
    seen = []
    for bb, s, t, v in st:
        ixs = sorted(set(find(t, lambda z: z[0] == 'ix')), key=repr)
        li = [x for x in ixs if N.loops[x[1]].hi == COLS and show(N.loops[x[1]].lo) == '0']
        lj = [x for x in ixs if N.loops[x[1]].hi == RWS and show(N.loops[x[1]].lo) == '0']
        if len(li) != 1 or len(lj) != 1 or t != ('el', ('v', 'target'), mk_add([mk_mul([mk_add([PY, lj[0]]), SPR]), PX, li[0]])):
            ck.violation('B', 'B : gather_block : target position', where_of(b, bb), 'store at %s; expected target[(pos.1 + j)*spr + pos.0 + i] with i < %s, j < %s' % (show(t), show(COLS), show(RWS))); continue
        i, j = li[0], lj[0]
        forms = {
            'integer vector': (S(0, 0, i, j), dnf_and(dnf_not(xi), dnf_not(yi))),
            'both half': (('f', 'as_u8', N.op('Div', mk_add([S(0, 0, i, j), S(1, 0, i, j), S(0, 1, i, j), S(1, 1, i, j), ('c', 2)]), ('c', 4))), dnf_and(xi, yi)),
            'one half': (('f', 'lerp', ('f', 'lerp', S(0, 0, i, j), S(1, 0, i, j), XI), ('f', 'lerp', S(0, 1, i, j), S(1, 1, i, j), XI), YI), dnf_or(dnf_and(xi, dnf_not(yi)), dnf_and(dnf_not(xi), yi))),
        }
        hit = [k for k, (f, c) in forms.items() if f == v]
        if not hit:
            ck.violation('B', 'B : gather_block : interpolation form', where_of(b, bb), 'stores %s, which is none of the three interpolation forms' % show(v)[:600]); continue
        k = hit[0]
        # the store executes exactly under the flag condition (ignoring loop / fast-path atoms)
        pc = T.pc(bb)
        proj = set()
        for c in pc:
            proj.add(frozenset(d for d in c if d[0] == 'A' and d[1] in (show(XI), show(YI))))
        have = FALSE
        for c in proj: have = dnf_or(have, frozenset([c]))
        if dnf_diff(have, forms[k][1]) is None:
            seen.append(k)
            ck.ok('B', '%s: target[(pos.1+j)*spr + pos.0+i] = %s' % (k, show(forms[k][0])[:160]), where_of(b, bb))
        else:
            ck.violation('B', 'B : gather_block : %s : condition' % k, where_of(b, bb), 'the %s form is used under [%s], expected [%s]' % (k, fmt_cond(have), fmt_cond(forms[k][1])))
    if sorted(seen) != ['both half', 'integer vector', 'one half']:
        ck.violation('B', 'B : gather_block : forms', where_of(b), 'interpolation forms found: %s' % sorted(seen))
    # fast path
    cps = [(bb, t) for bb, t in T.g.calls() if F.callee_name(t).endswith('copy_from_slice')]
    if len(cps) != 1:
        ck.violation('B', 'B : gather_block : fast path', where_of(b), '%d copy_from_slice calls' % len(cps)); return
    cb, ct = cps[0]
    dst = N.n(T.ex(ct['args'][0])); src = N.n(T.ex(ct['args'][1]))
    js = [x for x in set(find(dst, lambda z: z[0] == 'ix'))]
    okf = False
    if len(js) == 1 and show(N.loops[js[0][1]].lo) == '0' and show(N.loops[js[0][1]].hi) == '8':
        j = js[0]
        t0 = mk_add([mk_mul([mk_add([PY, j]), SPR]), PX]); s0 = mk_add([mk_mul([('f', 'as_usize', mk_add([PY, DY, j])), SPR]), ('f', 'as_usize', mk_add([PX, DX]))])
        def rg(a): return ('agg', 'Range', a, mk_add([a, ('c', 8)]))
        okf = dst == ('slice', ('v', 'target'), rg(t0)) and src == ('slice', ('v', 'pixel_array'), rg(s0))
    gs = set()
    for a, s_ in guards(T, cb):
        tt = truth_of(*guard_term(T, N, a, s_))
        if tt is not None and not show(tt[0]).startswith('discr('): gs.add(tt)
    def rinc(hi): return ('f', 'new', ('c', 0), hi)
    want = {(XI, False), (YI, False), (N.op('Eq', COLS, ('c', 8)), True), (N.op('Eq', RWS, ('c', 8)), True),
            (('f', 'contains', rinc(mk_sub(SPR, ('c', 8))), mk_add([DX, PX])), True), (('f', 'contains', rinc(mk_sub(ROWS, ('c', 8))), mk_add([DY, PY])), True)}
    if okf and gs == want:
        ck.ok('B', 'fast path: rows j = 0..8 copied from (pos + (dx, dy + j)) to (pos + (0, j)), only when neither component is half, the target block is 8x8 and '
                   '0 <= pos.x + dx <= spr - 8, 0 <= pos.y + dy <= rows - 8 (no clamping can occur, so it equals the per-sample path)', where_of(b, cb))
    else:
        ck.violation('B', 'B : gather_block : fast path', where_of(b, cb), 'fast path copies %s <- %s under %s; expected the row copy under %s' % (
            show(dst), show(src), sorted((show(t), v) for t, v in gs), sorted((show(t), v) for t, v in want)))


def rule_g(ck, F):
    ck.rule('G', 'gather: for every inter macroblock i, luma block k uses vector mvs[i][k] at ((i mod mbpl)16 + 8(k&1), (i div mbpl)16 + 8(k>>1)) from the reference luma into '
                 'the new luma; both chroma blocks use average_sum_of_mvs(mvs[i][0]+..+mvs[i][3]) at ((i mod mbpl)8, (i div mbpl)8), Cb from Cb into Cb, Cr from Cr into Cr, '
                 'each with the row length of the plane it reads')
    b = F.body(G + 'gather'); T = Table(F, G + 'gather', paths=False, cast_kinds=True); N = Norm(T)
    calls = [(bb, [N.n(T.ex(a)) for a in t['args']]) for bb, t in T.g.calls() if F.callee_name(t).endswith('gather::gather_block')]
    if len(calls) != 6:
        ck.violation('G', 'G : gather : calls', where_of(b), '%d gather_block calls, expected 6' % len(calls)); return
    REF = ('f', 'try', ('f', 'ok_or', ('v', 'reference_picture'), ('agg', 'UncodedIFrameBlocks')))
    ixs = set(x for _, a in calls for x in find(a[2], lambda z: z[0] == 'ix'))
    if len(ixs) != 1:
        ck.violation('G', 'G : gather : macroblock index', where_of(b), 'positions use indices %s' % sorted(map(show, ixs))); return
    i = list(ixs)[0]
    lp = N.loops[i[1]]
    MB = ('v', 'mb_per_line')
    ox = mk_mul([('f', 'Rem', i, MB), ('c', 16)]); oy = mk_mul([('f', 'Div', i, MB), ('c', 16)])
    cx = mk_mul([('f', 'Rem', i, MB), ('c', 8)]); cy = mk_mul([('f', 'Div', i, MB), ('c', 8)])
    mv = lambda k: ('el', ('el', ('v', 'mvs'), i), ('c', k))
    mvc = ('f', 'average_sum_of_mvs', mk_add([mv(0), mv(1), mv(2), mv(3)]))
    NEW = ('v', 'new_picture')
    want = [('luma %d' % k, [('f', 'as_luma', REF), ('f', 'luma_samples_per_row', REF), ('agg', 'tuple', mk_add([ox, ('c', 8 * (k & 1))]), mk_add([oy, ('c', 8 * (k >> 1))])), mv(k), ('f', 'as_luma_mut', NEW)]) for k in range(4)]
    want += [('chroma b', [('f', 'as_chroma_b', REF), ('f', 'chroma_samples_per_row', REF), ('agg', 'tuple', cx, cy), mvc, ('f', 'as_chroma_b_mut', NEW)]),
             ('chroma r', [('f', 'as_chroma_r', REF), ('f', 'chroma_samples_per_row', REF), ('agg', 'tuple', cx, cy), mvc, ('f', 'as_chroma_r_mut', NEW)])]
    calls.sort(key=lambda c: T.order[c[0]])
    for (what, w), (bb, a) in zip(want, calls):
        if a == w: ck.ok('G', '%s: gather_block(%s)' % (what, ', '.join(show(x) for x in w)), where_of(b, bb))
        else:
            diff = [(show(x), show(y)) for x, y in zip(a, w) if x != y]
            ck.violation('G', 'G : gather : %s' % what, where_of(b, bb), '%s block: arguments differ (found, expected): %s' % (what, diff))
    # all six under `mb_types[i].is_inter()`
    inter = (('f', 'is_inter', ('el', ('v', 'mb_types'), i)), True)
    okg = True
    for bb, a in calls:
        gs = [truth_of(*guard_term(T, N, x, s_)) for x, s_ in guards(T, bb)]
        if inter not in gs: okg = False
    if okg and lp.hi == ('f', 'min', ('f', 'len', ('v', 'mb_types')), ('f', 'len', ('v', 'mvs'))):
        ck.ok('G', 'all six calls only for macroblocks with mb_types[i].is_inter(), i over the zipped type / vector lists', where_of(b))
    else:
        ck.violation('G', 'G : gather : inter guard', where_of(b), 'the gather_block calls are not all guarded by mb_types[i].is_inter() (loop %s)' % lp)
    # N: no reference => error
    ck.rule('N', 'a picture needing prediction when no reference exists is rejected: every use of the reference in gather goes through reference_picture.ok_or(..)?, '
                 'and the caller passes get_reference_picture()')
    uses = []
    for bb, t in T.g.calls():
        for a in t['args']:
            e = N.n(T.ex(a))
            cn = F.callee_name(t)
            if cn.endswith('::ok_or') or cn.endswith('Try>::branch') or cn.endswith('::from_residual'): continue
            if find(e, lambda z: z == ('v', 'reference_picture')):
                bare = find(e, lambda z: z == ('v', 'reference_picture'))
                wrapped = find(e, lambda z: z == REF)
                if len(bare) > len(wrapped): uses.append((bb, show(e)))
    if uses: ck.violation('N', 'N : gather : reference used unchecked', where_of(b, uses[0][0]), 'the reference picture is used without the ok_or(..)? check: %s' % uses[:2])
    else: ck.ok('N', 'gather: reference_picture only used as reference_picture.ok_or(UncodedIFrameBlocks)?', where_of(b))


def rule_u(ck, F):
    ck.rule('U', 'decode_next_picture: a not-coded macroblock becomes an Inter macroblock with four zero vectors and no residual; after an early end the remaining macroblocks '
                 'are Inter with zero vectors; gather(types, get_reference_picture(), vectors, mbpl, new picture) runs after the macroblock loop and before idct_channel')
    b = F.body(CLO); T = Table(F, CLO, paths=False, cast_kinds=True); N = Norm(T)
    g = T.g
    # the match on the decoded macroblock
    mbv = {v['name']: v for v in F.adts['h263_rs::types::Macroblock']['variants']}
    coded_arm = unc_arm = None
    for bb in sorted(g.reach):
        t = g.blocks[bb]['term']
        if t['t'] != 'switch': continue
        e = N.n(T.ex(t['on']))
        if e[0] == 'f' and e[1] == 'discr' and show(e[2]).startswith('decode_macroblock(') and show(e[2]).endswith('.as0.0'):
            for val, to in t['arms']:
                if int(val) == int(mbv['Coded']['discr']): coded_arm = to
                if int(val) == int(mbv['Uncoded']['discr']): unc_arm = to
            if coded_arm is None: coded_arm = t['otherwise']
            if unc_arm is None: unc_arm = t['otherwise']
    if coded_arm is None or unc_arm is None or coded_arm == unc_arm:
        ck.violation('U', 'U : decode_next_picture : macroblock match', where_of(b), 'no match on the decoded macroblock with separate Coded / Uncoded arms'); return
    # vectors: every store into motion_vectors and every residual call is inside the Coded arm
    mvst = [(bb, show(t)) for bb, s, t, v in stores(T, N) if show(t).startswith('motion_vectors[')]
    res = [bb for bb, t in g.calls() if F.callee_name(t).endswith('rle::inverse_rle') or F.callee_name(t).endswith('block::decode_block')]
    out = [x for x in [bb for bb, _ in mvst] + res if not g.dominates(coded_arm, x)]
    cand = [[show(N.n(d[2])) for d in T.local_defs(int(l))] for l, nm in T.names.items() if nm == 'motion_vectors']
    init = [c for c in cand if 'repeat(zero(), 4)' in c]
    init = init[0] if len(init) == 1 else cand
    if not out and init == ['repeat(zero(), 4)'] and mvst and len(res) == 12:
        ck.ok('U', 'motion_vectors starts as [zero; 4] each macroblock; it is written and blocks are decoded only in the Coded arm (%d stores, %d block calls)' % (len(mvst), len(res)), where_of(b, coded_arm))
    else:
        ck.violation('U', 'U : decode_next_picture : not-coded macroblock', where_of(b), 'vector stores / block decoding outside the Coded arm at %s; initial vectors %s' % (out, init))
    # type of the not-coded macroblock
    inter_aggs = [bb for bb in sorted(g.reach) for s in g.blocks[bb]['stmts'] if s['s'] == 'assign' and s['rv']['r'] == 'agg' and s['rv']['kind'].get('path') == 'types::MacroblockType'
                  and s['rv']['kind'].get('vname') == 'Inter' and g.dominates(unc_arm, bb)]
    if len(inter_aggs) == 1: ck.ok('U', 'Uncoded arm yields MacroblockType::Inter', where_of(b, inter_aggs[0]))
    else: ck.violation('U', 'U : decode_next_picture : not-coded type', where_of(b, unc_arm), 'the Uncoded arm does not produce MacroblockType::Inter exactly once')
    # pushes and resizes
    def calls(suffix): return [(bb, [N.n(T.ex(a)) for a in t['args']]) for bb, t in g.calls() if F.callee_name(t).endswith(suffix)]
    pushes = {show(a[0]): show(a[1]) for bb, a in calls('::push')}
    resz = {show(a[0]): (show(a[1]), show(a[2])) for bb, a in calls('::resize')}
    if pushes == {'predictor_vectors': 'motion_vectors', 'macroblock_types': 'mb_type'}: ck.ok('U', 'every macroblock appends its vectors and type', where_of(b))
    else: ck.violation('U', 'U : decode_next_picture : pushes', where_of(b), 'pushes: %s' % pushes)
    if resz == {'predictor_vectors': ('capacity(predictor_vectors)', 'repeat(zero(), 4)'), 'macroblock_types': ('capacity(macroblock_types)', 'Inter()')}:
        ck.ok('U', 'early end: both lists are filled up to their capacity with zero vectors / Inter', where_of(b))
    else: ck.violation('U', 'U : decode_next_picture : early end', where_of(b), 'resize calls: %s' % resz)
    # .. and each list is filled whenever IT is short: the fill is unconditional, or guarded by `len(list) < capacity(list)` of the same list
    ga_ = [bb for bb, t in g.calls() if F.callee_name(t).endswith('gather::gather')]
    base = guards(T, ga_[0]) if ga_ else set()
    for bb, a in calls('::resize'):
        lst = a[0]
        own = guards(T, bb) - base
        terms = [truth_of(*guard_term(T, N, x, s_)) for x, s_ in sorted(own)]
        want = (('f', 'Lt', ('f', 'len', lst), ('f', 'capacity', lst)), True)
        alt = (('f', 'Gt', ('f', 'capacity', lst), ('f', 'len', lst)), True)
        # the two lists grow together (one push each per macroblock) and have the same capacity: a test on either list is the same test, as long as the
        # list it measures has not been filled yet when it is evaluated
        both = {('v', 'predictor_vectors'), ('v', 'macroblock_types')}
        okg_ = not terms or terms in ([want], [alt])
        if not okg_ and len(terms) == 1 and terms[0] is not None and terms[0][1] is True and len(own) == 1:
            t0 = terms[0][0]; gblk = sorted(own)[0][0]
            shape = None
            if t0[0] == 'f' and t0[1] == 'Lt' and t0[2][:2] == ('f', 'len') and t0[3][:2] == ('f', 'capacity'): shape = (t0[2][2], t0[3][2])
            if t0[0] == 'f' and t0[1] == 'Gt' and t0[3][:2] == ('f', 'len') and t0[2][:2] == ('f', 'capacity'): shape = (t0[3][2], t0[2][2])
            if shape and shape[0] in both and shape[1] in both and lst in both:
                filled_before = [rb for rb, ra in calls('::resize') if ra[0] == shape[0] and gblk in g.reachable_from([rb])]
                okg_ = not filled_before
        if okg_: ck.ok('U', 'early end: %s is filled whenever it is shorter than its capacity' % show(lst), where_of(b, bb))
        else: ck.violation('U', 'U : decode_next_picture : early end guard of %s' % show(lst), where_of(b, bb), '%s.resize(..) runs under %s; expected unconditionally or under len(%s) < capacity(%s)' % (
            show(lst), [(show(t_[0]), t_[1]) if t_ else None for t_ in terms], show(lst), show(lst)))
    caps = [show(a[0]) for bb, a in calls('::with_capacity')]
    ga = calls('gather::gather'); idct = calls('idct::idct_channel'); loopcalls = [bb for bb, t in g.calls() if F.callee_name(t).endswith('macroblock::decode_macroblock')]
    okc = len(ga) == 1 and len(set(caps)) == 1 and len(caps) == 2
    if okc:
        gb, a = ga[0]
        mbpl = a[3]
        okc = show(a[0]) == 'macroblock_types' and show(a[1]) == 'get_reference_picture(self)' or show(a[1]).startswith('get_reference_picture(')
        okc = okc and show(a[2]) == 'predictor_vectors' and show(a[4]) == 'next_decoded_picture' and caps[0].startswith(show(mbpl) + '*')
        okc = okc and all(ib in g.reachable_from([gb]) and gb not in g.reachable_from([ib]) for ib, _ in idct) and all(gb in g.reachable_from([lb]) and lb not in g.reachable_from([gb]) for lb in loopcalls)
    if okc: ck.ok('U', 'gather(macroblock_types, get_reference_picture(), predictor_vectors, mb_per_line, new picture): after the loop, before the three idct_channel calls; capacity = mbpl*mbh', where_of(b, ga[0][0]))
    else: ck.violation('U', 'U : decode_next_picture : gather call', where_of(b), 'gather call / order: %s' % [[show(x) for x in a] for _, a in ga])


def rule_uc(ck, F):
    ck.rule('UC', 'decode_next_picture, not-coded macroblock: rejected with UncodedIFrameBlocks in an I picture; in a P picture and in a disposable P picture '
                  'it becomes an Inter macroblock ("a disposable picture is decoded like a predicted picture") - decided by running the arm for each picture type code')
    b = F.body(CLO); T = Table(F, CLO, paths=False, cast_kinds=True); N = Norm(T); g = T.g
    mbv = {v['name']: v for v in F.adts['h263_rs::types::Macroblock']['variants']}
    unc_arm = None
    for bb in sorted(g.reach):
        t = g.blocks[bb]['term']
        if t['t'] != 'switch': continue
        e = N.n(T.ex(t['on']))
        if e[0] == 'f' and e[1] == 'discr' and show(e[2]).startswith('decode_macroblock(') and show(e[2]).endswith('.as0.0'):
            for val, to in t['arms']:
                if int(val) == int(mbv['Uncoded']['discr']): unc_arm = to
            if unc_arm is None: unc_arm = t['otherwise']
    if unc_arm is None:
        ck.violation('UC', 'UC : decode_next_picture : macroblock match', where_of(b), 'no match on the decoded macroblock with an Uncoded arm'); return
    pf = [f['name'] for f in F.adts['h263_rs::types::Picture']['variants'][0]['fields']]
    want_place = 'as_header(next_decoded_picture).%d' % pf.index('picture_type')
    variants = [(v['name'], int(v['discr'])) for v in F.adts['h263_rs::types::PictureTypeCode']['variants']]
    def agg_of(bb):
        for s_ in g.blocks[bb]['stmts']:
            if s_['s'] == 'assign' and s_['rv']['r'] == 'agg':
                k = s_['rv']['kind']
                if k.get('vname') == 'UncodedIFrameBlocks': return 'Err(UncodedIFrameBlocks)'
                if k.get('path') == 'types::MacroblockType': return k.get('vname')
                if str(k.get('path', '')).endswith('error::Error'): return 'Err(%s)' % k.get('vname')
        return None
    outcome = {}
    for vn, dv in variants:
        env = {}; bb = unc_arm; res = None
        for _ in range(40):
            a = agg_of(bb)
            if a is not None: res = a; break
            for s_ in g.blocks[bb]['stmts']:
                if s_['s'] != 'assign' or s_['lhs'].get('proj'): continue
                l = s_['lhs']['l']; rv = s_['rv']; env.pop(l, None)
                if rv['r'] == 'use' and rv['a'].get('o') == 'const' and rv['a'].get('bits') is not None:
                    try: env[l] = int(rv['a']['bits'])
                    except (TypeError, ValueError): pass
                elif rv['r'] == 'use' and rv['a'].get('o') in ('copy', 'move') and not rv['a']['p'].get('proj') and rv['a']['p']['l'] in env: env[l] = env[rv['a']['p']['l']]
                elif rv['r'] == 'discr' and show(N.n(T.ex_rv(rv))) == 'discr(%s)' % want_place: env[l] = dv
                elif rv['r'] == 'un' and rv.get('op') == 'Not' and rv['a'].get('o') in ('copy', 'move') and not rv['a']['p'].get('proj') and rv['a']['p']['l'] in env: env[l] = 1 - env[rv['a']['p']['l']]
            t = g.blocks[bb]['term']
            if t['t'] == 'goto': bb = t['to']; continue
            if t['t'] == 'switch':
                on = t['on']
                if on.get('o') in ('copy', 'move') and not on['p'].get('proj') and on['p']['l'] in env: v = env[on['p']['l']]
                else: res = 'a decision on %s' % show(N.n(T.ex(on))); break
                bb = {int(x): y for x, y in t['arms']}.get(v, t['otherwise']); continue
            if t['t'] in ('drop', 'assert') and t.get('to') is not None: bb = t['to']; continue
            if t['t'] == 'call' and t.get('to') is not None and F.callee_name(t).split('#')[0].endswith('::as_header'):
                env.pop(t['dest']['l'], None); bb = t['to']; continue
            res = 'a %s terminator%s' % (t['t'], ' (%s)' % F.callee_name(t) if t['t'] == 'call' else ''); break
        outcome[vn] = res
    # (the other type codes - PB, B, EI, EP, reserved - are outside what the properties speak about and are not constrained)
    bad = {vn: r for vn, r in outcome.items() if vn in ('IFrame', 'PFrame', 'DisposablePFrame') and r != ('Err(UncodedIFrameBlocks)' if vn == 'IFrame' else 'Inter')}
    if bad: ck.violation('UC', 'UC : decode_next_picture : not-coded macroblock by picture type', where_of(b, unc_arm), 'a not-coded macroblock must be rejected (UncodedIFrameBlocks) in an I picture '
                         'and be an Inter macroblock in a P and in a disposable P picture; the arm gives %s' % bad)
    else: ck.ok('UC', 'not-coded macroblock: Err(UncodedIFrameBlocks) for IFrame, MacroblockType::Inter for PFrame and DisposablePFrame (all: %s)' % outcome, where_of(b, unc_arm))


def run(ck, F, tier):
    ck.explanation = ('C03 quantifies over all predicted pictures and all reference pictures; end-to-end pixel equality is NOT decided statically. Decided are the structural '
                      'conditions of its mechanism list, each necessary: S edge clamp in read_sample; L lerp and the half-sample split (folded over all vectors); B the three '
                      'interpolation forms of gather_block with their selecting conditions, sample geometry and cropping, and the fast path with the guard that makes it equal '
                      'to the per-sample path; G the six gather_block call sites (vector k, block offsets, chroma vector = average_sum_of_mvs of the four, planes paired); '
                      'N no-reference => error; U not-coded / early-end handling and gather-before-IDCT order; UC a not-coded macroblock is an error exactly in I pictures (among I / P / disposable P); and, re-run on this tree: vector reconstruction, chroma '
                      'rounding, candidate table, median and the call-site wiring of the vector machinery (C12 A, B, D, E, F, M, W) and the residual-add form of all IDCT arms (C10 C).')
    ck.assumptions += ['end-to-end equality of decoded P pictures with the H.263 reconstruction is NOT decided', 'candidate geometry beyond the per-index table of C12 D is not decided']
    rule_s(ck, F); rule_l(ck, F); rule_b(ck, F); rule_g(ck, F); rule_u(ck, F); rule_uc(ck, F)
    s12 = Scoped(ck, 'C12.')
    for fn in ('a_wrap', 'b_chroma', 'd_candidates', 'e_median', 'f_zero_neighbours', 'g_mv_decode', 'w_wiring'):
        getattr(c12, fn)(s12, F)
    s10 = Scoped(ck, 'C10.')
    c10.rule_c(s10, F)
    c10.rule_a(s10, F); c10.rule_b(s10, F); c10.rule_e(s10, F)
    # "plus the reconstructed residual": dequantisation and zig-zag placement (C11 A, P), the call-site agreement of decode_block / inverse_rle / idct_channel and
    # quantizer tracking (C02 D, H); and the header of a predicted picture parsed as the standard lays it out (C06, whole)
    from . import c11, c02, c06
    s11 = Scoped(ck, 'C11.')
    c11.a_formula(s11, F); c11.p_zigzag_cursor(s11, F)
    c02.rule_d(Scoped(ck, 'C02.'), F)
    c06.run(Scoped(ck, 'C06.'), F, tier)
    # the bits of an inter macroblock are attributed to the right syntax elements (COD, MCBPC Table 8, CBPY complemented, DQUANT, MVD, MVD2-4, TCOEF)
    from . import mblayer
    mblayer.run_for(ck, F, 'MB.', ['tcoef', 'mcbpc_p', 'cbpy'], ['macroblock', 'mv', 'block'])
