"""C04 - the reference picture is always the last non-disposable decoded picture.  Structural rules R1-R6."""
from ..cfg import cfg_of
from ..dataflow import defs_of, callee_is, strip_ref, fields_of, const_item_of
from ..callgraph import callgraph
from .. import effects
from ..cprop import Folder, Unknown, discr_only
from ..report import where_of, short_fn
from ..facts import is_test_fn, Unanalysable
from . import reader_rules as rr

ST = 'h263_rs::decoder::state::H263State'
CLO = ST + '::decode_next_picture::{closure#0}'


def state_fields(F):
    a = F.adt(ST)
    return [f['name'] for f in a['variants'][0]['fields']]


def enum_variants(F, path):
    a = F.adt(path)
    return {v['name']: v['idx'] for v in a['variants']}


def field_index(F, adt, name):
    a = F.adt(adt)
    for i, f in enumerate(a['variants'][0]['fields']):
        if f['name'] == name: return i
    raise Unanalysable('field %s.%s not found' % (adt, name))


# ------------------------------------------------------------------ R1
def r1_accessors(ck, F):
    ck.rule('R1', 'in get_<X>_picture the field tested for None and the field whose value keys the map lookup are both field <X> '
                  '(check-A-use-B contradiction rule)')
    names = state_fields(F)
    n = 0
    for acc, fld in (('get_last_picture', 'last_picture'), ('get_reference_picture', 'reference_picture')):
        b = F.body(ST + '::' + acc); g = cfg_of(b); D = defs_of(b)
        want = names.index(fld)
        gets = rr.find_calls(F, b, 'HashMap::<K, V, S, A>::get', 'HashMap::<K, V, S>::get')
        if len(gets) != 1:
            ck.violation('R1', 'R1 : %s : shape' % acc, where_of(b), '%s: expected one HashMap::get, found %d' % (acc, len(gets))); continue
        gbb, gt = gets[0]
        n += 1
        # the map
        mo = strip_ref(D.origin(gt['args'][0]))
        map_ok = mo[0] == 'param' and fields_of(mo[2]) == (names.index('reference_states'),)
        # the key: &(unwrap(self.F)) / &x where x = payload of self.F
        ko = strip_ref(D.origin(gt['args'][1]))
        key_field = None
        if ko[0] == 'call' and callee_is(F, ko[2], 'Option::<T>::unwrap', 'Option::<T>::expect', 'unwrap_unchecked'):
            so = strip_ref(D.origin(ko[2]['args'][0]))
            if so[0] == 'param': key_field = fields_of(so[2])
        elif ko[0] == 'param':
            key_field = fields_of(ko[2])[:1]
        # the guard(s): every switch that dominates the get and tests an Option field of self
        guards = []
        for bb in g.reach:
            t = g.blocks[bb]['term']
            if t['t'] != 'switch' or not g.dominates(bb, gbb) or t['on']['o'] == 'const': continue
            o = D.origin(t['on'])
            if o[0] == 'call' and callee_is(F, o[2], 'Option::<T>::is_none', 'Option::<T>::is_some'):
                so = strip_ref(D.origin(o[2]['args'][0]))
                if so[0] == 'param': guards.append((bb, fields_of(so[2])[:1]))
            elif o[0] == 'rv' and o[2]['rv']['r'] == 'discr':
                so = strip_ref(D.origin_place(o[2]['rv']['p']))
                if so[0] == 'param': guards.append((bb, fields_of(so[2])[:1]))
        key = 'R1 : %s' % acc
        if not map_ok:
            ck.violation('R1', key + ' : map', where_of(b, gbb), '%s does not look up self.reference_states' % acc); continue
        if key_field is None or not guards:
            ck.violation('R1', key + ' : unrecognised', where_of(b, gbb), '%s: could not identify the guarded field (%s) / key field (%s)' % (acc, guards, key_field)); continue
        kf = key_field[0] if key_field else None
        gf = sorted({gfl[0] for _, gfl in guards if gfl})
        if gf != [kf]:
            ck.violation('R1', key + ' : guard/key field mismatch', where_of(b, gbb),
                         '%s tests self.%s for None but keys the lookup with self.%s' % (acc, '/'.join(names[i] for i in gf), names[kf] if kf is not None else '?'))
        elif kf != want:
            ck.violation('R1', key + ' : wrong field', where_of(b, gbb), '%s looks up self.%s, expected self.%s' % (acc, names[kf], fld))
        else:
            ck.ok('R1', '%s: guard and key are both self.%s' % (acc, fld), where_of(b, gbb))
    ck.floor('state accessors analysed', n, 2)
    # who uses which accessor: the reference used for prediction comes from get_reference_picture
    b = F.body(CLO); D = defs_of(b)
    gs = rr.find_calls(F, b, 'cpu::gather::gather')
    if len(gs) != 1:
        ck.violation('R1', 'R1 : closure : gather call', where_of(b), 'expected one gather call in the decode closure, found %d' % len(gs)); return
    gbb, gt = gs[0]
    ro = D.origin(gt['args'][1])
    if ro[0] == 'call' and callee_is(F, ro[2], 'H263State::get_reference_picture'):
        ck.ok('R1', 'prediction source = self.get_reference_picture()', where_of(b, gbb))
    else:
        ck.violation('R1', 'R1 : closure : prediction source', where_of(b, gbb),
                     'the reference passed to gather() does not come from get_reference_picture() (origin %s)' % (ro[:2],))


# ------------------------------------------------------------------ R2
def final_section(F, b):
    """entry block of the section after the last fallible step: the deepest `?`-continue target dominating every state write."""
    g = cfg_of(b); D = defs_of(b)
    be = effects.analysis(F).of(b['name'])
    wblocks = sorted({e.bb for e in be.effects if e.kind == 'w' and e.loc[0] == ('param', 1) and e.loc[1][:1] == (0,)})
    if not wblocks:
        raise Unanalysable('no state writes found in %s' % b['name'])
    cands = []
    for bb in g.reach:
        t = g.blocks[bb]['term']
        if t['t'] != 'switch' or t['on']['o'] == 'const': continue
        o = D.origin(t['on'])
        if o[0] == 'rv' and o[2]['rv']['r'] == 'discr':
            po = D.origin_place(o[2]['rv']['p'])
            if po[0] == 'call' and callee_is(F, po[2], 'std::ops::Try>::branch'):
                arms = {int(v): to for v, to in t['arms']}
                if 0 in arms and all(g.dominates(arms[0], w) for w in wblocks):
                    cands.append(arms[0])
    if not cands:
        raise Unanalysable('no `?` continuation dominates all state writes in %s' % b['name'])
    best = cands[0]
    for c in cands[1:]:
        if g.dominates(best, c): best = c
    return best, wblocks


def section_conditions(g, D, F, start, target):
    """control dependences of `target` on switches inside the section starting at `start` (which dominates target)."""
    sub = g.reachable_from([start])
    cd = g.control_deps().get(target, set())
    return sorted((a, s) for (a, s) in cd if a in sub)


def describe_cond(F, b, a, s):
    """classify the condition of edge a->s: ('is_disposable', bool) / ('picture_type', variant idx or 'other') / ('unknown',...)"""
    g = cfg_of(b); D = defs_of(b)
    t = g.blocks[a]['term']
    o = D.origin(t['on'])
    arms = {int(v): to for v, to in t['arms']}
    hdr_type_field = field_index(F, 'h263_rs::types::Picture', 'picture_type')
    def is_header_type(place_origin):
        po = strip_ref(place_origin)
        if po[0] == 'call' and callee_is(F, po[2], 'DecodedPicture::as_header') and fields_of(po[3]) == (hdr_type_field,):
            return True
        return False
    if o[0] == 'call' and callee_is(F, o[2], 'PictureTypeCode::is_disposable'):
        ao = D.origin(o[2]['args'][0])
        if is_header_type(ao):
            val = [v for v, to in arms.items() if to == s]
            if val == [0]: return ('is_disposable', False)
            if s == t['otherwise'] and s not in arms.values(): return ('is_disposable', True)
        return ('unknown', 'is_disposable of something else')
    if o[0] == 'rv' and o[2]['rv']['r'] == 'discr':
        po = D.origin_place(o[2]['rv']['p'])
        if is_header_type(po):
            val = [v for v, to in arms.items() if to == s]
            if val and s != t['otherwise']: return ('picture_type', tuple(val))
            return ('picture_type', 'other')
    if o[0] in ('rv', 'multi'):
        # matches!() lowers to a bool temp assigned in two arms of a discriminant switch: look one level up
        l = o[2]['lhs']['l'] if o[0] == 'rv' else o[1]
        srcs = D.defs.get(l, [])
        consts = {}
        for d in srcs:
            if d[0] == 'assign' and d[3]['rv']['r'] == 'use' and d[3]['rv']['a']['o'] == 'const':
                consts[d[1]] = int(d[3]['rv']['a'].get('bits', '0'))
        if consts and len(consts) == len(srcs):
            # which predecessor switch decides?
            want = [v for v, to in arms.items() if to == s]
            truth = None
            if want == [0]: truth = 0
            elif s == t['otherwise']: truth = 1
            if truth is not None:
                res = set()
                for cb, cv in consts.items():
                    if (cv != 0) != (truth != 0): continue
                    for (pa, ps) in g.control_deps().get(cb, set()):
                        res.add(describe_cond(F, b, pa, ps))
                if len(res) == 1:
                    return res.pop()
    # a test first stored in a bool (`let keeps = !x.is_disposable(); if keeps {..}`): follow the copy / negation chain
    want = [v for v, to in arms.items() if to == s]
    truth = 0 if want == [0] else (1 if (s == t['otherwise'] and s not in arms.values()) else None)
    def classify(op, tr, depth=0):
        if depth > 6 or op.get('o') not in ('copy', 'move'): return None
        oo = D.origin(op)
        if oo[0] == 'call' and callee_is(F, oo[2], 'PictureTypeCode::is_disposable') and is_header_type(D.origin(oo[2]['args'][0])): return ('is_disposable', bool(tr))
        if oo[0] == 'rv' and oo[2]['rv']['r'] == 'un' and oo[2]['rv'].get('op') == 'Not': return classify(oo[2]['rv']['a'], 1 - tr, depth + 1)
        if oo[0] == 'rv' and oo[2]['rv']['r'] == 'use': return classify(oo[2]['rv']['a'], tr, depth + 1)
        return None
    if truth is not None:
        c_ = classify(t['on'], truth)
        if c_ is not None: return c_
    return ('unknown', 'switch at bb%d' % a)


def r2_updates(ck, F):
    ck.rule('R2', 'update rules in the final section of the decode closure: last_picture := Some(TR) unconditionally; reference_picture := Some(TR) '
                  'exactly when !is_disposable(header.picture_type); reference_picture := None only when header.picture_type is IFrame, and before '
                  'the Some-assignment; reference_states.insert(TR, picture) unconditionally; TR = header.temporal_reference of the picture stored')
    b = F.body(CLO); g = cfg_of(b); D = defs_of(b)
    names = state_fields(F)
    iL, iR, iM = names.index('last_picture'), names.index('reference_picture'), names.index('reference_states')
    start, wblocks = final_section(F, b)
    tr_field = field_index(F, 'h263_rs::types::Picture', 'temporal_reference')
    pt = enum_variants(F, 'h263_rs::types::PictureTypeCode')
    # direct assignments to self fields
    assigns = []     # (bb, field idx, kind 'Some'/'None'/other, payload operand)
    for bb in sorted(g.reach):
        for s in g.blocks[bb]['stmts']:
            if s['s'] != 'assign' or not s['lhs']['proj']: continue
            lo = strip_ref(D.origin_place(s['lhs']))
            if not (lo[0] == 'param' and lo[1] == 1): continue
            fl = fields_of(lo[2])
            if len(fl) < 2 or fl[0] != 0: continue
            src = D.origin(s['rv']['a']) if s['rv']['r'] == 'use' else ('rv', bb, s, [])
            kind = 'other'; payload = None
            if src[0] == 'rv' and src[2]['rv']['r'] == 'agg' and src[2]['rv']['kind'].get('path') == 'std::option::Option':
                kind = src[2]['rv']['kind']['vname']
                payload = src[2]['rv']['ops'][0] if src[2]['rv']['ops'] else None
            assigns.append((bb, fl[1], kind, payload, s['span']))
    def is_tr(op):
        o = strip_ref(D.origin(op))
        return o[0] == 'call' and callee_is(F, o[2], 'DecodedPicture::as_header') and fields_of(o[3]) == (tr_field,)
    okret = [bb for bb in g.reach for s in g.blocks[bb]['stmts'] if s['s'] == 'assign' and s['lhs']['l'] == 0 and not s['lhs']['proj']
             and s['rv']['r'] == 'agg' and s['rv']['kind'].get('vname') == 'Ok']
    def unconditional(bb):
        # every path from the section start to the Ok return passes through bb
        seen = set(); st = [start]
        while st:
            x = st.pop()
            if x in seen or x == bb: continue
            seen.add(x); st.extend(g.succ[x])
        return not (seen & set(okret))
    found = {'L': 0, 'Rsome': 0, 'Rnone': 0}
    some_bb = none_bb = None
    for (bb, fi, kind, payload, span) in assigns:
        wh = where_of(b, bb, span)
        if fi == iL:
            found['L'] += 1
            if kind == 'Some' and payload and is_tr(payload) and unconditional(bb):
                ck.ok('R2', 'last_picture := Some(header.temporal_reference), on every successful path', wh)
            else:
                ck.violation('R2', 'R2 : last_picture update', wh, 'last_picture is assigned %s%s%s' % (kind, '' if payload is None or is_tr(payload) else ' of a value that is not the decoded header\'s temporal reference',
                             '' if unconditional(bb) else ', not on every successful path'))
        elif fi == iR:
            conds = [describe_cond(F, b, a, s) for (a, s) in section_conditions(g, D, F, start, bb)]
            if kind == 'Some':
                found['Rsome'] += 1; some_bb = bb
                if payload and is_tr(payload) and conds == [('is_disposable', False)]:
                    ck.ok('R2', 'reference_picture := Some(TR) exactly under !is_disposable(header.picture_type)', wh)
                else:
                    ck.violation('R2', 'R2 : reference_picture := Some', wh,
                                 'reference_picture := Some(..) happens under conditions %s (expected exactly [!is_disposable(header.picture_type)]) with payload %s'
                                 % (conds, 'TR' if payload and is_tr(payload) else 'not TR'))
            elif kind == 'None':
                found['Rnone'] += 1; none_bb = bb
                if conds == [('picture_type', (pt['IFrame'],))]:
                    ck.ok('R2', 'reference_picture := None only under header.picture_type == IFrame', wh)
                else:
                    ck.violation('R2', 'R2 : reference_picture := None', wh, 'reference_picture := None happens under conditions %s (expected [picture_type == IFrame])' % (conds,))
            else:
                ck.violation('R2', 'R2 : reference_picture := ?', wh, 'reference_picture assigned an unrecognised value')
        elif fi == iM:
            ck.violation('R2', 'R2 : reference_states replaced', wh, 'reference_states is replaced wholesale in the decode closure')
    if found['L'] != 1:
        ck.violation('R2', 'R2 : last_picture update count', where_of(b), 'expected exactly one assignment to last_picture, found %d' % found['L'])
    if found['Rsome'] != 1:
        ck.violation('R2', 'R2 : reference_picture Some count', where_of(b), 'expected exactly one `reference_picture = Some(..)`, found %d' % found['Rsome'])
    if found['Rnone'] > 1:
        ck.violation('R2', 'R2 : reference_picture None count', where_of(b), 'more than one `reference_picture = None`')
    if some_bb is not None and none_bb is not None:
        if some_bb in g.reachable_from(g.succ[none_bb]) and none_bb not in g.reachable_from(g.succ[some_bb]):
            ck.ok('R2', 'the None-assignment precedes the Some-assignment', where_of(b, none_bb))
        else:
            ck.violation('R2', 'R2 : order of reference_picture updates', where_of(b, none_bb), 'reference_picture := None can follow := Some(TR): an I picture would end up without reference')
    # insert
    ins = rr.find_calls(F, b, 'HashMap::<K, V, S, A>::insert', 'HashMap::<K, V, S>::insert')
    ins = [(bb, t) for bb, t in ins if (lambda o: o[0] == 'param' and fields_of(o[2]) == (0, iM))(strip_ref(D.origin(t['args'][0])))]
    if len(ins) != 1:
        ck.violation('R2', 'R2 : insert count', where_of(b), 'expected exactly one reference_states.insert in the decode closure, found %d' % len(ins))
    else:
        ibb, it = ins[0]
        vo = D.origin(it['args'][2])
        # the value stored is the picture whose header supplied TR
        same_pic = True
        if is_tr(it['args'][1]) and unconditional(ibb):
            ck.ok('R2', 'reference_states.insert(header.temporal_reference, picture) on every successful path', where_of(b, ibb))
        else:
            ck.violation('R2', 'R2 : insert key', where_of(b, ibb), 'reference_states.insert is keyed by something other than the header TR, or is conditional')
    # R7: cleanup_buffers() prunes the map down to the entries named by last_picture / reference_picture, so it must run after all three updates
    ck.rule('R7', 'in the decode closure cleanup_buffers() is called once, after the assignment of last_picture, every assignment of reference_picture and the insertion '
                  'of the new picture (it prunes the map to the entries those two fields name); no state write follows it')
    cl = rr.find_calls(F, b, 'H263State::cleanup_buffers')
    writes = []          # (bb, what)
    for bb in sorted(g.reach):
        for s_ in g.blocks[bb]['stmts']:
            if s_['s'] != 'assign': continue
            o = D.origin_place({'l': s_['lhs']['l'], 'proj': s_['lhs']['proj']})
            while o[0] == 'ref': o = o[1]
            if o[0] == 'param' and fields_of(o[2])[:1] == (0,) and len(fields_of(o[2])) >= 2 and fields_of(o[2])[1] in (iL, iR, iM):
                writes.append((bb, {iL: 'last_picture', iR: 'reference_picture', iM: 'reference_states'}[fields_of(o[2])[1]]))
    writes += [(bb, 'reference_states.insert') for bb, _ in ins]
    if len(cl) != 1:
        ck.violation('R7', 'R7 : cleanup_buffers calls', where_of(b), 'expected one cleanup_buffers() call in the decode closure, found %d' % len(cl))
    else:
        cb = cl[0][0]
        after = [(bb, w) for bb, w in writes if bb in g.reachable_from([cb]) and bb != cb]
        not_before = [(bb, w) for bb, w in writes if cb not in g.reachable_from([bb])]
        kinds = {w for _, w in writes}
        if after or not_before or not {'last_picture', 'reference_picture', 'reference_states.insert'} <= kinds:
            ck.violation('R7', 'R7 : order of state updates and cleanup_buffers', where_of(b, cb), 'cleanup_buffers() does not come after all state updates: updates reachable after it %s, updates that cannot reach it %s (updates found: %s)' % (
                sorted(set(w for _, w in after)), sorted(set(w for _, w in not_before)), sorted(kinds)))
        else:
            ck.ok('R7', 'cleanup_buffers() after last_picture, reference_picture (%d sites) and the insertion; nothing written after it' % len([1 for _, w in writes if w == 'reference_picture']), where_of(b, cb))
    return start


# ------------------------------------------------------------------ R3
def r3_picture_type_syntax(ck, F):
    ck.rule('R3', 'decode_macroblock: for picture type IFrame the MCBPC code is read with MCBPC_I_TABLE and no COD bit is read; for PFrame and '
                  'DisposablePFrame a COD bit is read and MCBPC_P_TABLE is used')
    b = F.body('h263_rs::parser::macroblock::decode_macroblock::{closure#0}'); g = cfg_of(b); D = defs_of(b)
    pt = enum_variants(F, 'h263_rs::types::PictureTypeCode')
    ptf = field_index(F, 'h263_rs::types::Picture', 'picture_type')
    # switches on discriminant(picture.picture_type)
    sw = []
    for bb in sorted(g.reach):
        t = g.blocks[bb]['term']
        if t['t'] != 'switch' or t['on']['o'] == 'const': continue
        o = D.origin(t['on'])
        if o[0] == 'rv' and o[2]['rv']['r'] == 'discr':
            po = strip_ref(D.origin_place(o[2]['rv']['p']))
            if po[0] == 'param' and po[1] == 1 and fields_of(po[2])[-1:] == (ptf,):
                sw.append(bb)
    if len(sw) < 2:
        ck.violation('R3', 'R3 : decode_macroblock : shape', where_of(b), 'expected switches on picture.picture_type, found %d' % len(sw)); return
    def first_call_from(bb):
        seen = set()
        while bb not in seen:
            seen.add(bb)
            t = g.blocks[bb]['term']
            if t['t'] == 'call':
                if callee_is(F, t, '>::index', 'RangeFull'):
                    bb = t['to']; continue
                return bb, t
            if t['t'] in ('goto', 'drop', 'assert') or (t['t'] == 'switch' and len(g.succ[bb]) == 1):
                bb = g.succ[bb][0]; continue
            return bb, None
        return bb, None
    def target_for(bb, v):
        t = g.blocks[bb]['term']
        for val, to in t['arms']:
            if int(val) == v: return to
        return t['otherwise']
    # the table switch: the one whose arms lead to read_vlc
    table_sw = None
    for bb in sw:
        tgt = target_for(bb, pt['IFrame'])
        cb, ct = first_call_from(tgt)
        if ct is not None and callee_is(F, ct, 'H263Reader::<R>::read_vlc'):
            table_sw = bb
    if table_sw is None:
        ck.violation('R3', 'R3 : decode_macroblock : no table switch', where_of(b), 'no switch on picture_type selects an MCBPC table'); return
    want = {'IFrame': 'parser::macroblock::MCBPC_I_TABLE', 'PFrame': 'parser::macroblock::MCBPC_P_TABLE', 'DisposablePFrame': 'parser::macroblock::MCBPC_P_TABLE'}
    for vname, table in want.items():
        tgt = target_for(table_sw, pt[vname])
        cb, ct = first_call_from(tgt)
        got = None
        if ct is not None and callee_is(F, ct, 'H263Reader::<R>::read_vlc'):
            got = const_item_of(F, b, ct['args'][1])
        key = 'R3 : decode_macroblock : %s' % vname
        if got == table:
            ck.ok('R3', '%s -> read_vlc(%s)' % (vname, table.split('::')[-1]), where_of(b, cb))
        else:
            what = got or ('no MCBPC read (%s)' % _describe_block(F, b, tgt))
            ck.violation('R3', key + ' : table', where_of(b, tgt), 'picture type %s selects %s, expected %s' % (vname, what, table.split('::')[-1]))
    # COD bit: the first switch (dominating the table switch): IFrame -> no read, others -> read_bits(1)
    first = [bb for bb in sw if bb != table_sw and g.dominates(bb, table_sw)]
    if not first:
        ck.violation('R3', 'R3 : decode_macroblock : COD switch', where_of(b), 'no picture_type test before the MCBPC read (COD bit)'); return
    fb = first[0]
    for vname in ('IFrame', 'PFrame', 'DisposablePFrame'):
        tgt = target_for(fb, pt[vname])
        # follow through the matches!() bool temp: find whether a read_bits call is reached before the table switch
        seen = set(); st = [tgt]; reads = False
        while st:
            x = st.pop()
            if x in seen or x == table_sw: continue
            seen.add(x)
            t = g.blocks[x]['term']
            if t['t'] == 'call' and callee_is(F, t, 'H263Reader::<R>::read_bits'):
                reads = True
            # only follow the edge consistent with the matches!() result
            st.extend(_consistent_succs(g, D, b, x, vname == 'IFrame'))
        want_read = vname != 'IFrame'
        if reads == want_read:
            ck.ok('R3', '%s: COD bit %s' % (vname, 'read' if reads else 'not read'), where_of(b, fb))
        else:
            ck.violation('R3', 'R3 : decode_macroblock : COD for %s' % vname, where_of(b, fb), 'picture type %s: COD bit is %s' % (vname, 'read' if reads else 'not read'))


def _consistent_succs(g, D, b, x, is_iframe):
    t = g.blocks[x]['term']
    if t['t'] == 'switch' and t['on']['o'] != 'const':
        o = D.origin(t['on'])
        l = None
        if o[0] == 'multi': l = o[1]
        elif o[0] == 'rv': l = o[2]['lhs']['l']
        if l is not None:
            ds = D.defs.get(l, [])
            if ds and all(d[0] == 'assign' and d[3]['rv']['r'] == 'use' and d[3]['rv']['a']['o'] == 'const' for d in ds) and len(ds) == 2:
                # bool temp of matches!(picture_type, IFrame)
                arms = {int(v): to for v, to in t['arms']}
                return [t['otherwise']] if is_iframe else [arms.get(0, t['otherwise'])]
    return g.succ[x]


def _describe_block(F, b, bb):
    blk = b['blocks'][bb]
    for s in blk['stmts']:
        if s['s'] == 'assign' and s['rv']['r'] == 'agg' and s['rv']['kind'].get('path', '').endswith('Error'):
            return 'Err(%s)' % s['rv']['kind']['vname']
    return 'bb%d' % bb


# ------------------------------------------------------------------ R4
def r4_key_aliasing(ck, F, start):
    ck.rule('R4', 'a picture that may be disposable is stored under its temporal reference only if that key cannot be the key of the current '
                  'reference picture (a dominating test against reference_picture, or separate storage)')
    b = F.body(CLO); g = cfg_of(b); D = defs_of(b)
    names = state_fields(F); iM = names.index('reference_states'); iR = names.index('reference_picture')
    ins = rr.find_calls(F, b, 'HashMap::<K, V, S, A>::insert', 'HashMap::<K, V, S>::insert')
    for ibb, it in ins:
        mo = strip_ref(D.origin(it['args'][0]))
        if not (mo[0] == 'param' and fields_of(mo[2]) == (0, iM)): continue
        conds = [describe_cond(F, b, a, s) for (a, s) in section_conditions(g, D, F, start, ibb)]
        if ('is_disposable', False) in conds:
            ck.ok('R4', 'insert only for non-disposable pictures', where_of(b, ibb)); continue
        # is there a dominating comparison between the key and self.reference_picture?
        guarded = False
        for bb in g.reach:
            t = g.blocks[bb]['term']
            if t['t'] != 'switch' or not g.dominates(bb, ibb) or t['on']['o'] == 'const': continue
            o = D.origin(t['on'])
            if o[0] == 'rv' and o[2]['rv']['r'] == 'bin' and o[2]['rv']['op'] in ('Eq', 'Ne'):
                srcs = [strip_ref(D.origin(o[2]['rv'][k])) for k in ('a', 'b')]
                if any(s[0] == 'param' and fields_of(s[2])[:2] == (0, iR) for s in srcs):
                    guarded = True
            if o[0] == 'call' and callee_is(F, o[2], 'PartialEq>::eq', 'PartialEq>::ne', 'contains_key'):
                for a in o[2]['args']:
                    s = strip_ref(D.origin(a))
                    if s[0] == 'param' and fields_of(s[2])[:2] == (0, iR): guarded = True
        if guarded:
            ck.ok('R4', 'insert guarded by a comparison with reference_picture', where_of(b, ibb))
        else:
            ck.violation('R4', 'R4 : closure : unguarded insert of possibly-disposable picture', where_of(b, ibb),
                         'reference_states.insert(TR, picture) is executed for disposable pictures too and is not guarded against TR == reference_picture: '
                         'a disposable picture whose TR equals the reference\'s replaces the reference picture')


# ------------------------------------------------------------------ R5
def r5_who_may_write(ck, F):
    ck.rule('R5', 'last_picture / reference_picture / reference_states are written only in new, the decode closure and cleanup_buffers; '
                  'cleanup_buffers re-inserts exactly the entries it removed under those two keys')
    names = state_fields(F)
    EA = effects.analysis(F)
    allowed = {ST + '::new', CLO, ST + '::cleanup_buffers', ST + '::cleanup_buffers::{closure#0}', ST + '::cleanup_buffers::{closure#1}'}
    nw = 0
    for name, be in sorted(EA.per_body.items()):
        if is_test_fn(name): continue
        b = F.bodies[name]
        for e in be.effects:
            if e.kind != 'w' or e.loc[0][0] != 'param': continue
            pty = b['locals'][e.loc[0][1]]['s']
            direct = not (e.via in F.bodies)
            if not direct: continue
            # the location must be inside an H263State
            path = e.loc[1]
            is_state = 'H263State' in pty and 'closure' not in pty
            is_clo_state = name.startswith(ST + '::') and name.endswith('}') and path[:1] == (0,)
            if not (is_state or is_clo_state): continue
            nw += 1
            if name in allowed:
                ck.ok('R5', '%s writes state%s' % (short_fn(name), list(path)), where_of(b, e.bb), nontrivial=False)
            else:
                ck.violation('R5', 'R5 : state written by %s' % short_fn(name), where_of(b, e.bb), '%s writes decoder state %s (via %s)' % (short_fn(name), path, e.via))
    ck.floor('direct state write sites', nw, 6)
    # cleanup_buffers structure
    b = F.body(ST + '::cleanup_buffers'); g = cfg_of(b); D = defs_of(b)
    iL, iR, iM = names.index('last_picture'), names.index('reference_picture'), names.index('reference_states')
    removed = {}
    for cn, fld in ((ST + '::cleanup_buffers::{closure#0}', None), (ST + '::cleanup_buffers::{closure#1}', None)):
        if cn not in F.bodies: continue
        cb = F.bodies[cn]; cD = defs_of(cb)
        rs = rr.find_calls(F, cb, 'HashMap::<K, V, S, A>::remove_entry', 'HashMap::<K, V, S>::remove_entry')
        if len(rs) == 1:
            ko = strip_ref(cD.origin(rs[0][1]['args'][1]))
            mo = strip_ref(cD.origin(rs[0][1]['args'][0]))
            if ko[0] == 'param' and ko[1] == 2 and mo[0] == 'param' and fields_of(mo[2])[-1:] == (iM,):
                removed[cn] = True
    ats = rr.find_calls(F, b, 'Option::<T>::and_then')
    srcs = []
    for bb, t in ats:
        so = strip_ref(D.origin(t['args'][0]))
        clo = [c for c in t['f'].get('closures', [])]
        if so[0] == 'param' and clo and ('h263_rs::' + clo[0]) in removed:
            srcs.append((fields_of(so[2]), t['dest']['l']))
    ins = rr.find_calls(F, b, 'HashMap::<K, V, S, A>::insert', 'HashMap::<K, V, S>::insert')
    ok = sorted(f for f, _ in srcs) == sorted([(iL,), (iR,)]) and len(ins) == 2
    if ok:
        # each insert's key and value come from one of the removed tuples
        res_locals = {l for _, l in srcs}
        used = set()
        for ibb, it in ins:
            k0 = D.origin(it['args'][1]); v0 = D.origin(it['args'][2])
            def base(o):
                o = strip_ref(o)
                if o[0] == 'call': return o[2]['dest']['l']
                if o[0] == 'multi': return o[1]
                return None
            if base(k0) in res_locals and base(k0) == base(v0):
                used.add(base(k0))
            else:
                ok = False
        if used != res_locals: ok = False
    if ok:
        ck.ok('R5', 'cleanup_buffers: removes entries keyed last_picture and reference_picture, clears the map, re-inserts exactly those', where_of(b))
    else:
        ck.violation('R5', 'R5 : cleanup_buffers : structure', where_of(b), 'cleanup_buffers does not re-insert exactly the entries removed under last_picture / reference_picture')


# ------------------------------------------------------------------ R6
def r6_disposable(ck, F):
    ck.rule('R6', 'PictureTypeCode::is_disposable is true exactly for DisposablePFrame; Sorenson picture-type code 2 produces DisposablePFrame')
    pt = enum_variants(F, 'h263_rs::types::PictureTypeCode')
    fo = Folder(F)
    bad = []
    for vname, idx in pt.items():
        try:
            r = fo.call('h263_rs::types::PictureTypeCode::is_disposable', [discr_only(idx)])
        except Unknown as e:
            bad.append('%s: %s' % (vname, e)); continue
        if r[0] != 'bool' or r[1] != (vname == 'DisposablePFrame'):
            bad.append('%s -> %s' % (vname, r))
    b = F.body('h263_rs::types::PictureTypeCode::is_disposable')
    if bad:
        ck.violation('R6', 'R6 : is_disposable : table', where_of(b), 'is_disposable decision table wrong: %s' % '; '.join(bad))
    else:
        ck.ok('R6', 'is_disposable: folded over %d variants, true only for DisposablePFrame' % len(pt), where_of(b))
    # Sorenson code 2
    b = F.body('h263_rs::parser::picture::decode_sorenson_ptype::{closure#0}'); g = cfg_of(b); D = defs_of(b)
    hit = None
    for bb in sorted(g.reach):
        t = g.blocks[bb]['term']
        if t['t'] != 'switch' or t['on']['o'] == 'const': continue
        arms = {int(v): to for v, to in t['arms']}
        for v, to in arms.items():
            for s in g.blocks[to]['stmts']:
                if s['s'] == 'assign' and s['rv']['r'] == 'agg' and s['rv']['kind'].get('path') == 'types::PictureTypeCode' and s['rv']['kind']['vname'] == 'DisposablePFrame':
                    hit = (bb, v)
    if hit and hit[1] == 2:
        ck.ok('R6', 'Sorenson picture type code 2 -> DisposablePFrame', where_of(b, hit[0]))
    else:
        ck.violation('R6', 'R6 : sorenson type code', where_of(b), 'DisposablePFrame is produced for code %s (expected 2)' % (hit[1] if hit else 'none'))


def r8_initial_state(ck, F):
    ck.rule('R8', 'a new decoder has no last picture, no reference picture and an empty picture store (the base case of the induction over decode calls)')
    from ..dataflow import expr_of, expr_str, ematch, ANY
    b = F.body('h263_rs::decoder::state::H263State::new')
    e = expr_of(F, b, {'o': 'copy', 'p': {'l': 0, 'proj': []}})
    fl = [f.get('name') for f in F.adt('h263_rs::decoder::state::H263State')['variants'][0]['fields']]
    want = {'decoder_options': ('param', 1, ()), 'last_picture': ('agg', 'None'), 'reference_picture': ('agg', 'None'),
            'running_options': ('callp', 'PictureOption>::empty'), 'reference_states': ('callp', 'HashMap::<K, V>::new')}
    bad = []
    if e[0] != 'agg' or len(e) != 2 + len(fl): bad.append('H263State::new returns %s' % expr_str(e, b.get('debug', {}))[:200])
    else:
        for i, f in enumerate(fl):
            if f not in want: bad.append('unexpected field %s' % f); continue
            if ematch(want[f], e[2 + i]) is None: bad.append('%s := %s' % (f, expr_str(e[2 + i], b.get('debug', {}))[:80]))
    if bad: ck.violation('R8', 'R8 : H263State::new : initial state', where_of(b), '; '.join(bad))
    else: ck.ok('R8', 'H263State::new: options as given, last_picture = reference_picture = None, running options empty, store empty', where_of(b))


def run(ck, F, tier):
    ck.explanation = ('C04 decided structurally on MIR: R1 accessor guard/key field agreement (contradiction rule) and prediction source; '
                      'R2 update rules of last_picture/reference_picture/reference_states by control dependence inside the final section of the '
                      'decode closure; R3 macroblock syntax selection per picture type (table constants resolved through promoted consts); '
                      'R4 map-key aliasing between a disposable picture and the reference; R5 who-may-write + cleanup_buffers structure; '
                      'R6 is_disposable folded over all variants. Rejected pictures changing nothing is C05.')
    ck.assumptions += ['std HashMap get/insert/remove_entry semantics']
    r1_accessors(ck, F)
    start = None
    try:
        start = r2_updates(ck, F)
    except Unanalysable as e:
        ck.unanalysable('R2 final section', str(e))
    r3_picture_type_syntax(ck, F)
    if start is not None:
        r4_key_aliasing(ck, F, start)
    r5_who_may_write(ck, F)
    r6_disposable(ck, F)
    r8_initial_state(ck, F)
    # "a disposable picture is decoded like a predicted picture": besides the macroblock syntax (R3), the macroblock loop treats the two alike where
    # it looks at the picture type - a not-coded macroblock is an error only in an I picture (C03's rule UC, re-run on this tree)
    from . import c03
    from ..report import Scoped
    c03.rule_uc(Scoped(ck, 'C03.'), F)
    # "every predicted picture is predicted from ..": with no reference there is nothing to predict from - gather rejects the picture, and otherwise reads the planes of that reference (C03's rules G and N)
    c03.rule_g(Scoped(ck, 'C03.'), F)
