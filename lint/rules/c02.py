"""C02 - intra pictures reconstruct exactly: the structural clauses (numerical equality of the float pipeline with the ideal transform is not decided)."""
from ..bitslice import Table
from ..loopexpr import Norm, show, find, stores, mk_mul, mk_add, mk_sub, ev, NotExact
from .. import tables
from ..report import where_of, Scoped
from ..facts import Unanalysable
from . import c10, c11, c13

CLO = 'h263_rs::decoder::state::H263State::decode_next_picture::{closure#0}'
RLE = 'h263_rs::decoder::cpu::rle::inverse_rle'


def zigzag_table():
    """Figure 14/H.263 scan order as (x, y): 1 2 6 7 15 16 28 29 / 3 5 8 14 ... : position in scan of sample (x, y)"""
    order = [[1, 2, 6, 7, 15, 16, 28, 29], [3, 5, 8, 14, 17, 27, 30, 43], [4, 9, 13, 18, 26, 31, 42, 44], [10, 12, 19, 25, 32, 41, 45, 54],
             [11, 20, 24, 33, 40, 46, 53, 55], [21, 23, 34, 39, 47, 52, 56, 61], [22, 35, 38, 48, 51, 57, 60, 62], [36, 37, 49, 50, 58, 59, 63, 64]]
    pos = [None] * 64
    for y in range(8):
        for x in range(8):
            pos[order[y][x] - 1] = (x, y)
    return pos


def gen_zigzag():
    """generated independently of the figure: walk the anti-diagonals s = x + y; on odd s go down-left (x descending), on even s go up-right (x ascending ... from the bottom)"""
    out = []
    for s in range(15):
        pts = [(x, s - x) for x in range(8) if 0 <= s - x < 8]
        # even diagonal: travelled from bottom-left to top-right => y descending => x ascending; odd diagonal: top-right to bottom-left => x descending
        pts.sort(key=lambda p: p[0], reverse=(s % 2 == 1))
        out.extend(pts)
    return out


def rule_z(ck, F):
    ck.rule('Z', 'DEZIGZAG_MAPPING (folded from its const MIR) is the zig-zag scan of Figure 14/H.263 as (x, y) pairs: equal to the figure and to the scan generated from its '
                 'definition, and a bijection onto the 8x8 block')
    v = tables.plain(tables.fold_const(F, 'h263_rs::decoder::cpu::rle::DEZIGZAG_MAPPING'))
    got = [tuple(p) for p in v]
    fig = zigzag_table(); gen = gen_zigzag()
    if fig != gen:
        ck.unanalysable('zig-zag oracle', 'the two independent constructions of the scan disagree'); return
    if got == fig and len(set(got)) == 64:
        ck.ok('Z', 'DEZIGZAG_MAPPING: 64 entries equal to the generated scan; bijection')
    else:
        bad = [(i, got[i] if i < len(got) else None, fig[i]) for i in range(64) if i >= len(got) or got[i] != fig[i]]
        ck.violation('Z', 'Z : DEZIGZAG_MAPPING : entries', None, 'DEZIGZAG_MAPPING differs from the zig-zag scan at (index, found, expected) %s' % bad[:6])


def tab_equal(term, var, fn, lo=0, hi=65535):
    try:
        for x in range(lo, hi + 1):
            if ev(term, {var: x}) != fn(x): return 'at %d: %s' % (x, ev(term, {var: x}))
    except (NotExact, Unanalysable) as e:
        return str(e)
    return None


def typed_tab(T, N, raw, var_term, var_ty, fn, lo=0, hi=65535):
    """like tab_equal, but on the raw def-use expression with Rust integer semantics (types, wrap-on-cast, overflow detection) when the expression is pure
    integer arithmetic; None = equal everywhere, str = first difference / overflow, 'float' = not an integer expression (caller falls back to the float tabulation)"""
    vars_ = []
    def walk(x):
        if isinstance(x, tuple) and x and isinstance(x[0], str):
            if x[0] != 'cast' and N.n(x) == var_term: vars_.append(x); return
            for y in x[1:]:
                if isinstance(y, tuple): walk(y)
    walk(raw)
    if not vars_: return 'does not depend on the dimension'
    try:
        for w in range(lo, hi + 1):
            env = {v: (w, var_ty) for v in vars_}
            got, _ = c11.eval_int(raw, env)
            if got != fn(w): return 'at %d: %s, expected %s' % (w, got, fn(w))
    except c11.Overflow as e:
        return 'at %d: %s' % (w, e)
    except Unanalysable:
        return 'float'
    return None


def rule_d(ck, F):
    ck.rule('D', 'macroblock body: block k of macroblock n (origin ((n mod mbpl)*16, (n div mbpl)*16), mbpl = ceil(w/16)) is decoded with CBP entry k and dequantised into the '
                 'level array of its plane at origin + (8(k&1), 8(k>>1)) [chroma: origin/2] with the same blocks-per-line that idct_channel later uses with that array, that '
                 'plane\'s mutable samples and that plane\'s row length; level arrays hold one entry per 8x8 block of the padded picture')
    b = F.body(CLO); T = Table(F, CLO, paths=False, cast_kinds=True); N = Norm(T)
    g = T.g
    W = ('fld', ('f', 'try', ('f', 'ok_or', ('f', 'into_width_and_height', ('v', 'format')), ('agg', 'PictureFormatInvalid'))), (0,))
    H = ('fld', W[1], (1,))
    def calls(suffix): return [(bb, t, [N.n(T.ex(a)) for a in t['args']]) for bb, t in g.calls() if F.callee_name(t).endswith(suffix)]
    rle = calls('rle::inverse_rle'); db = calls('block::decode_block'); idct = calls('idct::idct_channel')
    if len(rle) != 6 or len(db) != 6 or len(idct) != 3:
        ck.violation('D', 'D : decode_next_picture : call counts', where_of(b), 'expected 6 decode_block, 6 inverse_rle and 3 idct_channel calls, found %d, %d, %d' % (len(db), len(rle), len(idct))); return
    # mbpl / mbh as functions of the width / height
    mbpl = rle[4][2][3]                       # chroma blocks per line = macroblocks per line
    raw_mbpl = T.ex(rle[4][1]['args'][3])
    msg = typed_tab(T, N, raw_mbpl, W, 'u16', lambda x: (x + 15) // 16)
    if msg == 'float': msg = tab_equal(mbpl, W, lambda x: (x + 15) // 16) if find(mbpl, lambda z: z == W) else 'does not depend on the width'
    if msg is None: ck.ok('D', 'mb_per_line = %s = ceil(w/16) for every w in 0..=65535 (tabulated)' % show(mbpl), where_of(b))
    else: ck.violation('D', 'D : decode_next_picture : mb_per_line', where_of(b), 'macroblocks per line %s is not ceil(w/16): %s' % (show(mbpl), msg)); return
    n = ('f', 'len', ('v', 'macroblock_types'))
    ox = mk_mul([('f', 'Rem', n, mbpl), ('c', 16)]); oy = mk_mul([('f', 'Div', n, mbpl), ('c', 16)])
    dmb = ('fld', ('f', 'decode_macroblock', ('v', 'reader'), ('f', 'as_header', ('v', 'next_decoded_picture')), ('v', 'next_running_options')), (('as', 0), 0, ('as', 2)))
    # the macroblock layer is parsed with this picture's header and this picture's options (the set built from the header just parsed: Annex D
    # vector codes, ...), not with what the decoder object still holds from before
    mbc = calls('macroblock::decode_macroblock')
    if len(mbc) != 1:
        ck.violation('D', 'D : decode_next_picture : decode_macroblock calls', where_of(b), 'expected one decode_macroblock call in the macroblock loop, found %d' % len(mbc)); return
    want_mb = list(dmb[1][2:])
    if mbc[0][2] != want_mb:
        ck.violation('D', 'D : decode_next_picture : decode_macroblock arguments', where_of(b, mbc[0][0]),
                     'decode_macroblock is given (%s), expected (%s): the reader, the header of the picture being decoded and the options in force for it' % (
                         ', '.join(show(x) for x in mbc[0][2]), ', '.join(show(x) for x in want_mb))); return
    ck.ok('D', 'decode_macroblock(%s)' % ', '.join(show(x) for x in want_mb), where_of(b, mbc[0][0]))
    mbv = [v for v in F.adts['h263_rs::types::Macroblock']['variants'] if v['name'] == 'Coded'][0]
    fidx = {f['name']: i for i, f in enumerate(mbv['fields'])}
    dmb = (dmb[0], dmb[1], (('as', 0), 0, ('as', mbv['idx'])))
    cidx = {f['name']: i for i, f in enumerate(F.adts['h263_rs::types::CodedBlockPattern']['variants'][0]['fields'])}
    def cbp(path): return ('fld', dmb[1], dmb[2] + (fidx['coded_block_pattern'],) + path)
    expect = [
        ('luma 0', ('el', cbp((cidx['codes_luma'],)), ('c', 0)), 'luma_levels', (ox, oy), mk_mul([mbpl, ('c', 2)])),
        ('luma 1', ('el', cbp((cidx['codes_luma'],)), ('c', 1)), 'luma_levels', (mk_add([ox, ('c', 8)]), oy), mk_mul([mbpl, ('c', 2)])),
        ('luma 2', ('el', cbp((cidx['codes_luma'],)), ('c', 2)), 'luma_levels', (ox, mk_add([oy, ('c', 8)])), mk_mul([mbpl, ('c', 2)])),
        ('luma 3', ('el', cbp((cidx['codes_luma'],)), ('c', 3)), 'luma_levels', (mk_add([ox, ('c', 8)]), mk_add([oy, ('c', 8)])), mk_mul([mbpl, ('c', 2)])),
        ('chroma b', cbp((cidx['codes_chroma_b'],)), 'chroma_b_levels', (N.op('Div', ox, ('c', 2)), N.op('Div', oy, ('c', 2))), mbpl),
        ('chroma r', cbp((cidx['codes_chroma_r'],)), 'chroma_r_levels', (N.op('Div', ox, ('c', 2)), N.op('Div', oy, ('c', 2))), mbpl),
    ]
    st_fields = [f['name'] for f in F.adts['h263_rs::decoder::state::H263State']['variants'][0]['fields']]
    self_up = [int(k) for k, v in (b.get('upvars') or {}).items() if v == 'self']
    if len(self_up) != 1 or 'decoder_options' not in st_fields:
        ck.violation('D', 'D : decode_next_picture : self', where_of(b), 'the captured self / H263State::decoder_options were not found (upvars %s, fields %s)' % (b.get('upvars'), st_fields)); return
    dec_opts = ('fld', ('v', 'arg1'), (self_up[0], st_fields.index('decoder_options')))
    order = sorted(range(6), key=lambda i: T.order[rle[i][0]])
    dbo = sorted(range(6), key=lambda i: T.order[db[i][0]])
    q = None
    for j, (what, code, arr, pos, bpl) in enumerate(expect):
        rb, rt, ra = rle[order[j]]; dbb, dt, da = db[dbo[j]]
        probs = []
        if da[-1] != code: probs.append('decode_block is given %s, expected the coded-block flag %s' % (show(da[-1]), show(code)))
        # what else decode_block is told: the decoder's options (Sorenson escape forms), the header of the picture being decoded (its version),
        # and this macroblock's type (INTRADC present iff intra)
        # (the option set it is also given only selects between two error kinds for an invalid level - MB.T - and is not constrained here)
        want_args = [('decoder options', dec_opts), ('picture header', ('f', 'as_header', ('v', 'next_decoded_picture'))), None,
                     ('macroblock type', ('fld', dmb[1], dmb[2] + (fidx['mb_type'],)))]
        if len(da) != 6: probs.append('decode_block takes %d arguments, the rule was written for 6' % len(da))
        else:
            for wa, got_ in zip(want_args, da[1:5]):
                if wa is not None and got_ != wa[1]: probs.append('decode_block is given %s as its %s, expected %s' % (show(got_), wa[0], show(wa[1])))
        if ra[0] != ('f', 'try', ('f', 'decode_block') + tuple(da)): probs.append('inverse_rle does not receive the block just decoded')
        if show(ra[1]) != arr: probs.append('levels go to %s, expected %s' % (show(ra[1]), arr))
        if ra[2] != ('agg', 'tuple') + pos: probs.append('position %s, expected (%s, %s)' % (show(ra[2]), show(pos[0]), show(pos[1])))
        if ra[3] != bpl: probs.append('blocks per line %s, expected %s' % (show(ra[3]), show(bpl)))
        if q is None: q = ra[4]
        if ra[4] != q or show(ra[4]) != 'in_force_quantizer': probs.append('quantizer %s' % show(ra[4]))
        if not g.dominates(dbb, rb): probs.append('order')
        if probs: ck.violation('D', 'D : decode_next_picture : %s' % what, where_of(b, rb), '%s block: %s' % (what, '; '.join(probs)))
        else: ck.ok('D', '%s: decode_block(.., %s) -> inverse_rle(.., %s, (%s, %s), %s, in_force_quantizer)' % (what, show(code), arr, show(pos[0]), show(pos[1]), show(bpl)), where_of(b, rb))
    # idct_channel: same arrays, same blocks per line, the plane's samples and row length
    want = {'luma_levels': ('as_luma_mut(next_decoded_picture)', mk_mul([mbpl, ('c', 2)]), W),
            'chroma_b_levels': ('as_chroma_b_mut(next_decoded_picture)', mbpl, ('f', 'chroma_samples_per_row', ('v', 'next_decoded_picture'))),
            'chroma_r_levels': ('as_chroma_r_mut(next_decoded_picture)', mbpl, ('f', 'chroma_samples_per_row', ('v', 'next_decoded_picture')))}
    seen = set()
    for ib, it, ia in idct:
        arr = show(ia[0]); w = want.get(arr)
        seen.add(arr)
        if w is None or show(ia[1]) != w[0] or ia[2] != w[1] or ia[3] != w[2]:
            ck.violation('D', 'D : decode_next_picture : idct_channel(%s)' % arr, where_of(b, ib), 'idct_channel(%s, %s, %s, %s); expected (%s, %s, %s)' % (
                arr, show(ia[1]), show(ia[2]), show(ia[3]), w[0] if w else '?', show(w[1]) if w else '?', show(w[2]) if w else '?'))
        else:
            ck.ok('D', 'idct_channel(%s, %s, %s, %s): blocks per line agree with inverse_rle' % (arr, w[0], show(w[1]), show(w[2])), where_of(b, ib))
        if not all(ib in g.reachable_from([rb]) and rb not in g.reachable_from([ib]) for rb, _, _ in rle): ck.violation('D', 'D : decode_next_picture : idct order', where_of(b, ib), 'idct_channel runs before the levels are complete')
    if seen != set(want): ck.violation('D', 'D : decode_next_picture : idct planes', where_of(b), 'idct_channel is applied to %s' % sorted(seen))
    # level array sizes
    allocs = {}
    for bb, t in g.calls():
        if F.callee_name(t).endswith('from_elem') and show(N.n(T.ex(t['args'][0]))) == 'Zero()':
            dest = T.names.get(str(t['dest']['l']))
            allocs[dest] = N.n(T.ex(t['args'][1]))
    mbh = None
    for nm, t in allocs.items():
        hs = [x for x in (t[1:] if t[0] == '*' else ()) if find(x, lambda z: z == H)]
        if hs: mbh = hs[0]
    msg = 'no height factor'
    if mbh is not None:
        raw_h = None
        for bb, t in g.calls():
            if F.callee_name(t).endswith('from_elem') and show(N.n(T.ex(t['args'][0]))) == 'Zero()':
                def find_raw(x):
                    if isinstance(x, tuple) and x and isinstance(x[0], str):
                        if N.n(x) == mbh: return x
                        for y in x[1:]:
                            r = find_raw(y) if isinstance(y, tuple) else None
                            if r is not None: return r
                    return None
                raw_h = raw_h or find_raw(T.ex(t['args'][1]))
        msg = typed_tab(T, N, raw_h, H, 'u16', lambda x: (x + 15) // 16) if raw_h is not None else 'float'
        if msg == 'float': msg = tab_equal(mbh, H, lambda x: (x + 15) // 16)
    sizes = {'luma_levels': mk_mul([mbpl, mbh, ('c', 4)]) if mbh else None, 'chroma_b_levels': mk_mul([mbpl, mbh]) if mbh else None, 'chroma_r_levels': mk_mul([mbpl, mbh]) if mbh else None}
    if msg is None and all(allocs.get(k) == v for k, v in sizes.items()):
        ck.ok('D', 'level arrays: luma 4*mbpl*mbh, chroma mbpl*mbh blocks, mbh = %s = ceil(h/16) (tabulated)' % show(mbh), where_of(b))
    else:
        ck.violation('D', 'D : decode_next_picture : level array sizes', where_of(b), 'level arrays are %s (mb height: %s)' % ({k: show(v) for k, v in allocs.items()}, msg))
    # inverse_rle: block index from the position
    rb_ = F.body(RLE); Tr = Table(F, RLE, paths=False, cast_kinds=True); Nr = Norm(Tr)
    tgt = [t for bb, s, t, v in stores(Tr, Nr) if show(t).startswith('levels[')]
    want_t = ('el', ('v', 'levels'), mk_add([N.op('Div', ('fld', ('v', 'pos'), (0,)), ('c', 8)), mk_mul([N.op('Div', ('fld', ('v', 'pos'), (1,)), ('c', 8)), ('v', 'blk_per_line')])]))
    if tgt and all(t == want_t for t in tgt): ck.ok('D', 'inverse_rle writes levels[pos.0/8 + (pos.1/8)*blk_per_line] - the block idct_channel reads for samples (8bx.., 8by..)', where_of(rb_))
    else: ck.violation('D', 'D : inverse_rle : block index', where_of(rb_), 'inverse_rle writes %s, expected %s' % ([show(t) for t in tgt], show(want_t)))
    # H: quantizer tracking
    ck.rule('H', 'in_force_quantizer is updated once per coded macroblock to clamp(in_force_quantizer + dquant (0 if absent), 1, 31) before any of its six inverse_rle calls')
    ls = [int(l) for l, nm in T.names.items() if nm == 'in_force_quantizer']
    defs = [d for l in ls for d in T.D.defs.get(l, []) if d[0] == 'assign']
    loop = g.loops()
    head = None
    for h, body in loop.items():
        if rle[0][0] in body and (head is None or len(body) < len(loop[head])): head = h
    inl = [(d[1], N.n(T.ex_rv(d[3]['rv']))) for d in defs if head is not None and d[1] in loop[head]]
    dq = ('f', 'unwrap_or', ('fld', dmb[1], dmb[2] + (fidx['d_quantizer'],)), ('c', 0))
    upd = ('f', 'clamp', mk_add([('f', 'as_i8', ('v', 'in_force_quantizer')), dq]), ('c', 1), ('c', 31))      # the final `as u8` of a value clamped to 1..31 is value preserving and normalised away
    good = [bb for bb, v in inl if v == upd]
    # the only other in-loop definition: GQUANT of a group-of-blocks header the loop resynchronised to (5.2.5: GQUANT is the quantizer until updated by DQUANT)
    gobf = [f['name'] for f in F.adts['h263_rs::types::GroupOfBlocks']['variants'][0]['fields']]
    gq = [bb for bb, v in inl if v != upd and v[0] == 'fld' and v[1][0] == 'f' and v[1][1] == 'decode_gob' and tuple(v[2]) == (('as', 0), 0, ('as', 1), 0, gobf.index('quantizer'))]
    other = [(bb, show(v)) for bb, v in inl if v != upd and bb not in gq]
    # (decode_gob is a stub that never returns a header - rule C15.RS reads its returns - so that arm is unreachable today and is not required to exist)
    if other or len(gq) > 1:
        ck.violation('H', 'H : decode_next_picture : GQUANT', where_of(b), 'besides the DQUANT update, in_force_quantizer may only be set to the quantizer of a group-of-blocks '
                     'header just parsed (decode_gob(..) = Ok(Some(gob)) => gob.quantizer); found %s' % ([(bb, show(v)) for bb, v in inl if v != upd]))
    else:
        ck.ok('H', 'no other in-loop definition of in_force_quantizer%s' % (' than GQUANT after a group-of-blocks header' if gq else ''), where_of(b, gq[0] if gq else None))
    if len(good) == 1 and all(g.dominates(good[0], rb) for rb, _, _ in rle) and all(g.dominates(good[0], x[0]) for x in db):
        ck.ok('H', 'in_force_quantizer := clamp(in_force_quantizer as i8 + d_quantizer.unwrap_or(0), 1, 31) as u8 dominates the six decode_block / inverse_rle pairs', where_of(b, good[0]))
    else:
        ck.violation('H', 'H : decode_next_picture : quantizer update', where_of(b), 'in-loop definitions of in_force_quantizer: %s; expected exactly one %s before the blocks' % ([(bb, show(v)) for bb, v in inl], show(upd)))
    init = [(d[1], N.n(T.ex_rv(d[3]['rv']))) for d in defs if head is None or d[1] not in loop[head]]
    if [show(v) for _, v in init] == ['some(r1 or MiddleOfBitstream).14'] or (len(init) == 1 and show(init[0][1]).endswith('.14')):
        ck.ok('H', 'initial in_force_quantizer = the header\'s quantizer', where_of(b, init[0][0]))
    else:
        ck.violation('H', 'H : decode_next_picture : initial quantizer', where_of(b), 'initial in_force_quantizer is %s' % [show(v) for _, v in init])


def run(ck, F, tier):
    ck.explanation = ('C02 quantifies over all intra pictures and asks for sample-exact equality with the ideal transform; the float pipeline\'s numerical equality is NOT decided '
                      '(no static argument in reach). Decided are the structural conditions of its mechanism list, each necessary: Z the zig-zag table; D the macroblock-body '
                      'call-site agreement (CBP entry, level array, block position, blocks per line, plane and row length line up between decode_block, inverse_rle and '
                      'idct_channel; level-array sizes; mb_per_line = ceil(w/16)); H quantizer tracking; plus, shared with other properties and re-run here: dequantisation '
                      'form and INTRADC mapping (C11 A, C), the IDCT clauses (C10 A, B, C, E) and plane allocation (C13 P); and MB the macroblock / block layer syntax: VLC tables TCOEF, MCBPC (I), '
                      'CBPY against Tables 16, 7, 13 (code word -> event maps), Table 9 type predicates, and the decision tables of decode_macroblock, decode_dquant and decode_block '
                      '(reads, presence conditions, order, returned fields, appended coefficients, LAST handling).')
    ck.assumptions += ['numerical equality of the f32 row/column IDCT with the ideal transform rounded to nearest is NOT decided', 'stuffing / extra-information bytes of the picture layer are decided by C06']
    rule_z(ck, F)
    rule_d(ck, F)
    # shared clauses, re-run on this tree
    s11 = Scoped(ck, 'C11.')
    c11.a_formula(s11, F); c11.b_no_overflow(s11, F); c11.c_intradc(s11, F); c11.quant_update_table(s11, F); c11.p_zigzag_cursor(s11, F)
    s10 = Scoped(ck, 'C10.')
    c10.rule_a(s10, F); c10.rule_b(s10, F); c10.rule_c(s10, F); c10.rule_e(s10, F)
    # the bits of an intra macroblock are attributed to the right syntax elements (tables of 5.3 / 5.4)
    from . import mblayer
    mblayer.run_for(ck, F, 'MB.', ['tcoef', 'mcbpc_i', 'cbpy'], ['macroblock', 'dquant', 'block'])
    # "with optional stuffing": the loop runs until the number of DECODED macroblocks reaches the picture's macroblock count - a stuffing code word
    # produces no macroblock and must not use up a turn (C15's rule M7: the exit compares len(macroblock_types) with mb_per_line * mb_height)
    from . import c15
    try:
        c15.m7_count_bound(Scoped(ck, 'C15.'), F)
    except Unanalysable as e:
        ck.unanalysable('C15.M7 macroblock loop', str(e))
    # "any width and height .. Sorenson version 0 and 1 and standard baseline headers .. planes of exactly the signalled size": the picture header is parsed as
    # the standard lays it out (C06, whole, re-run on this tree)
    from . import c06
    c06.run(Scoped(ck, 'C06.'), F, tier)
    # "luma and chroma planes of exactly the signalled size": plane allocation, accessors, nobody resizes (C13, whole, re-run on this tree)
    c13.run(Scoped(ck, 'C13.'), F, tier)
