"""C09 - deblocking equals the Annex J edge filter at every block edge, wherever it lies."""
import sys
from ..cfg import cfg_of
from ..dataflow import defs_of, callee_is, strip_ref, expr_of, expr_str, ematch, V, ANY, LEN
from ..canon import TreeBuilder, canon, show, TooComplex, is_lin
from ..report import where_of, short_fn
from . import reader_rules as rr
from . import c16
sys.setrecursionlimit(100000)

DB = 'h263_rs_deblock::deblock::'


def annex_j(a, b, c, d, s):
    """Annex J (H.263 J.3) as expression trees; divisions truncate toward zero"""
    def op(o, x, y): return ('op', o, x, y)
    def call(f, *xs): return ('call', f) + xs
    dd = op('Div', op('Sub', op('Add', op('Sub', a, op('Mul', ('c', 4), b)), op('Mul', ('c', 4), c)), d), ('c', 8))
    absd = call('abs', dd)
    d1 = op('Mul', call('sgn', dd), call('max', ('c', 0), op('Sub', absd, call('max', ('c', 0), op('Mul', ('c', 2), op('Sub', absd, s))))))
    half = op('Div', d1, ('c', 2))
    d2 = call('clamp', op('Div', op('Sub', a, d), ('c', 4)), ('un', 'Neg', call('abs', half)), call('abs', half))
    return {
        'A': op('Sub', a, d2),
        'B': call('clamp', op('Add', b, d1), ('c', 0), ('c', 255)),
        'C': call('clamp', op('Sub', c, d1), ('c', 0), ('c', 255)),
        'D': op('Add', d, d2),
    }


def first_difference(x, y, path=''):
    """innermost differing sub-forms of two canonical forms (for the report)"""
    if x == y: return None
    if is_lin(x) and is_lin(y):
        dx = dict(x[1]); dy = dict(y[1])
        only_x = [a for a in dx if a not in dy or dy[a] != dx[a]]
        only_y = [a for a in dy if a not in dx or dx[a] != dy[a]]
        if len(only_x) == 1 and len(only_y) == 1 and dx[only_x[0]] == dy[only_y[0]] and x[2] == y[2]:
            d = first_difference(only_x[0], only_y[0])
            return d or (only_x[0], only_y[0])
        return (x, y)
    if isinstance(x, tuple) and isinstance(y, tuple) and len(x) == len(y) and x and y and x[0] == y[0] and isinstance(x[0], str):
        diffs = [(p, q) for p, q in zip(x[1:], y[1:]) if p != q]
        if len(diffs) == 1:
            d = first_difference(diffs[0][0], diffs[0][1])
            return d or diffs[0]
    return (x, y)


def kernels(ck, F):
    ck.rule('K1', 'scalar_impl::process (up_down_ramp and clipd1 inlined) canonicalises, for each of A,B,C,D, to the Annex J formulas with truncating divisions')
    ck.rule('K2', 'every lane of simd_impl::process_simd canonicalises to the same form as the scalar kernel (sibling agreement)')
    A, B, C, D, S = (('in', 'arg%d' % i) for i in range(1, 6))
    spec = {k: canon(v) for k, v in annex_j(A, B, C, D, S).items()}
    sb = F.body(DB + 'scalar_impl::process')
    try:
        r, st = TreeBuilder(F).function(DB + 'scalar_impl::process')
    except TooComplex as e:
        ck.unanalysable('scalar kernel', str(e)); return
    got = {}
    for t, v in st:
        if t[0] == 'in': got['ABCD'[int(t[1][3:]) - 1]] = canon(v)
    scal = {}
    for k in 'ABCD':
        if k not in got:
            ck.violation('K1', 'K1 : process : no store to %s' % k, where_of(sb), 'the scalar kernel does not store sample %s' % k); continue
        scal[k] = got[k]
        if got[k] == spec[k]:
            ck.ok('K1', 'scalar %s\' == Annex J' % k, where_of(sb))
        else:
            d = first_difference(got[k], spec[k])
            ck.violation('K1', 'K1 : process : sample %s differs from Annex J' % k, where_of(sb),
                         'scalar kernel: %s\' = %s ; Annex J: %s ; first difference: code has %s where Annex J has %s' % (
                             k, show(got[k])[:400], show(spec[k])[:400], show(d[0])[:160] if d else '?', show(d[1])[:160] if d else '?'))
    vb = F.body(DB + 'simd_impl::process_simd')
    try:
        r, st = TreeBuilder(F).function(DB + 'simd_impl::process_simd')
    except TooComplex as e:
        ck.unanalysable('vector kernel', str(e)); return
    lanes = {}
    for t, v in st:
        if t[0] == 'idx' and t[1][0] == 'in' and t[2][0] == 'c':
            lanes[('ABCD'[int(t[1][1][3:]) - 1], t[2][1])] = v
    if len(lanes) != 32:
        ck.violation('K2', 'K2 : process_simd : stores', where_of(vb), 'expected 32 lane stores (4 samples x 8 lanes), found %d' % len(lanes)); return
    bad = {}
    for (k, l), v in sorted(lanes.items()):
        # rename arg_k[l] -> arg_k so that the lane can be compared with the scalar form
        cv = canon(rename_lane(v, l))
        ref = spec[k]
        if cv == ref:
            ck.ok('K2', 'vector lane %d %s\' == Annex J == scalar' % (l, k), where_of(vb), nontrivial=(l == 0))
        else:
            bad.setdefault(k, []).append((l, cv))
    for k, ls in bad.items():
        l, cv = ls[0]
        d = first_difference(cv, spec[k])
        ck.violation('K2', 'K2 : process_simd : sample %s lanes differ from the scalar kernel' % k, where_of(vb),
                     'vector kernel, sample %s, lanes %s: the lane computes %s where Annex J / the scalar kernel has %s (e.g. an arithmetic shift rounds toward -inf, '
                     'the division truncates toward zero)' % (k, [x[0] for x in ls], show(d[0])[:200] if d else '?', show(d[1])[:200] if d else '?'))


def rename_lane(e, l):
    if isinstance(e, tuple):
        if e and e[0] == 'idx' and e[1][0] == 'in' and e[2] == ('c', l): return e[1]
        return tuple(rename_lane(x, l) if isinstance(x, tuple) else x for x in e)
    return e


def _nest(e, head):
    """arguments of the nested zip tree, left to right"""
    if isinstance(e, tuple) and e and e[0] == 'call' and e[1].endswith(head):
        return _nest(e[2], head) + [e[3]]
    return [e]


def _strip_iter(e):
    while isinstance(e, tuple) and e and e[0] == 'call' and (e[1].endswith('into_iter') or e[1].endswith('::iter_mut') or e[1].endswith('::iter')):
        e = e[2]
    return e


def lanes_rows(ck, F):
    ck.rule('G4', 'vertical pass transposition: lane k of a column vector is the sample of row k of the octet, both when reading (extract_column) and when writing back '
                  '(set_column), k = 0..7; the octet members are rows 0..7 of the 8-row group in order')
    from ..bitslice import Table
    from ..loopexpr import Norm, show, stores
    ok = True
    en = DB + 'deblock_vert::extract_column'; sn = DB + 'deblock_vert::set_column'
    try:
        Te = Table(F, en, paths=False, cast_kinds=True); Ne = Norm(Te)
        Ts = Table(F, sn, paths=False, cast_kinds=True); Ns = Norm(Ts)
    except KeyError as e:
        ck.violation('G4', 'G4 : deblock_vert : helpers', None, 'extract_column / set_column not found (%s)' % e); return
    got = [show(Ne.n(d[2])) for d in Te.local_defs(0)]
    want = 'array(%s)' % ', '.join('arrays.%d[i]' % k for k in range(8))
    if got == [want]: ck.ok('G4', 'extract_column(arrays, i) = [arrays.0[i], .., arrays.7[i]]', where_of(F.body(en)))
    else: ck.violation('G4', 'G4 : extract_column : lanes', where_of(F.body(en)), 'extract_column returns %s, expected %s' % (got, want))
    st = sorted((show(t), show(v)) for bb, s_, t, v in stores(Ts, Ns))
    wants = sorted(('arrays.%d[i]' % k, 'a[%d]' % k) for k in range(8))
    if st == wants: ck.ok('G4', 'set_column(arrays, i, a): arrays.k[i] = a[k] for k = 0..7', where_of(F.body(sn)))
    else: ck.violation('G4', 'G4 : set_column : lanes', where_of(F.body(sn)), 'set_column stores %s, expected %s' % (st, wants))
    # the octet: zip of row_k[2..].chunks_exact_mut(8), row_k = k-th `width` split of the 8-row group, k in order (izip! keeps argument order)
    b = F.body(DB + 'deblock_vert')
    calls = rr.find_calls(F, b, 'deblock_vert::extract_column')
    if not calls:
        ck.violation('G4', 'G4 : deblock_vert : octet', where_of(b), 'no extract_column call'); return
    e = expr_of(F, b, calls[0][1]['args'][0])
    srcs = []
    def walk(x):
        if isinstance(x, tuple) and x:
            if x[0] == 'call' and x[1].endswith('chunks_exact_mut') and len(x) == 4 and x[3] == ('c', 8):
                srcs.append(x[2]); return
            for y in x[1:]:
                if isinstance(y, tuple): walk(y)
    walk(e)
    depth = [expr_str(x).count('split_at_mut(') for x in srcs]
    if depth == list(range(1, 9)):
        ck.ok('G4', 'octet member k = chunk of row k (the k-th width-split of the 8-row group), k = 0..7 in izip! order', where_of(b, calls[0][0]))
    else:
        ck.violation('G4', 'G4 : deblock_vert : octet order', where_of(b, calls[0][0]), 'the octet members are not rows 0..7 in order (split-chain depths %s, expected 1..8)' % depth)


def _tuple_members(t):
    """the 8 members of the (possibly nested, izip-flattened) tuple term; as strings"""
    from ..loopexpr import show
    out = []
    def walk(x):
        if x[0] == 'agg' and x[1] == 'tuple':
            for y in x[2:]: walk(y)
        else:
            out.append(show(x))
    walk(t)
    return out


def geometry(ck, F):
    ck.rule('G1', 'horizontal pass: the vector kernel gets the 8-sample chunks of rows edge_y-2, edge_y-1, edge_y, edge_y+1 zipped in that order (A,B,C,D); '
                  'the scalar kernel gets the element-wise zip of the remainders of the same four rows')
    ck.rule('G2', 'vertical pass, vector part: columns 4,5,6,7 of the chunk octets are extracted as A,B,C,D, filtered, and written back to the same columns; '
                  'scalar part: chunk[4..7] of `row[2..].chunks_exact_mut(8)` of every remainder row, filtered and written back to the same indices')
    ck.rule('G3', 'deblock(): result = data.to_vec(); deblock_horiz(result) then deblock_vert(result) with the same width and strength; result returned; '
                  'no length-changing call anywhere in the crate; the input is only read')
    # ---------------- horizontal
    b = F.body(DB + 'deblock_horiz'); g = cfg_of(b); D = defs_of(b); nm = b.get('debug', {})
    E = {v: int(k) for k, v in nm.items()}.get('edge_y')
    ps = rr.find_calls(F, b, 'simd_impl::process_simd'); pc = rr.find_calls(F, b, 'scalar_impl::process')
    def row_expr(k):
        # k-th row (0..3): .0 of the (k+2)-th split of the DB1 chain
        e = ('param', 1, ())
        first = ('op', 'Mul', ('op', 'Sub', ('multi', E), ('c', 2)), ('param', 2, ()))
        e = ('fld', ('call', 'core::slice::<impl [T]>::split_at_mut', e, first), (1,))
        for i in range(k):
            e = ('fld', ('call', 'core::slice::<impl [T]>::split_at_mut', e, ('param', 2, ())), (1,))
        return ('fld', ('call', 'core::slice::<impl [T]>::split_at_mut', e, ('param', 2, ())), (0,))
    def check_kernel_args(call, leaf_of_row, what):
        args = [expr_of(F, b, a) for a in call['args'][:4]]
        if not all(a[0] == 'fld' for a in args) or len({repr(a[1]) for a in args}) != 1: return 'arguments are not the four fields of one zip item'
        item = args[0][1]
        sel = [tuple(x for x in a[2] if isinstance(x, int)) for a in args]
        if [s_[-3:] if i < 2 else s_[-(3 - i + 1):] for i, s_ in enumerate(sel)] != [(0, 0, 0), (0, 0, 1), (0, 1), (1,)]:
            return 'zip item fields are not taken in the order A,B,C,D (%s)' % sel
        if not (item[0] == 'call' and item[1].endswith('::next')): return 'not an iterator item'
        leaves = _nest(_strip_iter(item[2]), 'Iterator::zip')
        if len(leaves) != 4: return 'not a zip of four iterators'
        for k, lf in enumerate(leaves):
            if _strip_iter(lf) != leaf_of_row(row_expr(k)): return 'the %s source for sample %s is not row edge_y%+d' % (what, 'ABCD'[k], k - 2)
        return None
    okh = len(ps) == 1 and len(pc) == 1 and E is not None
    if okh:
        chunks = lambda r: ('call', 'core::slice::<impl [T]>::chunks_exact_mut', r, ('c', 8))
        rem = lambda r: ('call', 'std::slice::ChunksExactMut::<\'a, T>::into_remainder', chunks(r))
        e1 = check_kernel_args(ps[0][1], chunks, 'vector')
        e2 = check_kernel_args(pc[0][1], rem, 'scalar')
        for err, (bb, t), what in ((e1, ps[0], 'vector'), (e2, pc[0], 'scalar')):
            if err: ck.violation('G1', 'G1 : deblock_horiz : %s kernel arguments' % what, where_of(b, bb), 'horizontal pass, %s kernel: %s' % (what, err))
            else: ck.ok('G1', '%s kernel gets (A,B,C,D) = rows edge_y-2, -1, +0, +1 (%s)' % (what, '8-sample chunks' if what == 'vector' else 'remainder columns'), where_of(b, bb))
    else:
        ck.violation('G1', 'G1 : deblock_horiz : shape', where_of(b), 'expected one vector and one scalar kernel call in deblock_horiz')
    # ---------------- vertical
    b = F.body(DB + 'deblock_vert'); g = cfg_of(b); D = defs_of(b); nm = b.get('debug', {})
    ex = rr.find_calls(F, b, 'extract_column'); se = rr.find_calls(F, b, 'set_column'); ps = rr.find_calls(F, b, 'simd_impl::process_simd'); pc = rr.find_calls(F, b, 'scalar_impl::process')
    okv = len(ex) == 4 and len(se) == 4 and len(ps) == 1 and len(pc) == 1
    if okv:
        exe = [('call', F.callee_name(t)) + tuple(expr_of(F, b, a) for a in t['args']) for bb, t in ex]
        cols = [e_[3] for e_ in exe]
        from ..dataflow import strip_casts
        pa = [strip_casts(expr_of(F, b, a)) for a in ps[0][1]['args'][:4]]
        sw = [(expr_of(F, b, t['args'][0]), expr_of(F, b, t['args'][1]), expr_of(F, b, t['args'][2])) for bb, t in se]
        same_item = len({repr(e_[2]) for e_ in exe} | {repr(x[0]) for x in sw}) == 1
        order = all(g.dominates(ex[i][0], ps[0][0]) and g.dominates(ps[0][0], se[i][0]) for i in range(4))
        if not (cols == [('c', 4), ('c', 5), ('c', 6), ('c', 7)] and pa == exe and [x[1] for x in sw] == cols and [x[2] for x in sw] == exe and same_item and order):
            okv = False
    if okv: ck.ok('G2', 'vector part: extract columns 4..7 -> process_simd(A,B,C,D) -> set the same columns of the same octet', where_of(b, ps[0][0]))
    else: ck.violation('G2', 'G2 : deblock_vert : vector column flow', where_of(b), 'columns 4,5,6,7 are not extracted, filtered as A,B,C,D and written back to the same columns of the same chunk octet')
    oks = len(pc) == 1
    if oks:
        row = ('fld', ('call', '<std::slice::ChunksExactMut<\'a, T> as std::iter::Iterator>::next', ('call', '<I as std::iter::IntoIterator>::into_iter',
               ('call', 'core::slice::<impl [T]>::chunks_exact_mut', ('call', 'std::slice::ChunksExactMut::<\'a, T>::into_remainder',
                ('call', 'core::slice::<impl [T]>::chunks_exact_mut', ('param', 1, ()), ('op', 'Mul', ('param', 2, ()), ('c', 8)))), ('param', 2, ())))), (('as', 1), 0))
        chunk = ('fld', ('callp', 'Iterator>::next', ('callp', 'into_iter', ('callp', 'chunks_exact_mut', ('callp', 'index_mut', row, ('agg', 'RangeFrom', ('c', 2))), ('c', 8)))), (('as', 1), 0))
        args = [expr_of(F, b, a) for a in pc[0][1]['args'][:4]]
        for k, a in enumerate(args):
            if not (a[0] == 'fld' and a[2] and a[2][-1] == ('idx', ('c', 4 + k)) and ematch(chunk, ('fld', a[1], a[2][:-1]) if len(a[2]) > 1 else a[1]) is not None):
                oks = False
        stores = []
        for bb in sorted(g.reach):
            for s_ in g.blocks[bb]['stmts']:
                if s_['s'] == 'assign' and any(x['p'] in ('index', 'cindex') for x in s_['lhs']['proj']) and any(x['p'] == 'deref' for x in s_['lhs']['proj']) and g.dominates(pc[0][0], bb):
                    stores.append((expr_of_place_(F, b, s_['lhs']), expr_of(F, b, s_['rv']['a']) if s_['rv']['r'] == 'use' else None))
        if sorted(map(repr, stores)) != sorted(repr((a, a)) for a in args): oks = False
    if oks: ck.ok('G2', 'scalar part: chunk[4..7] of row[2..].chunks_exact_mut(8) of each remainder row -> process -> same places', where_of(b, pc[0][0]))
    else: ck.violation('G2', 'G2 : deblock_vert : scalar column flow', where_of(b), 'the scalar remainder rows are not filtered at chunk[4..7] of row[2..].chunks_exact_mut(8) and written back in place')
    # ---------------- pass order
    b = F.body(DB + 'deblock'); g = cfg_of(b); D = defs_of(b)
    tv = rr.find_calls(F, b, 'to_vec'); dh = rr.find_calls(F, b, 'deblock::deblock_horiz'); dv = rr.find_calls(F, b, 'deblock::deblock_vert')
    okp = len(tv) == 1 and len(dh) == 1 and len(dv) == 1
    if okp:
        okp = g.dominates(tv[0][0], dh[0][0]) and g.dominates(dh[0][0], dv[0][0])
        okp = okp and strip_ref(D.origin(tv[0][1]['args'][0]))[:2] == ('param', 1)
        vec = ('call', F.callee_name(tv[0][1]), expr_of(F, b, tv[0][1]['args'][0]))
        for (bb, t) in (dh[0], dv[0]):
            e0 = expr_of(F, b, t['args'][0])
            if not (e0[0] == 'call' and e0[1].endswith('as_mut') and e0[2] == vec): okp = False
            if expr_of(F, b, t['args'][1]) != ('param', 2, ()) or expr_of(F, b, t['args'][2]) != ('param', 3, ()): okp = False
        if expr_of(F, b, {'o': 'copy', 'p': {'l': 0, 'proj': []}}) != vec: okp = False
    grow = []
    for name, body in F.bodies.items():
        if body['crate'] != 'h263_rs_deblock': continue
        for bb, t in cfg_of(body).calls():
            n = F.callee_name(t)
            if any(n.endswith(x) for x in ('::push', '::truncate', '::resize', '::extend', '::insert', '::remove', '::pop', '::clear', '::drain', '::append', '::split_off', '::extend_from_slice')):
                grow.append((short_fn(name), n))
    if okp and not grow: ck.ok('G3', 'deblock: to_vec(data) -> deblock_horiz -> deblock_vert -> returned; no length-changing call in the crate', where_of(b, tv[0][0]))
    else: ck.violation('G3', 'G3 : deblock : pass order / copy', where_of(b), 'deblock() is not copy, horizontal pass, vertical pass, return (length-changing calls: %s)' % grow[:3])


def expr_of_place_(F, b, place):
    from ..dataflow import expr_of_place
    return expr_of_place(F, b, place)


def run(ck, F, tier):
    ck.explanation = ('C09 decided for all patterns, strengths and sizes structurally: K1 the scalar kernel (helpers inlined, if-converted) canonicalises to the Annex J '
                      'formulas with truncating division, for all 2^32 x 12 inputs at once; K2 each of the 8 lanes of the vector kernel canonicalises to the same form '
                      '(sibling agreement; arithmetic shift and truncating division are distinct operators); G1/G2 which samples reach the kernels and where the '
                      'results go (rows edge_y-2..edge_y+1 in every column; columns 8m+6..8m+9 of every row, vector groups and scalar remainders alike) from the '
                      'def-use expressions of the kernel arguments; DB1/DB2 (shared with C16) give the edge positions and guards; G3 pass order, copy, unchanged length.')
    ck.assumptions += ['wide::i16x8 operators are lane-wise wrapping i16 operations with arithmetic >>; i16 lane arithmetic does not wrap for 8-bit samples and strength <= 12 (interval reading, C16)',
                       '`A - d2` and `D + d2` stay within 0..255 (|d2| <= |A - D|/4), so the final `as u8` is value-preserving']
    kernels(ck, F)
    geometry(ck, F)
    lanes_rows(ck, F)
    ck.rule('DB1', 'horizontal loop (shared with C16)'); ck.rule('DB2', 'vertical octets (shared with C16)')
    c16.db1_horizontal_loop(ck, F)
    c16.db2_vertical_octets(ck, F)
