"""Macroblock layer and block layer syntax (H.263 (02/98) clauses 5.3 and 5.4, Sorenson Spark escape forms).

Shared by C02 (intra pictures) and C03 (predicted pictures): a picture can only decode to the reconstruction the standard defines
if the bits of each macroblock are attributed to the right syntax elements.  Three rule groups, all decided on the MIR facts:

  V   the VLC tables (TCOEF Table 16, MCBPC Tables 7 and 8, CBPY Table 13) are folded from their const MIR, walked as trees, and the
      resulting map  code word -> event  is compared with the standard's table written below (as (code, length) pairs in the order of
      the standard's table).  The comparison is on the map, so re-numbering the slots of a table is not reported.
  P   MacroblockType::{is_inter, is_intra, has_fourvec, has_quantizer} and PictureTypeCode::is_any_pbframe folded over every variant
      (Table 9/H.263).
  R/T decision tables (lint/bitslice.py, the engine of C06) of decode_macroblock, decode_dquant, decode_motion_vector and decode_block:
      which reader call consumes which element under which presence condition and in which order (R), and which value every field of
      the result takes under which condition (T); for decode_block also what is pushed to the coefficient list and how the LAST flag
      ends the loop.
"""
import re
from ..bitslice import Table, TRUE, FALSE, dnf_and, dnf_or, dnf_not, dnf_diff, fmt_cond, simplify
from ..report import where_of, Scoped
from ..facts import Unanalysable
from .. import tables
from ..cprop import Folder, Unknown
from . import c06

M = 'h263_rs::parser::macroblock::'
B = 'h263_rs::parser::block::'
TY = 'h263_rs::types::'

# ---------------------------------------------------------------------------------------------------------------------------------
# Table 16/H.263 - TCOEF: (code, length) without the sign bit, in the order of the standard's table (INDEX 0..101), then ESCAPE.
# Events in that order: LAST=0: run 0 levels 1..12, run 1 levels 1..6, run 2 levels 1..4, runs 3..6 levels 1..3, runs 7..10 levels 1..2,
# runs 11..26 level 1;  LAST=1: run 0 levels 1..3, run 1 levels 1..2, runs 2..40 level 1.
TCOEF_CODES = [
    (2, 2), (15, 4), (21, 6), (23, 7), (31, 8), (37, 9), (36, 9), (33, 10), (32, 10), (7, 11), (6, 11), (32, 11),
    (6, 3), (20, 6), (30, 8), (15, 10), (33, 11), (80, 12),
    (14, 4), (29, 8), (14, 10), (81, 12),
    (13, 5), (35, 9), (13, 10),
    (12, 5), (34, 9), (82, 12),
    (11, 5), (12, 10), (83, 12),
    (19, 6), (11, 10), (84, 12),
    (18, 6), (10, 10),
    (17, 6), (9, 10),
    (16, 6), (8, 10),
    (22, 7), (85, 12),
    (21, 7), (20, 7), (28, 8), (27, 8), (33, 9), (32, 9), (31, 9), (30, 9), (29, 9), (28, 9), (27, 9), (26, 9), (34, 11), (35, 11), (86, 12), (87, 12),
    (7, 4), (25, 9), (5, 11),
    (15, 6), (4, 11),
    (14, 6), (13, 6), (12, 6), (19, 7), (18, 7), (17, 7), (16, 7), (26, 8), (25, 8), (24, 8), (23, 8), (22, 8), (21, 8), (20, 8), (19, 8),
    (24, 9), (23, 9), (22, 9), (21, 9), (20, 9), (19, 9), (18, 9), (17, 9), (7, 10), (6, 10), (5, 10), (4, 10), (36, 11), (37, 11), (38, 11), (39, 11),
    (88, 12), (89, 12), (90, 12), (91, 12), (92, 12), (93, 12), (94, 12), (95, 12)]
TCOEF_ESCAPE = (3, 7)


def tcoef_events():
    ev = []
    for run, top in [(0, 12), (1, 6), (2, 4), (3, 3), (4, 3), (5, 3), (6, 3), (7, 2), (8, 2), (9, 2), (10, 2)] + [(r, 1) for r in range(11, 27)]:
        ev += [(False, run, lv) for lv in range(1, top + 1)]
    for run, top in [(0, 3), (1, 2)] + [(r, 1) for r in range(2, 41)]:
        ev += [(True, run, lv) for lv in range(1, top + 1)]
    return ev


# Table 7/H.263 - MCBPC for I-pictures: mb type 3 (INTRA) / 4 (INTRA+Q) x CBPC 00,01,10,11 (first bit: Cb, second: Cr), then stuffing
MCBPC_I = [(1, 1), (1, 3), (2, 3), (3, 3), (1, 4), (1, 6), (2, 6), (3, 6)]
MCBPC_I_TYPES = ['Intra', 'IntraQ']
MCBPC_STUFFING = (1, 9)
# Table 8/H.263 - MCBPC for P-pictures, grouped by macroblock type, CBPC 00,01,10,11 inside each group
MCBPC_P = {'Inter': [(1, 1), (3, 4), (2, 4), (5, 6)], 'Intra': [(3, 5), (4, 8), (3, 8), (3, 7)], 'InterQ': [(3, 3), (7, 7), (6, 7), (5, 9)],
           'IntraQ': [(4, 6), (4, 9), (3, 9), (2, 9)], 'Inter4V': [(2, 3), (5, 7), (4, 7), (5, 8)], 'Inter4Vq': [(2, 11), (12, 13), (14, 13), (15, 13)]}
# Table 13/H.263 - CBPY for INTRA macroblocks, index = the four bits (block 1 first); INTER macroblocks use the complement
CBPY = [(3, 4), (5, 5), (4, 5), (9, 4), (3, 5), (7, 4), (2, 6), (11, 4), (2, 5), (3, 6), (5, 4), (10, 4), (4, 4), (8, 4), (6, 4), (3, 2)]
# Table 9/H.263 - macroblock types
MBTYPE = {'Inter': dict(is_inter=True, is_intra=False, has_fourvec=False, has_quantizer=False),
          'InterQ': dict(is_inter=True, is_intra=False, has_fourvec=False, has_quantizer=True),
          'Inter4V': dict(is_inter=True, is_intra=False, has_fourvec=True, has_quantizer=False),
          'Intra': dict(is_inter=False, is_intra=True, has_fourvec=False, has_quantizer=False),
          'IntraQ': dict(is_inter=False, is_intra=True, has_fourvec=False, has_quantizer=True),
          'Inter4Vq': dict(is_inter=True, is_intra=False, has_fourvec=True, has_quantizer=True)}


def _bits(code, ln): return format(code, '0%db' % ln)


def _variant_names(F, adt):
    return {v['idx']: v['name'] for v in F.adt(adt)['variants']}


def _fields(F, adt, vname):
    for v in F.adt(adt)['variants']:
        if v['name'] == vname: return [f.get('name') for f in v.get('fields', [])]
    return []


def _table(F, name):
    ents = tables.vlc_entries(F, name)
    probs, codes, unreached = tables.vlc_check(ents)
    return ents, probs, codes, unreached


def _report(ck, F, name, title, want, got, probs, unreached, invalid_ok):
    """want / got: {code word: event}; every other complete path of the tree must decode to an `invalid` value"""
    b = F.body(name)
    bad = []
    for c in sorted(set(want) | set(got), key=lambda x: (len(x), x)):
        if c in want and want[c] != got.get(c): bad.append('%s decodes to %s, %s says %s' % (c, got.get(c, 'nothing (no such leaf)'), title, want[c]))
        elif c not in want and not invalid_ok(got[c]): bad.append('%s decodes to %s, %s has no such code word' % (c, got[c], title))
    if probs: bad += ['malformed tree: %s' % probs[:3]]
    if bad:
        ck.violation('V', 'V : %s : code words' % name.split('::')[-1], where_of(b), '%s differs from %s: %s' % (name.split('::')[-1], title, '; '.join(bad[:6])))
    else:
        ck.ok('V', '%s: %d code words == %s; %d other complete paths decode to an invalid marker; %d unreachable slots' % (
            name.split('::')[-1], len(want), title, len(got) - len(want), len(unreached)), where_of(b))
    ck.count('VLC code words compared', len(want))


def vlc_tcoef(ck, F):
    name = B + 'TCOEF_TABLE'
    ents, probs, codes, unreached = _table(F, name)
    vn = _variant_names(F, B + 'ShortTCoefficient')
    fl = _fields(F, B + 'ShortTCoefficient', 'Run')
    got = {}
    for c, v in codes.items():
        # Option<ShortTCoefficient>
        if v[1] == 0: got[c] = 'None'; continue
        e = v[2][0]
        if vn[e[1]] == 'EscapeToLong': got[c] = 'ESCAPE'
        else:
            d = dict(zip(fl, e[2]))
            got[c] = 'last=%d run=%d level=%d' % (d['last'], d['run'], d['level'])
    want = {}
    ev = tcoef_events()
    if len(ev) != len(TCOEF_CODES): raise Unanalysable('TCOEF reference table is inconsistent')
    for (last, run, lv), (code, ln) in zip(ev, TCOEF_CODES):
        want[_bits(code, ln)] = 'last=%d run=%d level=%d' % (last, run, lv)
    want[_bits(*TCOEF_ESCAPE)] = 'ESCAPE'
    _report(ck, F, name, 'Table 16/H.263 (TCOEF)', want, got, probs, unreached, lambda v: v == 'None')


def _mcbpc(ck, F, name, want, title):
    ents, probs, codes, unreached = _table(F, name)
    vn = _variant_names(F, M + 'BlockPatternEntry'); tn = _variant_names(F, TY + 'MacroblockType')
    got = {}
    for c, v in codes.items():
        k = vn[v[1]]
        if k == 'Valid': got[c] = '%s cb=%d cr=%d' % (tn[v[2][0][1]], v[2][1], v[2][2])
        else: got[c] = k
    _report(ck, F, name, title, want, got, probs, unreached, lambda v: v == 'Invalid')


def vlc_mcbpc_i(ck, F):
    want = {}
    for i, (code, ln) in enumerate(MCBPC_I):
        want[_bits(code, ln)] = '%s cb=%d cr=%d' % (MCBPC_I_TYPES[i // 4], (i % 4) >> 1, i % 2)
    want[_bits(*MCBPC_STUFFING)] = 'Stuffing'
    _mcbpc(ck, F, M + 'MCBPC_I_TABLE', want, 'Table 7/H.263 (MCBPC, I-pictures)')


def vlc_mcbpc_p(ck, F):
    want = {}
    for t, lst in MCBPC_P.items():
        for i, (code, ln) in enumerate(lst):
            want[_bits(code, ln)] = '%s cb=%d cr=%d' % (t, i >> 1, i % 2)
    want[_bits(*MCBPC_STUFFING)] = 'Stuffing'
    _mcbpc(ck, F, M + 'MCBPC_P_TABLE', want, 'Table 8/H.263 (MCBPC, P-pictures)')


def vlc_cbpy(ck, F):
    name = M + 'CBPY_TABLE_INTRA'
    ents, probs, codes, unreached = _table(F, name)
    got = {}
    for c, v in codes.items():
        got[c] = 'None' if v[1] == 0 else ''.join('1' if x else '0' for x in v[2][0])
    want = {_bits(code, ln): format(i, '04b') for i, (code, ln) in enumerate(CBPY)}
    _report(ck, F, name, 'Table 13/H.263 (CBPY, INTRA column)', want, got, probs, unreached, lambda v: v == 'None')


def rule_v(ck, F, which):
    ck.rule('V', 'VLC tables folded from const MIR and walked as trees: the map code word -> event equals the table of the standard (TCOEF Table 16, MCBPC Tables 7 / 8, '
                 'CBPY Table 13), every other complete path decodes to the invalid marker')
    for w in which:
        try:
            {'tcoef': vlc_tcoef, 'mcbpc_i': vlc_mcbpc_i, 'mcbpc_p': vlc_mcbpc_p, 'cbpy': vlc_cbpy}[w](ck, F)
        except (Unanalysable, KeyError, IndexError, TypeError) as e:
            ck.violation('V', 'V : %s : unreadable' % w, None, 'VLC table %s could not be folded / read: %s' % (w, e))


# ---------------------------------------------------------------------------------------------------------------------------------
def rule_p(ck, F):
    ck.rule('P', 'Table 9/H.263: MacroblockType::is_inter / is_intra / has_fourvec / has_quantizer folded over all six types; PictureTypeCode::is_any_pbframe over all picture types')
    fo = Folder(F)
    adt = TY + 'MacroblockType'
    names = _variant_names(F, adt)
    if set(names.values()) != set(MBTYPE):
        ck.violation('P', 'P : MacroblockType : variants', None, 'MacroblockType has variants %s, Table 9 has %s' % (sorted(names.values()), sorted(MBTYPE))); return
    n = 0
    for fn in ('is_inter', 'is_intra', 'has_fourvec', 'has_quantizer'):
        full = TY + 'MacroblockType::' + fn
        bad = []
        for idx, vn in sorted(names.items()):
            try:
                r = fo.call(full, [('enum', adt, idx, [])])
            except (Unknown, KeyError) as e:
                bad.append('%s: not foldable (%s)' % (vn, e)); continue
            n += 1
            if r != ('bool', MBTYPE[vn][fn]): bad.append('%s(%s) = %s, Table 9 says %s' % (fn, vn, r, MBTYPE[vn][fn]))
        b = F.bodies.get(full)
        if bad: ck.violation('P', 'P : MacroblockType::%s' % fn, where_of(b) if b else None, '; '.join(bad))
        else: ck.ok('P', 'MacroblockType::%s agrees with Table 9 on all six types' % fn, where_of(b))
    adt = TY + 'PictureTypeCode'
    full = TY + 'PictureTypeCode::is_any_pbframe'
    bad = []
    for v in F.adt(adt)['variants']:
        if v.get('fields'): args = [('enum', adt, v['idx'], [('int', 0, 8)])]
        else: args = [('enum', adt, v['idx'], [])]
        try: r = fo.call(full, args)
        except (Unknown, KeyError) as e: bad.append('%s: not foldable (%s)' % (v['name'], e)); continue
        n += 1
        if r != ('bool', v['name'] in ('PbFrame', 'ImprovedPbFrame')): bad.append('is_any_pbframe(%s) = %s' % (v['name'], r))
    b = F.bodies.get(full)
    if bad: ck.violation('P', 'P : PictureTypeCode::is_any_pbframe', where_of(b) if b else None, '; '.join(bad))
    else: ck.ok('P', 'PictureTypeCode::is_any_pbframe is true exactly for PbFrame and ImprovedPbFrame', where_of(b))
    ck.count('type predicates folded', n)
    ck.floor('type predicates folded', n, 24)


# ---------------------------------------------------------------------------------------------------------------------------------
# decision tables.  Conditions are in the language of lint/rules/c06.py; rN = N-th consuming call in the order below.
_I = 'picture.6 is IFrame'
_PP = 'picture.6 is PFrame/DisposablePFrame & r1=0'
_VI = _I + ' & r3 is Valid'
_VP = _PP + ' & r2 is Valid'
_MQ = '`running_options has MODIFIED_QUANTIZATION`'


def _both(fmt):
    """the same clause for the I-picture MCBPC read (r3) and the P-picture one (r2)"""
    return '(%s | %s)' % (fmt.format(V=_VI, t='r3.as2.0'), fmt.format(V=_VP, t='r2.as2.0'))


_CB = '{V} & (`is_intra({t})` & r5 is Some | !`is_intra({t})` & r6 is Some)'          # macroblock type and CBPY both decoded
_OK = '!%s & ' % _MQ

SPEC_MB = {
    'reads': [
        ('read_bits', '1', '!(%s)' % _I),                                            # COD (absent in I-pictures)
        ('read_vlc', 'MCBPC_P_TABLE', _PP),                                          # MCBPC, P-pictures
        ('read_vlc', 'MCBPC_I_TABLE', _I),                                           # MCBPC, I-pictures
        ('read_vlc', None, 'false'),                                                 # MODB: PB-frames are rejected before
        ('read_vlc', 'CBPY_TABLE_INTRA', _both('{V} & `is_intra({t})`')),            # CBPY of an INTRA macroblock
        ('read_vlc', 'CBPY_TABLE_INTRA', _both('{V} & !`is_intra({t})`')),           # CBPY of an INTER macroblock (complemented below)
        ('decode_cbpb', None, 'false'),
        ('decode_dquant', None, _OK + _both(_CB + ' & `has_quantizer({t})`')),       # DQUANT only for the +Q types
        ('decode_motion_vector', None, _OK + _both(_CB + ' & (`is_inter({t})` | `is_any_pbframe(picture.6)`)')),     # MVD
        ('decode_motion_vector', None, _OK + _both(_CB + ' & `has_fourvec({t})`')),  # MVD2
        ('decode_motion_vector', None, _OK + _both(_CB + ' & `has_fourvec({t})`')),  # MVD3
        ('decode_motion_vector', None, _OK + _both(_CB + ' & `has_fourvec({t})`')),  # MVD4
        ('decode_motion_vector', None, 'false'), ('decode_motion_vector', None, 'false'),
        ('decode_motion_vector', None, 'false'), ('decode_motion_vector', None, 'false'),
    ],
    'ret': {
        'Err': {'InvalidMacroblockHeader': '%s & r3 is Invalid | %s & r2 is Invalid' % (_I, _PP),
                'InvalidMacroblockCodedBits': _both('{V} & (`is_intra({t})` & r5 is None | !`is_intra({t})` & r6 is None)'),
                'UnimplementedDecoding': '%s & %s | !(picture.6 is IFrame/PFrame/DisposablePFrame) & r1=0' % (_MQ, _both(_CB))},
        'Ok': {'Stuffing': '%s & r3 is Stuffing | %s & r2 is Stuffing' % (_I, _PP), 'Uncoded': '!(%s) & r1=1' % _I},
        'Ok.Coded.0': {'r3.as2.0': _OK + _CB.format(V=_VI, t='r3.as2.0'), 'r2.as2.0': _OK + _CB.format(V=_VP, t='r2.as2.0')},
        'Ok.Coded.1.CodedBlockPattern.0': {'r5.as1.0': _OK + _both('{V} & `is_intra({t})` & r5 is Some')},
        'Ok.Coded.1.CodedBlockPattern.0.0': {'Not(r6.as1.0.[0,False])': _OK + _both('{V} & !`is_intra({t})` & r6 is Some')},
        'Ok.Coded.1.CodedBlockPattern.0.1': {'Not(r6.as1.0.[1,False])': _OK + _both('{V} & !`is_intra({t})` & r6 is Some')},
        'Ok.Coded.1.CodedBlockPattern.0.2': {'Not(r6.as1.0.[2,False])': _OK + _both('{V} & !`is_intra({t})` & r6 is Some')},
        'Ok.Coded.1.CodedBlockPattern.0.3': {'Not(r6.as1.0.[3,False])': _OK + _both('{V} & !`is_intra({t})` & r6 is Some')},
        'Ok.Coded.1.CodedBlockPattern.1': {'r3.as2.1': _OK + _CB.format(V=_VI, t='r3.as2.0'), 'r2.as2.1': _OK + _CB.format(V=_VP, t='r2.as2.0')},
        'Ok.Coded.1.CodedBlockPattern.2': {'r3.as2.2': _OK + _CB.format(V=_VI, t='r3.as2.0'), 'r2.as2.2': _OK + _CB.format(V=_VP, t='r2.as2.0')},
        'Ok.Coded.2': {'None': _OK + _both(_CB)},
        'Ok.Coded.3': {'None': _OK + _both(_CB + ' & !`has_quantizer({t})`')},
        'Ok.Coded.3.Some': {'r8': _OK + _both(_CB + ' & `has_quantizer({t})`')},
        'Ok.Coded.4': {'None': _OK + _both(_CB + ' & !`is_inter({t})` & !`is_any_pbframe(picture.6)`')},
        'Ok.Coded.4.Some': {'r9': _OK + _both(_CB + ' & (`is_inter({t})` | `is_any_pbframe(picture.6)`)')},
        'Ok.Coded.5': {'None': _OK + _both(_CB + ' & !`has_fourvec({t})`')},
        'Ok.Coded.5.Some.0': {'r10': _OK + _both(_CB + ' & `has_fourvec({t})`')},
        'Ok.Coded.5.Some.1': {'r11': _OK + _both(_CB + ' & `has_fourvec({t})`')},
        'Ok.Coded.5.Some.2': {'r12': _OK + _both(_CB + ' & `has_fourvec({t})`')},
        'Ok.Coded.6': {'None': _OK + _both(_CB)},
    },
}

# 5.3.6 DQUANT: 00 -> -1, 01 -> -2, 10 -> +1, 11 -> +2
SPEC_DQUANT = {'reads': [('read_bits', '2', 'true')], 'ret': {'Ok': {'-1': 'r1==0', '-2': 'r1==1', '1': 'r1==2', '2': 'r1==3'}}}

_UMV = '`running_options has UNRESTRICTED_MOTION_VECTORS` & `picture.4`'
SPEC_MV = {
    'reads': [('read_umv', None, _UMV), ('read_umv', None, _UMV), ('read_vlc', 'MVD_TABLE', '!(%s)' % _UMV), ('read_vlc', 'MVD_TABLE', '!(%s)' % _UMV)],
    'ret': {'Ok': {'into(tuple(r1, r2))': _UMV, 'into(tuple(from(some(r3 or InvalidMvd)), from(some(r4 or InvalidMvd))))': '!(%s)' % _UMV}},
    'skip': ('Err',),
}

_TP = '`tcoef_present`'
_EV = '`some(r2 or InvalidShortCoefficient)`'
_ESC = '%s is EscapeToLong & %s' % (_EV, _TP)
_RUN = '%s is Run & %s' % (_EV, _TP)
_SV1 = '`decoder_options has SORENSON_SPARK_BITSTREAM` & picture.0 is Some & `picture.0.as1.0`==1'           # Sorenson Spark version 1
SPEC_BLOCK = {
    'reads': [
        ('read_u8', '8', '`is_intra(macroblock_type)`'),                                        # INTRADC
        ('read_vlc', 'TCOEF_TABLE', _TP),                                                       # TCOEF
        ('read_bits', '1', _RUN),                                                               # sign of a table event
        ('read_bits', '1', _ESC + ' & ' + _SV1),                                                # Sorenson v1: 1 = 11-bit level, 0 = 7-bit level
        ('read_bits', '1', _ESC),                                                               # LAST
        ('read_bits', '6', _ESC),                                                               # RUN
        ('read_signed_bits', {'8': '!(%s)' % _SV1, '11': _SV1 + ' & r4=1', '7': _SV1 + ' & r4=0'}, _ESC),   # LEVEL
    ],
    'ret': {
        'Ok.Block.0': {'None': '!`is_intra(macroblock_type)` & !' + _TP},
        'Ok.Block.0.Some': {'some(from_u8(r1) or InvalidIntraDc)': '`is_intra(macroblock_type)` & !' + _TP},
        'Ok.Block.1': {'$tcoef': '!' + _TP},
    },
    'skip': ('Err',),
    # what one iteration appends: (is_short, run, level)
    'push': {
        'TCoefficient.0': {'1': _RUN, '0': _ESC + ' & `r7 Ne 0`'},
        'TCoefficient.1': {'some(r2 or InvalidShortCoefficient).as1.1': _RUN, 'r6': _ESC + ' & `r7 Ne 0`'},
        'TCoefficient.2': {'some(r2 or InvalidShortCoefficient).as1.2': _RUN + ' & r3=0', 'Neg(some(r2 or InvalidShortCoefficient).as1.2)': _RUN + ' & r3=1',
                           'r7': _ESC + ' & `r7 Ne 0`'},
    },
}


_View = c06.View


def _table_check(ck, F, name, spec, what, pred=None):
    try:
        b = F.body(name); T = Table(F, name)
    except (KeyError, Unanalysable) as e:
        ck.violation('R', 'R : %s : missing' % what, None, '%s not found or not analysable (%s)' % (what, e)); return None, None, None
    if T.opaque - set(spec.get('opaque_ok', ())):
        bad = [T.names.get(str(l), '_%d' % l) for l in sorted(T.opaque) if T.names.get(str(l)) not in spec.get('opaque_names', ())]
        if bad:
            ck.violation('T', 'T : %s : opaque local' % what, where_of(b), '%s hands a mutable borrow of a local (%s) to a call the table extractor does not model' % (what, ', '.join(bad)))
            return None, None, None
    V = _View(T, pred)
    rename = c06.match_reads(ck, V, what, spec['reads'], b)
    if rename is None:
        if len(T.reads) != len(spec['reads']): return None, None, None
        rename = {i + 1: i + 1 for i in range(len(spec['reads']))}
    c06.compare_rows(ck, V, what, spec['ret'], rename, b, skip=spec.get('skip', ()))
    return T, V, rename


def _forbidden_level(txt):
    # the test for the forbidden escape level (a comparison of the LEVEL read with a shifted constant) only affects invalid streams
    return bool(re.match(r'^(Eq|Ne)\(r\d+, (Shl|Shr|Neg|-)', txt)) or bool(re.match(r'^r\d+ (Eq|Ne) -\d+', txt))


def rule_syntax(ck, F, which):
    ck.rule('R', 'macroblock / block layer: the consuming reader calls of each parser are those of the syntax diagram of 5.3 / 5.4 - same element, same table or width, same presence condition, same order')
    ck.rule('T', 'macroblock / block layer: every field of the parsed macroblock / block takes each value under exactly the condition the syntax gives it')
    n = 0
    if 'macroblock' in which:
        T, V, rn = _table_check(ck, F, M + 'decode_macroblock::{closure#0}', SPEC_MB, 'decode_macroblock'); n += T is not None
    if 'dquant' in which:
        T, V, rn = _table_check(ck, F, M + 'decode_dquant::{closure#0}', SPEC_DQUANT, 'decode_dquant'); n += T is not None
    if 'mv' in which:
        T, V, rn = _table_check(ck, F, M + 'decode_motion_vector::{closure#0}', SPEC_MV, 'decode_motion_vector'); n += T is not None
    if 'block' in which:
        name = B + 'decode_block::{closure#0}'
        spec = dict(SPEC_BLOCK); spec['opaque_names'] = ('tcoef',)
        T, V, rn = _table_check(ck, F, name, spec, 'decode_block', pred=_forbidden_level); n += T is not None
        if T is not None:
            _block_loop(ck, F, name, T, V, rn)
            _rejected_levels(ck, F, name, T)
    ck.count('macroblock-layer decision tables', n)
    ck.floor('macroblock-layer decision tables', n, len(which))


def _rejected_levels(ck, F, name, T):
    """The atoms assumed false above compare the escape LEVEL with a constant and reject it.  That is only harmless if the constant is not a
    codable level of the width it is compared under: evaluate each such constant with i16 semantics and require it outside +-1..2^(w-1)-1."""
    b = F.body(name)
    atoms = set()
    def walk(dnf):
        for c in dnf:
            for d in c:
                if d[0] == 'A' and _forbidden_level(d[1]): atoms.add(d[1])
    for k, callee, ws, c in T.read_rows():
        walk(c)
        for _, cc in ws: walk(cc)
    for pth, d in T.return_rows().items():
        for v, c in d.items(): walk(c)
    for v, c in T.error_rows().items(): walk(c)
    def wrap16(x):
        x &= 0xFFFF
        return x - 0x10000 if x & 0x8000 else x
    bad = []; seen = []
    for a in sorted(atoms):
        m = re.match(r'^(?:Eq|Ne)\(r\d+, (Shl|Shr)\((-?\d+), (\d+)\)\)$', a)
        if not m: bad.append('unrecognised level test `%s`' % a); continue
        op, c0, w = m.group(1), int(m.group(2)), int(m.group(3))
        v = wrap16(c0 << w) if op == 'Shl' else wrap16(c0) >> w
        seen.append((w, v))
        if w not in (7, 8, 11): bad.append('`%s`: a LEVEL of width %d does not exist' % (a, w))
        elif 1 <= abs(v) <= (1 << (w - 1)) - 1: bad.append('`%s` rejects the codable %d-bit level %d' % (a, w, v))
    if bad: ck.violation('T', 'T : decode_block : rejected levels', where_of(b), 'the escape branch rejects levels it must accept: ' + '; '.join(bad))
    else: ck.ok('T', 'decode_block: the level constants rejected in the escape branch (%s as (width, value)) are not codable levels of their width (+-1..2^(w-1)-1 all accepted)' % sorted(set(seen)), where_of(b))


def _block_loop(ck, F, name, T, V, rename):
    b = F.body(name)
    # what is appended to the coefficient list
    items = []
    for bb, t in T.g.calls():
        if F.callee_name(t).endswith('Vec::<T, A>::push'):
            items.append((T.ex(t['args'][1]), bb))
    if len(items) < 1:
        ck.violation('T', 'T : decode_block : pushes', where_of(b), 'no Vec::push of a coefficient found'); return
    class _P:      # compare_rows reads .return_rows()
        def __init__(s, rows): s.rows = rows
        def __getattr__(s, k): return getattr(V, k)
        def return_rows(s): return s.rows
    c06.compare_rows(ck, _P(V.value_rows(items)), 'decode_block (appended coefficient)', SPEC_BLOCK['push'], rename, b)
    # the loop flag: tcoef_present := !LAST, in both arms
    up = {v: int(k) for k, v in b.get('upvars', {}).items()}
    if 'tcoef_present' not in up:
        ck.violation('T', 'T : decode_block : loop flag', where_of(b), 'captured variable tcoef_present not found'); return
    stores = []
    for bb in sorted(T.g.reach):
        for s_ in T.g.blocks[bb]['stmts']:
            if s_['s'] != 'assign' or not s_['lhs'].get('proj') or s_['lhs']['proj'][0].get('p') != 'deref': continue
            o = T.D.origin({'o': 'copy', 'p': {'l': s_['lhs']['l'], 'proj': []}})
            if _is_upvar(o, up['tcoef_present']): stores.append((T.ex_rv(s_['rv']), bb))
    rows = V.value_rows(stores).get('', {})
    r = lambda k: 'r%d' % rename.get(k, 0)
    want = {'0': '%s & `r7 Ne 0` & r5=1' % _ESC, '1': '%s & `r7 Ne 0` & r5=0' % _ESC, 'Not(some(r2 or InvalidShortCoefficient).as1.0)': _RUN}
    c06.compare_rows(ck, _P({'LAST': rows}), 'decode_block (loop flag)', {'LAST': want}, rename, b)


def _is_upvar(o, idx):
    # origin of the pointer: a copy of field idx of the closure environment (_1)
    try:
        if o[0] == 'param' and o[1] == 1:
            fl = [x['i'] if isinstance(x, dict) else x for x in (o[2] if len(o) > 2 else ()) if (isinstance(x, dict) and x.get('p') == 'field') or isinstance(x, int)]
            return fl[:1] == [idx]
    except Exception:
        pass
    return False


def run_for(ck, F, prefix, vlc, syntax):
    s = Scoped(ck, prefix)
    rule_v(s, F, vlc)
    rule_p(s, F)
    rule_syntax(s, F, syntax)
