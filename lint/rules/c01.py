"""C01 - decoding never crashes or hangs, whatever bytes and history it is given."""
from ..callgraph import callgraph
from ..report import short_fn
from ..facts import is_test_fn
from . import panicfree, c01_mech, c15, c17

ST = 'h263_rs::decoder::state::H263State::'


def roots(F):
    return sorted(n for n, b in F.bodies.items() if n.startswith(ST) and b['kind'] == 'AssocFn' and b.get('reachable') and n.count('::') == ST.count('::'))


def run(ck, F, tier):
    ck.explanation = ('C01 decided over all inputs, histories and option combinations by static analysis of MIR: (1) inventory of every Assert terminator and '
                      'panicking external call reachable from the pub fns of H263State (overflow checks on), (2) discharge by interval / option-state / '
                      'symbolic-bound abstract interpretation under a contracts table that is itself checked at every producer, (3) the remaining relational '
                      'sites must match the reviewed-safe table, each entry tied to mechanism rules M1-M8 that encode the structural part of its argument, '
                      '(4) no recursion, every loop classified (finite iterator / input-consuming / counter). History quantification is by induction: one call '
                      'is analysed assuming nothing about H263State beyond the field contracts. Option combinations: DecoderOption bits are unconstrained.')
    ck.assumptions += ['no collection holds more than 2^40 elements (declared sizes that do not fit in memory are excluded by the property)',
                       'the reviewed-safe table (tables/reviewed.json) is trusted reading; its size is reported in coverage.residue',
                       'assumed_returns in tables/contracts.json (value of peek_bits(n) < 2^n)',
                       '64-bit usize; allocation failure and stack exhaustion out of scope']
    rs = roots(F)
    ck.count('entry_points', len(rs))
    ck.floor('entry points', len(rs), 7)
    mech = {}
    mech['M1'] = c01_mech.m1_read_sample(ck, F)
    mech['M2'] = c01_mech.m2_gather_extents(ck, F)
    mech['M3'] = c01_mech.m3_idct_extents(ck, F)
    mech['M4'] = c01_mech.m4_fast_path(ck, F)
    mech['M5'] = c01_mech.m5_reference_dimensions(ck, F)
    mech['M9'] = c01_mech.m9_picture_fields_frozen(ck, F)
    mech['M10'] = c01_mech.m10_position_discipline(ck, F)
    mech['M11'] = c01_mech.m11_umv_counters(ck, F)
    # M7 is C15's count bound
    before = len([o for o in ck.obligations if o['status'] == 'violation'])
    try:
        c15.m7_count_bound(ck, F)
    except Exception as e:
        ck.unanalysable('M7', str(e))
    mech['M7'] = len([o for o in ck.obligations if o['status'] == 'violation']) == before
    # the level arrays are indexed by (position, blocks per line) handed over by decode_next_picture: the reviewed sites of inverse_rle / idct_channel that rest on
    # "the macroblock index is below the count" also need the call sites to pass the strides the arrays were sized with (C02's rule D, re-run here)
    from . import c02
    from ..report import Scoped
    c02.rule_d(Scoped(ck, 'C02.'), F)
    PA = panicfree.run_inventory(ck, F, rs, mech, scope=('decoder::', 'parser::', 'types::', '<types::'), floors={'sites': 300, 'functions': 150})
    c01_mech.m8_error_discipline(ck, F, PA.reach)
    panicfree.run_termination(ck, F, PA, 25)
    ck.rule('S2', 'no unsafe code in the three crates (shared with C17)')
    c17.rule_unsafe(ck, F)
    ck.sample({'entry_points': [short_fn(r) for r in rs]})
