"""C06, rules B / I / H: flag constants, inheritance sets, format fallback, identity of the stored header
(types.rs, parser/picture.rs statics, decoder/state.rs, decoder/picture.rs)."""
import re
from .. import effects, tables
from ..bitslice import Table, TRUE, FALSE, one, dnf_and, dnf_or, dnf_not, dnf_diff, fmt_cond
from ..cfg import cfg_of
from ..dataflow import defs_of, expr_of, expr_str
from ..report import where_of, short_fn
from ..facts import Unanalysable

OPP = ['UNRESTRICTED_MOTION_VECTORS', 'SYNTAX_BASED_ARITHMETIC_CODING', 'ADVANCED_PREDICTION', 'ADVANCED_INTRA_CODING', 'DEBLOCKING_FILTER', 'SLICE_STRUCTURED',
       'REFERENCE_PICTURE_SELECTION', 'INDEPENDENT_SEGMENT_DECODING', 'ALTERNATIVE_INTER_VLC', 'MODIFIED_QUANTIZATION']      # 5.1.4.2 bits 5-14
MPP = ['REFERENCE_PICTURE_RESAMPLING', 'REDUCED_RESOLUTION_UPDATE', 'ROUNDING_TYPE_ONE']                                        # 5.1.4.3 bits 4-6
FLAG_TYPES = ['types::PictureOption', 'parser::picture::PlusPTypeFollower', 'types::SliceSubmode', 'types::ReferencePictureSelectionMode', 'decoder::types::DecoderOption']
CLO = 'h263_rs::decoder::state::H263State::decode_next_picture::{closure#0}'
DP = 'h263_rs::decoder::picture::DecodedPicture'
# 4.1 / Table 5: luminance sizes of the standard source formats
SIZES = {'SubQcif': (128, 96), 'QuarterCif': (176, 144), 'FullCif': (352, 288), 'FourCif': (704, 576), 'SixteenCif': (1408, 1152)}


def flag_set(T, e):
    """names OR-ed together in a flag expression made of `|` and named constants only"""
    if e[0] == 'item': return {str(e[1]).split('::')[-1]}
    if e[0] == 'call' and e[1].split('#')[0].endswith('::bitor') and len(e) == 4:
        return flag_set(T, e[2]) | flag_set(T, e[3])
    raise Unanalysable('flag set expression is not a union of named flags: %s' % T.show(e))


def static_set(F, path):
    name = 'h263_rs::<%s as std::ops::Deref>::deref::__static_ref_initialize' % path
    T = Table(F, name)
    defs = T.local_defs(0)
    if len(defs) != 1: raise Unanalysable('%s: initialiser has %d return definitions' % (path, len(defs)))
    return flag_set(T, defs[0][2]), F.body(name)


def rule_b(ck, F):
    ck.rule('B', 'the named constants of every flag type used by the header parsers are non-zero and pairwise disjoint (so "contains FLAG" decisions on different flags are independent)')
    n = 0
    for ty in FLAG_TYPES:
        vals = {}
        for k in F.bodies:
            m = re.match(r'^h263_rs::%s::([A-Z][A-Z0-9_]*)$' % re.escape(ty), k)
            if not m: continue
            try:
                v = tables.plain(tables.fold_const(F, k))
            except Exception as e:
                ck.unanalysable('flag constant %s' % k, str(e)); continue
            while isinstance(v, (list, tuple)):          # PictureOption(InternalBitFlags(bits))
                if len(v) == 3 and isinstance(v[0], str) and isinstance(v[2], list): v = v[2]
                elif len(v) == 1: v = v[0]
                else: break
            vals[m.group(1)] = v
        bad = [a for a, v in vals.items() if not isinstance(v, int) or v == 0]
        clash = [(a, b_) for a in vals for b_ in vals if a < b_ and isinstance(vals[a], int) and isinstance(vals[b_], int) and vals[a] & vals[b_]]
        n += len(vals)
        if bad or clash or not vals:
            ck.violation('B', 'B : %s : constants' % ty, None, '%s: zero/unknown constants %s, overlapping constants %s' % (ty, bad, clash))
        else:
            ck.ok('B', '%s: %d constants, pairwise disjoint bits' % (ty, len(vals)))
    ck.floor('flag constants', n, 30)


def rule_i(ck, F):
    ck.rule('I', 'the option sets carried over from the previous header are exactly the OPPTYPE mode bits (5.1.4.2 bits 5-14) and the MPPTYPE bits (5.1.4.3 bits 4-6); '
                 'the parser\'s and the decoder\'s OPPTYPE_OPTIONS agree')
    for path, want in (('parser::picture::OPPTYPE_OPTIONS', OPP), ('types::OPPTYPE_OPTIONS', OPP), ('types::MPPTYPE_OPTIONS', MPP)):
        try:
            got, b = static_set(F, path)
        except (KeyError, Unanalysable) as e:
            ck.violation('I', 'I : %s : initialiser' % path, None, 'cannot read the initialiser of %s: %s' % (path, e)); continue
        if got == set(want):
            ck.ok('I', '%s = {%s}' % (path, ', '.join(sorted(got))), where_of(b))
        else:
            ck.violation('I', 'I : %s : members' % path, where_of(b), '%s lacks %s and has extra %s' % (path, sorted(set(want) - got), sorted(got - set(want))))


def rule_h(ck, F):
    ck.rule('H', 'the decoded picture stores the parsed header unmodified together with the format in force (the header\'s own format when it has one, else the '
                 'previous picture\'s), sizes its planes from that format, and nothing but DecodedPicture::new writes those two fields')
    # H1 DecodedPicture::new
    b = F.body(DP + '::new'); T = Table(F, DP + '::new')
    rows = T.return_rows()
    hdr = rows.get('Some.DecodedPicture.0', {}); fmt = rows.get('Some.DecodedPicture.1', {})
    dims = [T.show(T.ex(t['args'][0])) for bb, t in T.g.calls() if F.callee_name(t).endswith('SourceFormat::into_width_and_height')]
    if list(hdr) == ['picture_header'] and list(fmt) == ['format'] and dims == ['format']:
        ck.ok('H', 'DecodedPicture::new: picture_header and format fields are the arguments; dimensions come from format.into_width_and_height()', where_of(b))
    else:
        ck.violation('H', 'H : DecodedPicture::new : fields', where_of(b), 'DecodedPicture::new stores header %s, format %s and takes its dimensions from %s' % (list(hdr), list(fmt), dims))
    luma = rows.get('Some.DecodedPicture.2', {})
    want_luma = 'from_elem(0, Mul(some(into_width_and_height(format) or ?).0, some(into_width_and_height(format) or ?).1))'
    got_luma = [re.sub(r'branch\(into_width_and_height\(format\)\)\.as0\.0', 'WH', k) for k in luma]
    if len(got_luma) == 1 and re.fullmatch(r'from_elem\(0, Mul\(WH\.[01], WH\.[01]\)\)', got_luma[0]) and 'WH.0' in got_luma[0] and 'WH.1' in got_luma[0]:
        ck.ok('H', 'DecodedPicture::new: luma plane holds width*height samples of that format', where_of(b))
    else:
        ck.violation('H', 'H : DecodedPicture::new : luma size', where_of(b), 'luma plane is %s, expected vec![0; w*h] with (w, h) = format.into_width_and_height()?' % list(luma))
    # H2 getters
    for fn, want in (('as_header', 'self.0'), ('format', 'self.1')):
        bb_ = F.body(DP + '::' + fn); Tg = Table(F, DP + '::' + fn)
        got = [Tg.show(d[2]) for d in Tg.local_defs(0)]
        if got == [want]: ck.ok('H', 'DecodedPicture::%s returns field %s' % (fn, want[-1]), where_of(bb_))
        else: ck.violation('H', 'H : DecodedPicture::%s : returns' % fn, where_of(bb_), 'DecodedPicture::%s returns %s, expected %s' % (fn, got, want))
    # H3 nobody else writes the two fields
    EA = effects.analysis(F)
    nw = 0
    for name, be in sorted(EA.per_body.items()):
        bd = F.bodies[name]
        for e in be.effects:
            if e.kind != 'w' or e.loc[0][0] != 'param': continue
            if e.via in F.bodies: continue
            pty = bd['locals'][e.loc[0][1]]['s']
            if 'decoder::picture::DecodedPicture' not in pty or 'closure' in pty: continue
            path = e.loc[1]
            if path[:1] in ((0,), (1,)) or not path or path[:1] == ('*',) and len(path) == 1:
                nw += 1
                ck.violation('H', 'H : %s : writes header/format' % short_fn(name), where_of(bd, e.bb), '%s writes DecodedPicture%s (via %s); the stored header and format must stay those given to new()' % (
                    short_fn(name), list(path), e.via))
    if nw == 0: ck.ok('H', 'no function writes DecodedPicture.picture_header / .format after construction (%d bodies scanned)' % len(EA.per_body))
    # H4 the decode closure: header = parse result, format = fallback table, stored picture = new()'s result
    b = F.body(CLO)
    T = Table(F, CLO, extra_reads=r'H263State::parse_picture$', stop_at=lambda bb, t: F.callee_name(t).endswith('DecodedPicture::new'))
    news = [(bb, t) for bb, t in T.g.calls() if F.callee_name(t).endswith('DecodedPicture::new')]
    if len(news) != 1:
        ck.violation('H', 'H : decode_next_picture : DecodedPicture::new calls', where_of(b), '%d calls of DecodedPicture::new' % len(news)); return
    nb, nt = news[0]
    HDR = 'some(r1 or MiddleOfBitstream)'
    a0 = T.cases(T.ex(nt['args'][0]), nb)
    if [T.show(v) for _, v in a0] != [HDR] or T.reads[0][1] != 'parse_picture':
        ck.violation('H', 'H : decode_next_picture : header passed to new', where_of(b, nb), 'DecodedPicture::new receives %s, expected the result of parse_picture unmodified' % [T.show(v) for _, v in a0])
    else:
        ck.ok('H', 'decode_next_picture: DecodedPicture::new(header = parse_picture(..)?.ok_or(..)?, ..)', where_of(b, nb))
    # the closure mapped over get_last_picture() must be |rp| rp.format()
    last_fmt = None
    for k, bd in F.bodies.items():
        if k.startswith(CLO + '::{closure#'):
            Tk = Table(F, k)
            if [Tk.show(d[2]) for d in Tk.local_defs(0)] == ['format(rp)'] or [Tk.show(d[2]) for d in Tk.local_defs(0)] == ['format(%s)' % Tk.names.get('2', 'arg2')]:
                last_fmt = k.split('::')[-1]
    want = {
        HDR + '.2.as1.0': HDR + '.2 is Some',
    }
    got = {T.show(v): c for c, v in T.cases(T.ex(nt['args'][1]), nb)}
    ok = True
    own = got.pop(HDR + '.2.as1.0', None)
    if own is None or dnf_diff(dnf_and(T.pc(nb), own), one(('V', HDR + '.2', ('None', 'Some'), frozenset(['Some'])))) is not None:
        ok = False
        ck.violation('H', 'H : decode_next_picture : own format', where_of(b, nb), 'the format in force is not the header\'s own format exactly when the header has one: %s' % (
            {k: fmt_cond(v) for k, v in list(got.items()) + [(HDR + '.2.as1.0', own or FALSE)]}))
    rest = list(got.items())
    prev = 'map(get_last_picture(self), %s)' % last_fmt
    fb_forms = (prev + '.as1.0', 'some(%s or PictureFormatMissing)' % prev,       # `if let Some(f) = prev` / `prev.ok_or(..)?`
                'format(get_last_picture(self).as1.0)')                          # `match self.get_last_picture() { Some(p) => p.format(), .. }`
    if len(rest) != 1 or rest[0][0] not in fb_forms or (last_fmt is None and rest[0][0] != fb_forms[2]):
        ok = False
        ck.violation('H', 'H : decode_next_picture : fallback format', where_of(b, nb), 'without a format in the header the format in force is %s, expected the previous picture\'s format() (%s)' % (
            [k for k, _ in rest], fb_forms[0]))
    else:
        c = dnf_and(T.pc(nb), rest[0][1])
        must = one(('V', HDR + '.2', ('None', 'Some'), frozenset(['None'])))
        from ..bitslice import dnf_implies
        if not dnf_implies(c, must):
            ok = False
            ck.violation('H', 'H : decode_next_picture : fallback condition', where_of(b, nb), 'the previous picture\'s format is used under [%s], i.e. also when the header has its own' % fmt_cond(c))
    if ok:
        ck.ok('H', 'decode_next_picture: format in force = header.format if present, else the previous picture\'s format()', where_of(b, nb))
    # stored picture: the value inserted under the header's temporal reference is new()'s result
    g = cfg_of(b); D = defs_of(b)
    ins = [(bb, t) for bb, t in g.calls() if F.callee_name(t).endswith('HashMap::<K, V, S, A>::insert')]
    pat = re.compile(r'^branch\(ok_or\(new\(.*\), PictureFormatInvalid\(\)\)\)\.as0\.0$')
    good = 0
    for bb, t in ins:
        key = expr_str(expr_of(F, b, t['args'][1]), b['debug']); val = expr_str(expr_of(F, b, t['args'][2]), b['debug'])
        if pat.match(val) and key == 'as_header(%s).1' % val:
            good += 1
            ck.ok('H', 'decode_next_picture: reference_states.insert(picture.as_header().temporal_reference, picture) with picture = DecodedPicture::new(..)', where_of(b, bb))
        else:
            ck.violation('H', 'H : decode_next_picture : stored picture', where_of(b, bb), 'stores %s under key %s' % (val[:160], key[:160]))
    if not ins:
        ck.violation('H', 'H : decode_next_picture : stored picture', where_of(b), 'no insertion into reference_states found')
    # parse_picture forwards to decode_picture
    pb = F.body('h263_rs::decoder::state::H263State::parse_picture'); Tp = Table(F, 'h263_rs::decoder::state::H263State::parse_picture')
    got = [Tp.show(d[2]) for d in Tp.local_defs(0)]
    if got == ['decode_picture#1(reader, self.0, previous_picture)'] or got == ['result(r1)'] or (len(got) == 1 and got[0].startswith('decode_picture')):
        ck.ok('H', 'H263State::parse_picture = decode_picture(reader, self.decoder_options, previous_picture)', where_of(pb))
    else:
        ck.violation('H', 'H : parse_picture : forwards', where_of(pb), 'parse_picture returns %s' % got)


def rule_s(ck, F):
    ck.rule('S', 'SourceFormat::into_width_and_height: the five standard formats have the sizes of H.263 Table 5, a custom format its own (non-zero) indications, Reserved none')
    name = 'h263_rs::types::SourceFormat::into_width_and_height'
    b = F.body(name); T = Table(F, name)
    rows = T.return_rows()
    self_v = lambda names: one(('V', 'self', tuple(v['name'] for v in F.adts['h263_rs::types::SourceFormat']['variants']), frozenset(names)))
    ok = True
    w = rows.get('Some.0', {}); h = rows.get('Some.1', {})
    for fmt_name, (ww, hh) in SIZES.items():
        for tbl, val, axis in ((w, ww, 'width'), (h, hh, 'height')):
            c = tbl.get(str(val), FALSE)
            # several formats may share a value; the row must contain this format
            from ..bitslice import dnf_implies
            if not dnf_implies(self_v([fmt_name]), c):
                ok = False
                ck.violation('S', 'S : %s : %s' % (fmt_name, axis), where_of(b), '%s %s is not %d (rows: %s)' % (fmt_name, axis, val, {k: fmt_cond(v) for k, v in tbl.items()}))
    for tbl, fld, axis in ((w, 1, 'width'), (h, 2, 'height')):
        key = 'self.as6.0.%d' % fld
        c = tbl.get(key, FALSE)
        from ..bitslice import dnf_implies
        if not c or not dnf_implies(c, self_v(['Extended'])):
            ok = False
            ck.violation('S', 'S : Extended : %s' % axis, where_of(b), 'a custom format\'s %s is not its picture_%s_indication (rows: %s)' % (axis, axis, {k: fmt_cond(v) for k, v in tbl.items()}))
    none = rows.get('', {}).get('None', FALSE)
    from ..bitslice import dnf_implies
    if not dnf_implies(self_v(['Reserved']), none):
        ok = False
        ck.violation('S', 'S : Reserved', where_of(b), 'SourceFormat::Reserved has dimensions')
    # no size exactly for Reserved and for a custom format with a zero width or a zero height (every decoded picture has width, height >= 1)
    from ..bitslice import dnf_diff, dnf_or, dnf_and
    cf = [f.get('name') for f in F.adt('h263_rs::types::CustomPictureFormat')['variants'][0]['fields']]
    wi, hi = cf.index('picture_width_indication'), cf.index('picture_height_indication')
    zero = lambda i: one(('A', 'Eq(self.as6.0.%d, 0)' % i, True))
    want_none = dnf_or(self_v(['Reserved']), dnf_and(self_v(['Extended']), dnf_or(zero(wi), zero(hi))))
    dn = dnf_diff(want_none, none)
    if dn is not None:
        ok = False
        ck.violation('S', 'S : no size', where_of(b), 'into_width_and_height returns None under [%s]; expected exactly for Reserved and for a custom format with a zero width or height (differs at %s)' % (
            fmt_cond(none), ', '.join('%s=%s' % kv for kv in sorted(dn[0].items(), key=str))))
    if ok:
        ck.ok('S', 'into_width_and_height: %s; Extended -> its indications; Reserved -> None' % ', '.join('%s %dx%d' % (k, v[0], v[1]) for k, v in SIZES.items()), where_of(b))


def run(ck, F):
    rule_b(ck, F)
    rule_i(ck, F)
    rule_h(ck, F)
    rule_s(ck, F)
