"""C07 - YUV to RGB conversion is the BT.601 studio-range formula for every colour (all 2^24 triples, by equality of canonical forms)."""
from fractions import Fraction
from ..canon import TreeBuilder, canon, lane, show, TooComplex
from ..report import where_of
from ..facts import Unanalysable

K = 'h263_rs_yuv::bt601::yuv_to_rgba_4x'


def coefficients():
    """16.16 fixed-point coefficients computed from the BT.601 constants (Kr = 0.299, Kb = 0.114, studio ranges 219 / 224)"""
    kr, kb = Fraction(299, 1000), Fraction(114, 1000)
    kg = 1 - kr - kb
    sy = Fraction(255, 219); sc = Fraction(255, 224)
    real = {
        'y': sy,
        'cr_r': sc * 2 * (1 - kr),                    # 1.402
        'cr_g': -sc * 2 * (1 - kr) * kr / kg,
        'cb_g': -sc * 2 * (1 - kb) * kb / kg,
        'cb_b': sc * 2 * (1 - kb),                    # 1.772
    }
    fixed = {k: int((v * 65536 + Fraction(1, 2)).__floor__()) if v >= 0 else -int((-v * 65536 + Fraction(1, 2)).__floor__()) for k, v in real.items()}
    return real, fixed


def spec_lane(k, l):
    Y = ('idx', ('fld', ('in', 'arg1'), 0), ('c', l))
    Cb = ('idx', ('fld', ('in', 'arg1'), 1), ('c', l // 2))
    Cr = ('idx', ('fld', ('in', 'arg1'), 2), ('c', l // 2))
    def mul(c, x): return ('op', 'Mul', ('c', c), x)
    def add(*xs):
        r = xs[0]
        for x in xs[1:]: r = ('op', 'Add', r, x)
        return r
    y = ('op', 'Sub', Y, ('c', 16)); cb = ('op', 'Sub', Cb, ('c', 128)); cr = ('op', 'Sub', Cr, ('c', 128))
    def chan(*terms):
        return ('call', 'clamp', ('call', 'Shra', add(*(terms + (('c', 32768),))), ('c', 16)), ('c', 0), ('c', 255))
    R = chan(mul(k['y'], y), mul(k['cr_r'], cr))
    G = chan(mul(k['y'], y), mul(k['cr_g'], cr), mul(k['cb_g'], cb))
    B = chan(mul(k['y'], y), mul(k['cb_b'], cb))
    def shl(x, n): return ('call', 'Shl', x, ('c', n))
    return ('call', 'BitOr', ('call', 'BitOr', R, shl(G, 8)), ('call', 'BitOr', shl(B, 16), shl(('c', 255), 24)))


def lanes(ck, F, rule='F'):
    """rule F: every output lane has the BT.601 canonical form on Y[l], Cb[l/2], Cr[l/2]; returns (body, real, fixed) or None"""
    b = F.body(K)
    real, fixed = coefficients()
    ck.sample({'computed_coefficients': fixed, 'real_x65536': {k: float(v * 65536) for k, v in real.items()}})
    try:
        tb = TreeBuilder(F)
        r, stores = tb.function(K)
    except TooComplex as e:
        ck.unanalysable('kernel left the analysable fragment', str(e)); return None
    outs = [(t, v) for t, v in stores if t == ('in', 'arg2')]
    if len(outs) != 1 or not (outs[0][1][0] == 'call' and outs[0][1][1] == 'bytecast'):
        ck.violation(rule, '%s : yuv_to_rgba_4x : output store' % rule, where_of(b), 'the kernel does not store one reinterpreted i32x4 into its output array (found %d stores)' % len(stores)); return None
    vec = outs[0][1][2]
    for l in range(4):
        got = canon(lane(vec, l)); want = canon(spec_lane(fixed, l))
        if got == want:
            ck.ok(rule, 'lane %d == BT.601 form (Y[%d], Cb[%d], Cr[%d])' % (l, l, l // 2, l // 2), where_of(b))
        else:
            ck.violation(rule, '%s : yuv_to_rgba_4x : lane %d differs from the BT.601 form' % (rule, l), where_of(b),
                         'lane %d computes %s ; the BT.601 16.16 formula is %s' % (l, show(got)[:700], show(want)[:700]))
    return b, real, fixed


def run(ck, F, tier):
    ck.explanation = ('C07 decided for all 2^24 inputs at once: the straight-line kernel yuv_to_rgba_4x is if-converted into one expression per output lane '
                      '(wide::i32x4 operators modelled lane-wise), canonicalised (exact linear forms, sorted commutative operators, clamp = min(max)), and compared '
                      'structurally with the BT.601 studio-range formula in 16.16 fixed point whose coefficients the checker computes itself from Kr = 0.299, '
                      'Kb = 0.114, 255/219 and 255/224. Equality of canonical forms is equality of functions. The "within 1" and monotonicity clauses are then '
                      'arithmetic consequences of the coefficients, evaluated by the checker; i32 overflow is excluded by the coefficient magnitudes.')
    ck.assumptions += ['wide::i32x4 Add/Sub/Mul/Shr/Shl/BitOr/max/min are lane-wise two\'s-complement operations with arithmetic >>; bytemuck::cast i32x4 -> u8x16 '
                       'reinterprets little-endian (the MIR analysed is the little-endian cfg arm)']
    ck.rule('F', 'each of the 4 output lanes canonicalises to  R | G<<8 | B<<16 | 255<<24  with R,G,B = clamp((k.y*(Y-16) + ... + 32768) >> 16, 0, 255) and the computed coefficients; '
                 'lane l uses Y[l], Cb[l/2], Cr[l/2]')
    res = lanes(ck, F, 'F')
    if res is None: return
    b, real, fixed = res
    # derived clauses, evaluated from the coefficients
    ck.rule('D', 'consequences of the form: every channel within 1 of the real-valued formula; monotone in each component; no i32 overflow; alpha = 255')
    ranges = {'y': 239, 'cr_r': 128, 'cr_g': 128, 'cb_g': 128, 'cb_b': 128}
    for ch, terms in (('R', ['y', 'cr_r']), ('G', ['y', 'cr_g', 'cb_g']), ('B', ['y', 'cb_b'])):
        err = sum(abs(Fraction(fixed[t]) - real[t] * 65536) * ranges[t] for t in terms) / 65536 + Fraction(1, 2)
        mag = sum(abs(fixed[t]) * ranges[t] for t in terms) + 32768
        if err < 1 and mag < 2 ** 31:
            ck.ok('D', '%s: |fixed - real| <= %.4f < 1, |accumulator| <= %d < 2^31, coefficients of fixed sign => monotone' % (ch, float(err), mag))
        else:
            ck.violation('D', 'D : %s : bound' % ch, where_of(b), '%s: error bound %.4f, accumulator magnitude %d' % (ch, float(err), mag))
    # "for each triple the converted pixel ..": in a picture, pixel x of a row must be given its own luma sample and the chroma pair of its own 4-pixel group
    # (whole groups, remainder columns, row pairing) - C08's rules K, M, R and their panic / geometry clauses, re-run here on this tree
    from . import c08
    from ..report import Scoped
    c08.run(Scoped(ck, 'C08.'), F, tier)

