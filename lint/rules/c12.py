"""C12 - motion vectors are reconstructed exactly for every predictor/differential pair."""
import itertools
from ..cfg import cfg_of
from ..dataflow import defs_of, callee_is, strip_ref, expr_of, expr_of_place, expr_str, ematch, V, ANY, _expr_rv
from ..canon import TreeBuilder, canon, show, leaves, default_opaque, TooComplex, is_lin, lin_const, atom
from ..cprop import Folder, Unknown
from .. import tables
from ..report import where_of, short_fn
from . import reader_rules as rr

T = 'h263_rs::types::'
MVP = 'h263_rs::decoder::cpu::mvd_pred::'

# H.263 Table 14 (MVD): (code, length) of magnitude index 0..32 (vector = index/2), followed by a sign bit for index >= 1
MVTAB = [(1, 1), (1, 2), (1, 3), (1, 4), (3, 6), (5, 7), (4, 7), (3, 7), (11, 9), (10, 9), (9, 9), (17, 10), (16, 10), (15, 10), (14, 10), (13, 10),
         (12, 10), (11, 10), (10, 10), (9, 10), (8, 10), (7, 10), (6, 10), (5, 10), (4, 10), (7, 11), (6, 11), (5, 11), (4, 11), (3, 11), (2, 11), (3, 12), (2, 12)]


def opq(n):
    return default_opaque(n) or n.endswith('median_of') or n.endswith('::contains') or 'as_header' in n or n.endswith('::format') or 'into_width_and_height' in n


def a_wrap(ck, F):
    ck.rule('A', 'halfpel_decode without unrestricted motion vectors: out = mvd + predictor; if -32 <= out < 32 then out else invert(mvd) + predictor, '
                 'invert(m) = m - 64 for m > 0, m + 64 for m < 0, m for 0; STANDARD_RANGE = 32')
    b = F.body(MVP + 'halfpel_decode')
    try:
        r, st = TreeBuilder(F, opaque=opq).function(MVP + 'halfpel_decode', [('in', 'pic'), ('in', 'opts'), ('agg', 'HalfPel::HalfPel', ('in', 'p')), ('agg', 'HalfPel::HalfPel', ('in', 'm')), ('in', 'is_x')])
    except TooComplex as e:
        ck.unanalysable('halfpel_decode', str(e)); return
    # baseline: every `contains(opts, UNRESTRICTED_MOTION_VECTORS)` is false
    def base(t):
        if isinstance(t, tuple):
            if t and t[0] == 'call' and (t[1].endswith('::contains') or t[1] == 'contains') and 'PictureOption' in repr(t[3] if len(t) > 3 else ''): return ('c', 0)
            # Ordering returned by cmp: Less = 255 (-1 as u8), Equal = 0, Greater = 1
            if t and t[0] == 'op' and t[1] == 'Eq' and t[2][0] == 'discr' and t[2][1][0] == 'call' and t[2][1][1] == 'cmp3' and t[3][0] == 'c':
                a_, b_ = base(t[2][1][2]), base(t[2][1][3])
                while b_[0] == 'ref': b_ = b_[1]
                while a_[0] == 'ref': a_ = a_[1]
                return ('op', {1: 'Gt', 255: 'Lt', 0: 'Eq'}[t[3][1]], a_, b_)
            return tuple(base(x) if isinstance(x, tuple) else x for x in t)
        return t
    got = canon(base(r), {'satadd_is_add': True})
    m = ('in', 'm'); p = ('in', 'p')
    def op(o, x, y): return ('op', o, x, y)
    o = op('Add', m, p)
    inv = ('ite', op('Gt', m, ('c', 0)), op('Sub', m, ('c', 64)), ('ite', op('Lt', m, ('c', 0)), op('Add', m, ('c', 64)), m))
    inr = ('op', 'BitAnd', op('Le', ('c', -32), o), op('Lt', o, ('c', 32)))
    spec = ('agg', 'HalfPel::HalfPel', ('ite', inr, o, op('Add', inv, p)))
    want = canon(spec)
    if equal_trees(got, want):
        ck.ok('A', 'halfpel_decode (no UMV) = in(m+p) ? m+p : invert(m)+p with range 32 and offset 64', where_of(b))
    else:
        ck.violation('A', 'A : halfpel_decode : baseline form', where_of(b), 'baseline path computes %s ; expected %s' % (show(got)[:600], show(want)[:600]))
    ck.sample({'rule': 'A', 'canonical': show(got)[:400]})


def equal_trees(a, b):
    """canonical equality up to the decision structure: both are evaluated on the sign/range classes below if they are not syntactically equal"""
    if a == b: return True
    return decision_equal(a, b)


def decision_equal(a, b):
    """compare two canonical forms whose only difference may be the nesting / short-circuit shape of their conditions: enumerate the truth
    assignments of the comparison atoms occurring in either (at most 2^8) and compare the selected leaves"""
    conds = []
    def has_inner(x):
        return isinstance(x, tuple) and any((isinstance(y, tuple) and y and y[0] in ('ite', 'cmp', 'and', 'or')) or has_inner(y) for y in x if isinstance(y, tuple))
    def collect(x):
        if isinstance(x, tuple):
            if x and x[0] == 'cmp' and not has_inner(x[2]):
                if x not in conds: conds.append(x)
            for y in x:
                if isinstance(y, tuple): collect(y)
    collect(a); collect(b)
    if len(conds) > 10: return False
    for bits in itertools.product((0, 1), repeat=len(conds)):
        env = dict(zip(conds, bits))
        if not consistent(env): continue
        if resolve(a, env) != resolve(b, env): return False
    return True


def consistent(env):
    """prune assignments that contradict each other on the same linear form (x<0 and x>0, x==0 and x<0, ...)"""
    by = {}
    for c, v in env.items():
        by.setdefault(c[2], []).append((c[1], v))
    for lf, lst in by.items():
        # possible signs of lf: -1, 0, +1
        signs = {-1, 0, 1}
        for o, v in lst:
            sat = {'eq': {0}, 'ne': {-1, 1}, 'lt': {-1}, 'le': {-1, 0}, 'gt': {1}, 'ge': {0, 1}}[o]
            signs &= sat if v else ({-1, 0, 1} - sat)
        if not signs: return False
    # forms that differ by a constant: x + c1 < 0 and x + c2 >= 0 with c2 <= c1 is impossible etc. (interval on the shared variable part)
    groups = {}
    for c, v in env.items():
        lf = c[2]
        key = lf[1]
        groups.setdefault(key, []).append((lf[2], c[1], v))
    for key, lst in groups.items():
        lo, hi = -10**9, 10**9          # bounds on t = variable part
        ne = []
        for cst, o, v in lst:
            # t + cst  o  0
            if not v:
                o = {'eq': 'ne', 'ne': 'eq', 'lt': 'ge', 'le': 'gt', 'gt': 'le', 'ge': 'lt'}[o]
            if o == 'lt': hi = min(hi, -cst - 1)
            elif o == 'le': hi = min(hi, -cst)
            elif o == 'gt': lo = max(lo, -cst + 1)
            elif o == 'ge': lo = max(lo, -cst)
            elif o == 'eq': lo = max(lo, -cst); hi = min(hi, -cst)
            else: ne.append(-cst)
        if lo > hi: return False
        if lo == hi and lo in ne: return False
    return True


def resolve(x, env):
    """select branches of ite atoms under a truth assignment of comparison atoms; and/or of comparisons fold to constants"""
    if not isinstance(x, tuple): return x
    if x and x[0] == 'lin':
        terms = []; c = x[2]
        for a, k in x[1]:
            ra = resolve_atom(a, env)
            if is_lin(ra):
                for a2, k2 in ra[1]: terms.append((a2, k2 * k))
                c += ra[2] * k
            else: terms.append((ra, k))
        d = {}
        for a2, k2 in terms: d[a2] = d.get(a2, 0) + k2
        return ('lin', tuple(sorted(((a2, k2) for a2, k2 in d.items() if k2 != 0), key=lambda t: repr(t[0]))), c)
    return resolve_atom(x, env)


def resolve_atom(a, env):
    if not isinstance(a, tuple) or not a: return a
    if a[0] == 'cmp':
        if a in env: return ('lin', (), env[a])
        inner = resolve(a[2], env)
        c = lin_const(inner) if is_lin(inner) else None
        if c is not None:
            return ('lin', (), int({'eq': c == 0, 'ne': c != 0, 'lt': c < 0, 'le': c <= 0, 'gt': c > 0, 'ge': c >= 0}[a[1]]))
        return ('cmp', a[1], inner)
    if a[0] == 'ite':
        c = resolve(a[1], env)
        cv = lin_const(c) if is_lin(c) else None
        if cv is not None: return resolve(a[2] if cv != 0 else a[3], env)
        return ('ite', c, resolve(a[2], env), resolve(a[3], env))
    if a[0] == 'and':
        vals = [resolve(x, env) for x in a[1:]]
        cs = [lin_const(v) for v in vals]
        if all(c is not None for c in cs): return ('lin', (), int(all(c != 0 for c in cs)))
        return ('and',) + tuple(vals)
    if a[0] == 'or':
        vals = [resolve(x, env) for x in a[1:]]
        cs = [lin_const(v) for v in vals]
        if all(c is not None for c in cs): return ('lin', (), int(any(c != 0 for c in cs)))
        return ('or',) + tuple(vals)
    return tuple(resolve(x, env) if isinstance(x, tuple) else x for x in a)


def b_chroma(ck, F):
    ck.rule('B', 'average_sum_of_mvs(s) = 2*(s >> 4) + {0 if s&15 <= 2; 2 if s&15 >= 14; 1 otherwise} for every sum s of four vectors (folded over all s in [-16384, 16383])')
    fo = Folder(F)
    bad = []
    n = 0
    for s in range(-16384, 16384):
        try:
            r = fo.call(T + 'HalfPel::average_sum_of_mvs', [('enum', 'types::HalfPel', 0, [('int', s, 16, True)])])
        except Unknown as e:
            bad.append('s=%d: %s' % (s, e)); break
        n += 1
        f = s & 15
        want = 2 * (s >> 4) + (0 if f <= 2 else (2 if f >= 14 else 1))
        got = r[3][0][1] if r[0] == 'enum' else None
        if got != want:
            bad.append('s=%d -> %s, table says %d' % (s, got, want))
            if len(bad) > 5: break
    b = F.body(T + 'HalfPel::average_sum_of_mvs')
    if bad: ck.violation('B', 'B : average_sum_of_mvs : table', where_of(b), 'chroma vector rounding differs from the sixteenth-position table: %s' % '; '.join(bad[:5]))
    else: ck.ok('B', 'average_sum_of_mvs: %d sums folded, all equal to the sixteenth-position table' % n, where_of(b))
    # the chroma vector in gather is average_sum_of_mvs(mv0 + mv1 + mv2 + mv3), component-wise
    gb = F.body('h263_rs::decoder::cpu::gather::gather'); g = cfg_of(gb)
    cs = rr.find_calls(F, gb, 'MotionVector::average_sum_of_mvs')
    ok = False
    if len(cs) == 1:
        e = expr_of(F, gb, cs[0][1]['args'][0])
        add = 'MotionVector as std::ops::Add>::add'
        pat = ('callp', add, ('callp', add, ('callp', add, V('a'), V('b')), V('c')), V('d'))
        m = ematch(pat, e)
        if m:
            idx = []
            for k in 'abcd':
                x = m[k]
                idx.append(x[2][-1] if x[0] == 'fld' else None)
            ok = [i[1] if isinstance(i, tuple) and i[0] == 'idx' else i for i in idx] == [('c', 0), ('c', 1), ('c', 2), ('c', 3)] or idx == [('cidx', 0, False), ('cidx', 1, False), ('cidx', 2, False), ('cidx', 3, False)]
    if ok: ck.ok('B', 'gather: chroma vector = average_sum_of_mvs(mv[0] + mv[1] + mv[2] + mv[3])', where_of(gb, cs[0][0]))
    else: ck.violation('B', 'B : gather : chroma vector source', where_of(gb), 'the chroma vector is not average_sum_of_mvs of the sum of the four luma vectors')
    # MotionVector::average_sum_of_mvs is component-wise
    try:
        r, st = TreeBuilder(F, opaque=lambda n: default_opaque(n) or n.endswith('HalfPel::average_sum_of_mvs')).function(T + 'MotionVector::average_sum_of_mvs', [('agg', 'MotionVector::MotionVector', ('in', 'x'), ('in', 'y'))])
        want = ('agg', 'MotionVector::MotionVector', ('call', 'types::HalfPel::average_sum_of_mvs', ('in', 'x')), ('call', 'types::HalfPel::average_sum_of_mvs', ('in', 'y')))
        if r == want: ck.ok('B', 'MotionVector::average_sum_of_mvs is component-wise', where_of(F.body(T + 'MotionVector::average_sum_of_mvs')))
        else: ck.violation('B', 'B : MotionVector::average_sum_of_mvs : componentwise', where_of(F.body(T + 'MotionVector::average_sum_of_mvs')), 'not component-wise: %s' % (str(r)[:200],))
    except TooComplex as e:
        ck.unanalysable('MotionVector::average_sum_of_mvs', str(e))


def c_mvd_table(ck, F):
    ck.rule('C', 'MVD_TABLE (folded from const MIR) decodes exactly the 64 code words of Table 14/H.263 to their vectors and maps every other complete path to None; '
                 'HalfPel::from(f32) is floor(2x), exact on the table values; decode_motion_vector reads x then y with this table')
    ents = tables.vlc_entries(F, 'h263_rs::parser::macroblock::MVD_TABLE')
    probs, codes, unreached = tables.vlc_check(ents)
    want = {}
    for i, (code, ln) in enumerate(MVTAB):
        bits = format(code, '0%db' % ln)
        if i == 0: want[bits] = 0.0
        else:
            if i < 32: want[bits + '0'] = i / 2.0
            want[bits + '1'] = -i / 2.0
    got = {}
    for c, v in codes.items():
        # Option<f32>: ('Option', variant, [x])
        if v[1] == 1: got[c] = v[2][0]
    b = F.body('h263_rs::parser::macroblock::MVD_TABLE')
    bad = []
    for c in sorted(set(want) | set(got)):
        if want.get(c) != got.get(c): bad.append('%s: table %s, Table 14 %s' % (c, got.get(c), want.get(c)))
    if probs or bad or len(want) != 64:
        ck.violation('C', 'C : MVD_TABLE : code words', where_of(b), 'MVD_TABLE differs from Table 14: %s %s' % ('; '.join(bad[:6]), probs[:2]))
    else:
        ck.ok('C', 'MVD_TABLE: 64 code words == Table 14 (vector -16..15.5), %d invalid complete paths -> None' % (len(codes) - 64), where_of(b))
    fo = Folder(F)
    badf = []
    for v in sorted(set(want.values())):
        try:
            r = fo.call('h263_rs::<types::HalfPel as std::convert::From<f32>>::from', [('float', v, 32)])
            # floor is an external: the folder cannot evaluate it -> fall back to the structural check below
        except Unknown:
            badf = None; break
    fb = F.body('h263_rs::<types::HalfPel as std::convert::From<f32>>::from')
    r, st = TreeBuilder(F).function('h263_rs::<types::HalfPel as std::convert::From<f32>>::from', [('in', 'x')])
    want_t = ('agg', 'HalfPel::HalfPel', ('cast', 'i16', ('call', 'floor', ('op', 'Mul', ('in', 'x'), ('c', 2.0)))))
    if r == want_t: ck.ok('C', 'HalfPel::from(f32) = floor(2x) as i16 (2x is integral for every table value)', where_of(fb))
    else: ck.violation('C', 'C : HalfPel::from : form', where_of(fb), 'HalfPel::from(f32) computes %s' % (str(r)[:200],))
    # decode_motion_vector: x then y from MVD_TABLE
    db = F.body('h263_rs::parser::macroblock::decode_motion_vector::{closure#0}'); g = cfg_of(db)
    from ..dataflow import const_item_of
    vs = rr.find_calls(F, db, 'H263Reader::<R>::read_vlc')
    its = [const_item_of(F, db, t['args'][1]) for bb, t in vs]
    if len(vs) == 2 and all(i and i.endswith('MVD_TABLE') for i in its) and g.dominates(vs[0][0], vs[1][0]):
        ck.ok('C', 'decode_motion_vector: two MVD_TABLE reads (x then y)', where_of(db, vs[0][0]))
    else:
        ck.violation('C', 'C : decode_motion_vector : reads', where_of(db), 'decode_motion_vector does not read x then y with MVD_TABLE (%s)' % its)


def e_median(ck, F):
    ck.rule('E', 'HalfPel::median_of touches its arguments only through `>` and returns a median under all 13 weak orderings of three values; '
                 'MotionVector::median_of applies it component-wise')
    b = F.body(T + 'HalfPel::median_of')
    try:
        r, st = TreeBuilder(F, opaque=default_opaque).function(T + 'HalfPel::median_of', [('in', 'a'), ('in', 'b'), ('in', 'c')])
    except TooComplex as e:
        ck.unanalysable('median_of', str(e)); return
    def ev(t, rank):
        if t[0] == 'ite':
            c = t[1]
            v = evc(c, rank)
            return ev(t[2] if v else t[3], rank)
        if t[0] == 'in': return t[1]
        raise KeyError(t[0])
    def evc(c, rank):
        if c[0] == 'op' and c[1] == 'Eq' and c[3][0] == 'c': return int(evc(c[2], rank)) == c[3][1]
        if c[0] == 'call' and c[1] in ('Gt', 'Lt', 'Ge', 'Le') and c[2][0] == 'in' and c[3][0] == 'in':
            x, y = rank[c[2][1]], rank[c[3][1]]
            return {'Gt': x > y, 'Lt': x < y, 'Ge': x >= y, 'Le': x <= y}[c[1]]
        if c[0] == 'c': return c[1]
        raise KeyError(repr(c)[:80])
    orderings = set()
    for ranks in itertools.product(range(3), repeat=3):
        # normalise to dense ranks
        s = sorted(set(ranks)); orderings.add(tuple(s.index(x) for x in ranks))
    bad = []
    try:
        for o in sorted(orderings):
            rank = dict(zip('abc', o))
            res = ev(r, rank)
            med = sorted(o)[1]
            if rank[res] != med: bad.append('%s -> %s' % (rank, res))
    except KeyError as e:
        ck.violation('E', 'E : median_of : form', where_of(b), 'median_of is not a decision tree over `>` comparisons of its arguments (%s)' % e); return
    if bad: ck.violation('E', 'E : median_of : not a median', where_of(b), 'median_of returns a non-median for the orderings %s' % bad[:4])
    else: ck.ok('E', 'median_of: decision tree evaluated on %d weak orderings, always a median' % len(orderings), where_of(b))
    mb = F.body(T + 'MotionVector::median_of')
    r, st = TreeBuilder(F, opaque=lambda n: default_opaque(n) or n.endswith('HalfPel::median_of')).function(T + 'MotionVector::median_of',
        [('agg', 'MV', ('in', 'a0'), ('in', 'a1')), ('agg', 'MV', ('in', 'b0'), ('in', 'b1')), ('agg', 'MV', ('in', 'c0'), ('in', 'c1'))])
    want = ('agg', 'MotionVector::MotionVector', ('call', 'types::HalfPel::median_of', ('in', 'a0'), ('in', 'b0'), ('in', 'c0')), ('call', 'types::HalfPel::median_of', ('in', 'a1'), ('in', 'b1'), ('in', 'c1')))
    if r == want: ck.ok('E', 'MotionVector::median_of is component-wise', where_of(mb))
    else: ck.violation('E', 'E : MotionVector::median_of : componentwise', where_of(mb), 'not component-wise: %s' % (str(r)[:300],))


def d_candidates(ck, F):
    ck.rule('D', 'predict_candidate specialised to index 0..3 (the only values passed: C01 contract) selects, in each border class (first column / first line / last column), '
                 'the candidates of H.263 6.1.1: MV1 = left macroblock block 1|3 or current block 0|2 (0 in the first column); MV2 = above macroblock block 2|3 or current block 0 '
                 '(MV1 on the first line); MV3 = above-right macroblock block 2 or current block 1 (0 in the last column, MV1 on the first line)')
    b = F.body(MVP + 'predict_candidate')
    LEN = ('call', 'core::slice::<impl [T]>::len', ('ref', ('in', 'pv')))
    def op(o, x, y): return ('op', o, x, y)
    col = op('Rem', LEN, ('in', 'mbpl')); line = op('Div', LEN, ('in', 'mbpl'))
    C0 = canon(op('Eq', col, ('c', 0))); L0 = canon(op('Eq', line, ('c', 0))); EOL = canon(op('Eq', col, ('call', 'satsub', ('in', 'mbpl'), ('c', 1))))
    atoms = {'C0': C0, 'L0': L0, 'EOL': EOL}
    def cmp_atom(c):
        return c[1][0][0] if is_lin(c) and len(c[1]) == 1 else None
    amap = {cmp_atom(v): k for k, v in atoms.items()}
    if None in amap:
        ck.unanalysable('predict_candidate atoms', 'border conditions did not canonicalise to comparison atoms'); return
    ZERO = canon(('agg', 'MotionVector::MotionVector', ('agg', 'HalfPel::HalfPel', ('c', 0)), ('agg', 'HalfPel::HalfPel', ('c', 0))))
    def LEFT(bk): return canon(('idx', ('idx', ('in', 'pv'), op('Sub', LEN, ('c', 1))), ('c', bk)))
    def CUR(bk): return canon(('idx', ('in', 'cur'), ('c', bk)))
    above_idx = op('Add', op('Mul', ('call', 'satsub', line, ('c', 1)), ('in', 'mbpl')), col)
    n_ok = 0
    real_ck = ck
    class _Buf:           # the symbolic comparison first; its complaints are only reported if the numeric one below does not settle the matter
        def __init__(s): s.v = []
        def ok(s, *a, **k): real_ck.ok(*a, **k)
        def violation(s, *a, **k): s.v.append((a, k))
        def unanalysable(s, *a, **k): s.v.append((('unanalysable',) + a, k))
    buf = _Buf(); ck = buf
    for k in range(4):
        try:
            r, st = TreeBuilder(F, opaque=lambda n: default_opaque(n) or n.endswith('median_of')).function(MVP + 'predict_candidate', [('in', 'pv'), ('in', 'cur'), ('in', 'mbpl'), ('c', k)])
        except TooComplex as e:
            ck.unanalysable('predict_candidate index %d' % k, str(e)); continue
        cr = canon(r)
        for c0, l0, eol in itertools.product((0, 1), repeat=3):
            env = {a: {'C0': c0, 'L0': l0, 'EOL': eol}[nm] for a, nm in amap.items()}
            leaf = resolve(cr, env)
            key = 'D : predict_candidate : index %d first_col=%d first_line=%d last_col=%d' % (k, c0, l0, eol)
            la = leaf[1][0][0] if is_lin(leaf) and len(leaf[1]) == 1 else None
            if not (la and la[0] == 'call' and la[1].endswith('median_of') and len(la) == 5):
                ck.violation('D', key + ' : shape', where_of(b), 'result is not a median of three candidates in this class: %s' % show(leaf)[:200]); continue
            mv1, mv2, mv3 = la[2], la[3], la[4]
            w1 = (ZERO if c0 else LEFT(k + 1)) if k in (0, 2) else CUR(k - 1)
            ok = (mv1 == w1)
            if k in (2, 3):
                ok = ok and mv2 == CUR(0) and mv3 == CUR(1)
            else:
                if l0: ok = ok and mv2 == w1
                else: ok = ok and is_above(mv2, canon(above_idx), w1)
                if eol: ok = ok and mv3 == ZERO
                elif l0: ok = ok and mv3 == w1
                else: ok = ok and is_above(mv3, canon(op('Add', above_idx, ('c', 1))), w1)
            if ok: n_ok += 1; ck.ok('D', 'index %d, class (first_col=%d, first_line=%d, last_col=%d): candidates as specified' % (k, c0, l0, eol), where_of(b), nontrivial=(c0 + l0 + eol == 0))
            else:
                ck.violation('D', key, where_of(b), 'candidates are MV1=%s MV2=%s MV3=%s' % (show(mv1)[:120], show(mv2)[:160], show(mv3)[:160]))
    ck = real_ck
    if buf.v:
        # another spelling of the border tests: decide the same table on concrete macroblock positions (every column / line class for 1..4 macroblocks per line)
        why = _candidates_numeric(F, LEN, ZERO)
        if why is None:
            ck.ok('D', 'candidates as specified for every index and every macroblock position of pictures 1..4 macroblocks wide, 4 lines (border tests in another spelling: decided on concrete positions)', where_of(b))
        else:
            for a, k_ in buf.v:
                if a[0] == 'unanalysable': ck.unanalysable(*a[1:], **k_)
                else: ck.violation(*a, **k_)
            ck.violation('D', 'D : predict_candidate : concrete positions', where_of(b), why)
    # the closures select block index+2 and block 2 of the neighbouring macroblock
    for cn, want in ((MVP + 'predict_candidate::{closure#0}', 'index + 2'), (MVP + 'predict_candidate::{closure#1}', '2')):
        cb = F.body(cn)
        e = expr_of(F, cb, {'o': 'copy', 'p': {'l': 0, 'proj': []}})
        good = False
        if (e[0] == 'fld' and e[1] == ('param', 2, ())) or (e[0] == 'param' and e[1] == 2 and e[2]):
            ix = e[2][-1]
            if want == '2': good = ix == ('idx', ('c', 2)) or ix == ('cidx', 2, False)
            else: good = isinstance(ix, tuple) and ix[0] == 'idx' and ematch(('op', 'Add', ('param', 1, (0,)), ('c', 2)), ix[1]) is not None
        if good: ck.ok('D', '%s selects mb[%s]' % (short_fn(cn).split('::')[-1], want), where_of(cb))
        else: ck.violation('D', 'D : %s : block selected' % short_fn(cn), where_of(cb), 'the closure does not select block %s of the neighbouring macroblock (%s)' % (want, expr_str(e)))
    # call sites pass 0..3 with the vectors decoded so far: covered by the parameter contract of C01; here: order of decoding
    sb = F.body('h263_rs::decoder::state::H263State::decode_next_picture::{closure#0}')
    ks = [expr_of(F, sb, t['args'][3]) for bb, t in rr.find_calls(F, sb, 'mvd_pred::predict_candidate')]
    if ks == [('c', 0), ('c', 1), ('c', 2), ('c', 3)]: ck.ok('D', 'the four call sites pass index 0,1,2,3 in decoding order', where_of(sb))
    else: ck.violation('D', 'D : closure : predict_candidate indices', where_of(sb), 'predict_candidate is called with indices %s' % ks)


def _candidates_numeric(F, LEN, ZERO):
    """None if, for every block index and every macroblock position n of pictures m = 1..4 macroblocks wide (4 lines), predict_candidate with
    len(pv) = n and mb_per_line = m is the median of the three candidates of H.263 6.1.1; else the first difference"""
    def sub(x, n):
        if x == LEN: return ('c', n)
        if isinstance(x, tuple): return tuple(sub(y, n) if isinstance(y, tuple) else y for y in x)
        return x
    def op(o, x, y): return ('op', o, x, y)
    for k in range(4):
        for m in range(1, 5):
            try:
                r, st = TreeBuilder(F, opaque=lambda nm: default_opaque(nm) or nm.endswith('median_of')).function(MVP + 'predict_candidate', [('in', 'pv'), ('in', 'cur'), ('c', m), ('c', k)])
            except TooComplex as e:
                return 'index %d, %d macroblocks per line: %s' % (k, m, e)
            for n in range(0, 4 * m):
                leaf = canon(sub(r, n))
                la = leaf[1][0][0] if is_lin(leaf) and len(leaf[1]) == 1 else None
                if not (la and la[0] == 'call' and la[1].endswith('median_of') and len(la) == 5):
                    return 'index %d at macroblock %d of a picture %d macroblocks wide: the result is not a median of three candidates (%s)' % (k, n, m, show(leaf)[:160])
                col, line = n % m, n // m
                def LEFT(bk): return canon(('idx', ('idx', ('in', 'pv'), ('c', n - 1)), ('c', bk)))
                def CUR(bk): return canon(('idx', ('in', 'cur'), ('c', bk)))
                w1 = (ZERO if col == 0 else LEFT(k + 1)) if k in (0, 2) else CUR(k - 1)
                good = la[2] == w1
                if k in (2, 3): good = good and la[3] == CUR(0) and la[4] == CUR(1)
                else:
                    good = good and (la[3] == w1 if line == 0 else is_above(la[3], canon(('c', (line - 1) * m + col)), w1))
                    if col == m - 1: good = good and la[4] == ZERO
                    elif line == 0: good = good and la[4] == w1
                    else: good = good and is_above(la[4], canon(('c', (line - 1) * m + col + 1)), w1)
                if not good:
                    return 'index %d at macroblock %d of a picture %d macroblocks wide: candidates are MV1=%s MV2=%s MV3=%s' % (k, n, m, show(la[2])[:100], show(la[3])[:140], show(la[4])[:140])
    return None


def is_above(mv, idx, fallback):
    """mv == unwrap_or(map(get(pv, idx), closure), fallback)"""
    a = mv[1][0][0] if is_lin(mv) and len(mv[1]) == 1 else None
    if not (a and a[0] == 'call' and a[1].endswith('unwrap_or') and len(a) == 4): return False
    m = a[2]; fb = a[3]
    ma = m[1][0][0] if is_lin(m) and len(m[1]) == 1 else None
    if not (ma and ma[0] == 'call' and ma[1].endswith('::map')): return False
    g = ma[2]
    ga = g[1][0][0] if is_lin(g) and len(g[1]) == 1 else None
    if not (ga and ga[0] == 'call' and ga[1].endswith('::get') and len(ga) == 4): return False
    return ga[3] == idx and fb == fallback


def f_zero_neighbours(ck, F):
    ck.rule('F', 'the vectors recorded for a macroblock start as zero for every macroblock and are written only under mb_type.is_inter(); what is pushed to the '
                 'predictor list is that array (so intra and not-coded neighbours contribute zero candidates)')
    b = F.body('h263_rs::decoder::state::H263State::decode_next_picture::{closure#0}'); g = cfg_of(b); D = defs_of(b)
    names = {v: int(k) for k, v in b.get('debug', {}).items()}
    mv = names.get('motion_vectors')
    if mv is None:
        ck.unanalysable('closure anchors', 'local motion_vectors not found'); return
    inits = []; writes = []
    for bb in sorted(g.reach):
        for s in g.blocks[bb]['stmts']:
            if s['s'] == 'assign' and s['lhs']['l'] == mv:
                if not s['lhs']['proj']: inits.append((bb, _expr_rv(F, b, s['rv'], 0, {})))
                else: writes.append((bb, s))
    ok = len(inits) == 1 and inits[0][1][0] == 'repeat' and 'MotionVector::zero' in repr(inits[0][1])
    cd = g.control_deps()
    for bb, s in writes:
        conds = set()
        st = [bb]; seen = set()
        while st:
            x = st.pop()
            for (a, su) in cd.get(x, ()):
                if (a, su) in seen: continue
                seen.add((a, su)); st.append(a)
                t = g.blocks[a]['term']
                e = expr_of(F, b, t['on'])
                if e[0] == 'call' and e[1].endswith('MacroblockType::is_inter'):
                    arms = {to: int(v) for v, to in t['arms']}
                    conds.add(arms.get(su, 1))
        if conds != {1}: ok = False
    ps = [(bb, t) for bb, t in rr.find_calls(F, b, 'Vec::<T, A>::push') if strip_ref(D.origin(t['args'][1]))[:2] == ('multi', mv) or expr_of(F, b, t['args'][1]) == ('multi', mv)]
    # "per macroblock": the zero initialisation is executed in every iteration of the macroblock loop, before the vectors are recorded
    per_mb = False
    if ok and len(ps) == 1:
        try:
            from . import c15
            h_, loop_, _ = c15.mb_loop(F, b)
            per_mb = inits[0][0] in loop_ and g.dominates(inits[0][0], ps[0][0]) and all(g.dominates(inits[0][0], bb) for bb, _ in writes)
        except Exception:
            per_mb = False
        if not per_mb:
            ck.violation('F', 'F : closure : zero vectors per macroblock', where_of(b, inits[0][0]), 'motion_vectors is not reset to zero inside the macroblock loop before it is written and recorded: '
                         'an intra or not-coded macroblock would record the previous macroblock\'s vectors')
            return
    if ok and len(ps) == 1 and len(writes) >= 7:
        ck.ok('F', 'motion_vectors = [zero; 4] per macroblock, %d element writes all under is_inter(), pushed once' % len(writes), where_of(b, ps[0][0]))
    else:
        ck.violation('F', 'F : closure : zero vectors for intra / not-coded', where_of(b), 'motion_vectors is not (zero-initialised per macroblock, written only for inter macroblocks, pushed once): inits %d writes %d pushes %d' % (len(inits), len(writes), len(ps)))


def g_mv_decode(ck, F):
    ck.rule('M', 'mv_decode reconstructs x from (predictor.x, differential.x) and y from (predictor.y, differential.y), in that order; the conversions between MotionVector and (x, y) keep '
                 'the order; vector k of a macroblock is mv_decode(picture, options, predict_candidate(.., k), MVD_k) with MVD_1 = MVD (zero if absent), MVD_2..4 = the additional '
                 'differentials in order; without four vectors, vectors 2..4 are copies of vector 1')
    # mv_decode itself
    b = F.body(MVP + 'mv_decode')
    e = expr_of(F, b, {'o': 'copy', 'p': {'l': 0, 'proj': []}})
    def hd(comp, flag):
        return ('callp', 'mvd_pred::halfpel_decode', ('param', 1, ()), ('param', 2, ()), ('fld', ('callp', '::into', ('param', 3, ())), (comp,)),
                ('fld', ('callp', '::into', ('param', 4, ())), (comp,)), ('c', flag))
    want = ('callp', '::into', ('agg', 'tuple', hd(0, 1), hd(1, 0)))
    if ematch(want, e) is not None: ck.ok('M', 'mv_decode = (halfpel_decode(.., p.x, d.x, true), halfpel_decode(.., p.y, d.y, false))', where_of(b))
    else: ck.violation('M', 'M : mv_decode : pairing', where_of(b), 'mv_decode computes %s' % expr_str(e, b.get('debug', {}))[:400])
    for n, pat, txt in (('h263_rs::<(types::HalfPel, types::HalfPel) as std::convert::From<types::MotionVector>>::from', ('agg', 'tuple', ('param', 1, (0,)), ('param', 1, (1,))), '(v.0, v.1)'),
                        ('h263_rs::<types::MotionVector as std::convert::From<(types::HalfPel, types::HalfPel)>>::from', ('agg', 'MotionVector', ('param', 1, (0,)), ('param', 1, (1,))), 'MotionVector(t.0, t.1)')):
        try:
            bb_ = F.body(n)
        except Exception as ex:
            ck.violation('M', 'M : conversion missing : %s' % txt, None, 'conversion %s not found' % n); continue
        e2 = expr_of(F, bb_, {'o': 'copy', 'p': {'l': 0, 'proj': []}})
        if ematch(pat, e2) is not None: ck.ok('M', 'conversion %s keeps the component order' % txt, where_of(bb_))
        else: ck.violation('M', 'M : conversion : %s' % txt, where_of(bb_), 'the conversion returns %s, expected %s' % (expr_str(e2, bb_.get('debug', {})), txt))
    # vector addition (the sum of the four luma vectors that the chroma vector is derived from) is component-wise
    for n, pat, txt in (('h263_rs::<types::MotionVector as std::ops::Add>::add',
                         ('agg', 'MotionVector', ('callp', 'HalfPel as std::ops::Add>::add', ('param', 1, (0,)), ('param', 2, (0,))), ('callp', 'HalfPel as std::ops::Add>::add', ('param', 1, (1,)), ('param', 2, (1,)))),
                         'MotionVector(a.x + b.x, a.y + b.y)'),
                        ('h263_rs::<types::HalfPel as std::ops::Add>::add', ('agg', 'HalfPel', ('callp', '::saturating_add', ('param', 1, (0,)), ('param', 2, (0,)))), 'HalfPel(a sat+ b)')):
        try: bb_ = F.body(n)
        except Exception: ck.violation('M', 'M : addition missing : %s' % txt, None, '%s not found' % n); continue
        e2 = expr_of(F, bb_, {'o': 'copy', 'p': {'l': 0, 'proj': []}})
        if ematch(pat, e2) is not None: ck.ok('M', 'addition %s' % txt, where_of(bb_))
        else: ck.violation('M', 'M : addition : %s' % txt, where_of(bb_), 'the addition returns %s, expected %s' % (expr_str(e2, bb_.get('debug', {})), txt))
    # the writes of the per-macroblock vector array
    b = F.body('h263_rs::decoder::state::H263State::decode_next_picture::{closure#0}'); g = cfg_of(b)
    names = {v: int(k) for k, v in b.get('debug', {}).items()}
    mv = names.get('motion_vectors')
    if mv is None:
        ck.unanalysable('closure anchors (M)', 'local motion_vectors not found'); return
    coded = [v for v in F.adt(T + 'Macroblock')['variants'] if v['name'] == 'Coded']
    fl = [f.get('name') for f in coded[0].get('fields', [])] if coded else []
    if 'motion_vector' not in fl or 'addl_motion_vectors' not in fl:
        ck.unanalysable('Macroblock::Coded fields', 'motion_vector / addl_motion_vectors not found'); return
    f_mv, f_addl, v_coded = fl.index('motion_vector'), fl.index('addl_motion_vectors'), coded[0]['idx']
    decoded = {}; copies = {}; bad = []; first = None
    for bb in sorted(g.reach):
        for s_ in g.blocks[bb]['stmts']:
            if s_['s'] != 'assign' or s_['lhs']['l'] != mv or not s_['lhs']['proj']: continue
            pr = s_['lhs']['proj'][0]
            k = expr_of(F, b, {'o': 'copy', 'p': {'l': pr['l'], 'proj': []}}) if pr.get('p') == 'index' else (('c', pr.get('off')) if pr.get('p') == 'cindex' else None)
            if not k or k[0] != 'c': bad.append('a write at a non-constant index (line %s)' % s_.get('span', {}).get('line')); continue
            k = k[1]
            e = _expr_rv(F, b, s_['rv'], 0, {})
            if e[0] == 'call' and e[1].endswith('mvd_pred::mv_decode') and len(e) == 6:
                pc = e[4]
                if not (pc[0] == 'call' and pc[1].endswith('mvd_pred::predict_candidate') and pc[-1] == ('c', k)):
                    bad.append('vector %d is decoded with the predictor %s' % (k + 1, expr_str(pc[-1] if pc[0] == 'call' else pc, b.get('debug', {}))[:80]))
                d = e[5]
                if k == 0:
                    okd = d[0] == 'call' and d[1].endswith('::unwrap_or_else') and _mb_field(d[2], v_coded, (f_mv,)) and 'MotionVector::zero' in repr(d[3])
                else:
                    okd = _mb_field(d, v_coded, (f_addl, ('as', 1), 0, k - 1))
                if not okd: bad.append('vector %d is decoded from the differential %s' % (k + 1, expr_str(d, b.get('debug', {}))[-120:]))
                if first is None: first = (e[2], e[3])
                elif (e[2], e[3]) != first: bad.append('vector %d is decoded against a different picture / option set' % (k + 1))
                decoded[k] = decoded.get(k, 0) + 1
            elif e[0] == 'multi' and e[1] == mv and len(e) > 2 and tuple(e[2]) in ((('idx', ('c', 0)),), (('cidx', 0, False),)):
                copies[k] = copies.get(k, 0) + 1
            else:
                bad.append('vector %d := %s' % (k + 1, expr_str(e, b.get('debug', {}))[:120]))
    if decoded != {0: 1, 1: 1, 2: 1, 3: 1}: bad.append('mv_decode writes per vector: %s (expected one each for 1..4)' % {k + 1: v for k, v in sorted(decoded.items())})
    if copies != {1: 1, 2: 1, 3: 1}: bad.append('copies of vector 1: %s (expected one each for vectors 2..4)' % {k + 1: v for k, v in sorted(copies.items())})
    if bad: ck.violation('M', 'M : closure : vector k', where_of(b), '; '.join(bad[:5]))
    else: ck.ok('M', 'vector k = mv_decode(picture, options, predict_candidate(.., k), MVD_k) for k = 1..4; vectors 2..4 = vector 1 without four vectors', where_of(b))


def w_wiring(ck, F):
    ck.rule('W', 'decode_next_picture hands the vector machinery the right things: every predict_candidate call gets the vectors of the macroblocks decoded since the last '
                 'group-of-blocks header (predictor_vectors[macroblocks_after_gob..], 6.1.1: predictors outside the current GOB are not used), this macroblock\'s vector '
                 'array and the macroblocks-per-line count that gather and the level arrays use; every mv_decode call gets the picture being decoded and the options in force; '
                 'the start index is 0 at the start of a picture and changes only behind decode_gob, to the number of macroblocks decoded so far')
    from ..bitslice import Table
    from ..loopexpr import Norm, show as nshow
    CLO = 'h263_rs::decoder::state::H263State::decode_next_picture::{closure#0}'
    b = F.body(CLO); Tb = Table(F, CLO, paths=False, cast_kinds=True); N = Norm(Tb); g = Tb.g
    def calls(suffix): return [(bb, t, [N.n(Tb.ex(a)) for a in t['args']]) for bb, t in g.calls() if F.callee_name(t).split('#')[0].endswith(suffix)]
    pc = calls('mvd_pred::predict_candidate'); md = calls('mvd_pred::mv_decode'); ga = calls('gather::gather'); gob = calls('gob::decode_gob')
    if len(pc) != 4 or len(md) != 4 or len(ga) != 1 or len(gob) != 1:
        ck.violation('W', 'W : decode_next_picture : call counts', where_of(b), 'expected 4 predict_candidate, 4 mv_decode, 1 gather, 1 decode_gob; found %d, %d, %d, %d' % (len(pc), len(md), len(ga), len(gob))); return
    mbpl = ga[0][2][3]
    # the vectors of earlier macroblocks: the whole list, or the list from the first macroblock after the last group-of-blocks header (6.1.1). decode_gob is a
    # stub that never returns a header (C15.RS reads its returns), so today both are the same list; what the start index may be is constrained below
    starts = set()
    def earlier_ok(x):
        if x == ('v', 'predictor_vectors'): return True
        if x[0] == 'slice' and x[1] == ('v', 'predictor_vectors') and x[2][0] == 'agg':
            if x[2][1] == 'RangeFull' and len(x[2]) == 2: return True
            if x[2][1] == 'RangeFrom' and len(x[2]) == 3:
                if x[2][2] == ('c', 0): return True
                if x[2][2][0] == 'v': starts.add(x[2][2][1]); return True
        return False
    bad = []
    for bb, t, a in pc:
        if len(a) != 4: bad.append('predict_candidate takes %d arguments' % len(a)); continue
        if not earlier_ok(a[0]): bad.append('predict_candidate(.., %s) is given %s as the earlier vectors, expected predictor_vectors (from the last group-of-blocks header on)' % (nshow(a[3]), nshow(a[0])))
        if a[1] != ('v', 'motion_vectors'): bad.append('predict_candidate(.., %s) is given %s as the current vectors, expected motion_vectors' % (nshow(a[3]), nshow(a[1])))
        if a[2] != mbpl: bad.append('predict_candidate(.., %s) is given %s as macroblocks per line, gather is given %s' % (nshow(a[3]), nshow(a[2]), nshow(mbpl)))
    for bb, t, a in md:
        if len(a) != 4: bad.append('mv_decode takes %d arguments' % len(a)); continue
        if a[0] != ('v', 'next_decoded_picture'): bad.append('mv_decode is given the picture %s, expected the picture being decoded' % nshow(a[0]))
        if a[1] != ('v', 'next_running_options'): bad.append('mv_decode is given the options %s, expected the options in force (next_running_options)' % nshow(a[1]))
    if ga[0][2][0] != ('v', 'macroblock_types') or ga[0][2][2] != ('v', 'predictor_vectors') or ga[0][2][4] != ('v', 'next_decoded_picture'):
        bad.append('gather is given (%s, .., %s, .., %s)' % (nshow(ga[0][2][0]), nshow(ga[0][2][2]), nshow(ga[0][2][4])))
    if bad: ck.violation('W', 'W : decode_next_picture : arguments', where_of(b), '; '.join(bad[:4]))
    else: ck.ok('W', 'predict_candidate(%s, motion_vectors, %s, k) x 4; mv_decode(next_decoded_picture, next_running_options, .., ..) x 4; '
                     'gather(macroblock_types, .., predictor_vectors, %s, next_decoded_picture)' % (nshow(pc[0][2][0]), nshow(mbpl), nshow(mbpl)), where_of(b, pc[0][0]))
    # order inside a four-vector macroblock: the candidate for vector k reads the vectors 1..k-1 of this macroblock through `&motion_vectors`, so
    # predict_candidate(.., k) must come after the stores of motion_vectors[0..k-1] (6.1.1: MV1 of block k is a vector of the same macroblock)
    from ..loopexpr import stores as nstores
    st_mv = {}
    for bb, s_, t_, v_ in nstores(Tb, N):
        if t_[0] == 'el' and t_[1] == ('v', 'motion_vectors') and t_[2][0] == 'c' and v_[0] == 'f' and v_[1] == 'mv_decode':
            st_mv.setdefault(t_[2][1], []).append(bb)
    obad = []
    for bb, t, a in pc:
        if len(a) != 4 or a[3][0] != 'c': continue
        k = a[3][1]
        for j in range(k):
            sj = st_mv.get(j, [])
            if len(sj) != 1 or not g.dominates(sj[0], bb):
                obad.append('predict_candidate(.., %d) is not preceded by the store of motion_vectors[%d]' % (k, j))
    if sorted(st_mv) != [0, 1, 2, 3]: obad.append('stores of decoded vectors found for indices %s, expected 0..3' % sorted(st_mv))
    if obad: ck.violation('W', 'W : decode_next_picture : order of prediction and stores', where_of(b), '; '.join(obad[:4]))
    else: ck.ok('W', 'predict_candidate(.., k) runs after motion_vectors[0..k-1] of the same macroblock have been stored, k = 1..3', where_of(b, pc[0][0]))
    # the start index, when there is one: 0 at the start of a picture; inside the loop only := macroblock_types.len(), and only behind decode_gob
    loops = g.loops(); head = None
    for h, body in loops.items():
        if pc[0][0] in body and (head is None or len(body) < len(loops[head])): head = h
    body = loops.get(head, set())
    for nm in sorted(starts):
        ls = [int(l) for l, n_ in Tb.names.items() if n_ == nm]
        defs = [(d[1], N.n(Tb.ex_rv(d[3]['rv']))) for l in ls for d in Tb.D.defs.get(l, []) if d[0] == 'assign']
        others = [d for l in ls for d in Tb.D.defs.get(l, []) if d[0] != 'assign']
        init = [(bb, v) for bb, v in defs if bb not in body]; inl = [(bb, v) for bb, v in defs if bb in body]
        ok = (not others and len(init) == 1 and init[0][1] == ('c', 0)
              and all(v == ('f', 'len', ('v', 'macroblock_types')) and g.dominates(gob[0][0], bb) for bb, v in inl))
        if ok: ck.ok('W', '%s = 0 before the loop; inside it only := macroblock_types.len(), behind decode_gob' % nm, where_of(b, init[0][0]))
        else: ck.violation('W', 'W : decode_next_picture : %s' % nm, where_of(b), 'definitions of %s: before the loop %s, in the loop %s%s; expected 0 and, only after a group-of-blocks header, '
                           'macroblock_types.len()' % (nm, [nshow(v) for _, v in init], [nshow(v) for _, v in inl], ' (and writes through calls)' if others else ''))


def _mb_field(e, v_coded, tail):
    """e is field `tail` of the Coded payload of the value returned by decode_macroblock (through `?`)"""
    if e[0] != 'fld' or not (e[1][0] == 'call' and e[1][1].endswith('macroblock::decode_macroblock')): return False
    pr = [x for x in e[2]]
    # drop the `?` (Ok payload) and the downcast to Coded
    core = []
    for x in pr:
        if isinstance(x, tuple) and x[0] == 'cidx': core.append(x[1])
        else: core.append(x)
    want = [('as', 0), 0, ('as', v_coded)] + list(tail)
    return core == want


def run(ck, F, tier):
    ck.explanation = ('C12 decided structurally: A the baseline reconstruction path of halfpel_decode has the decision structure in(m+p) ? m+p : invert(m)+p with the four '
                      'constants (if-conversion + comparison over the consistent truth assignments of its range tests); that this is reduction modulo 64 into [-32,31] for '
                      'm,p in that range is a three-line arithmetic argument (DESIGN.md 6/C12), not a machine step. B the chroma rounding folded over every sum; '
                      'C the MVD table against Table 14 code by code; D the candidate selected in each of the 4 x 8 (index, border class) cases; E the median over all '
                      '13 weak orderings; F zero candidates from intra / not-coded neighbours; M mv_decode pairing and vector writes; W what the call sites in decode_next_picture hand predict_candidate / mv_decode / gather.')
    ck.assumptions += ['Table 14/H.263 transcribed as the 33 (code,length) pairs of the reference decoders plus sign bit',
                       'operands in the half-sample range: saturating addition equals addition']
    a_wrap(ck, F)
    b_chroma(ck, F)
    c_mvd_table(ck, F)
    d_candidates(ck, F)
    e_median(ck, F)
    f_zero_neighbours(ck, F)
    g_mv_decode(ck, F)
    w_wiring(ck, F)
    # which bits are the differentials: MVD x then y from Table 14 (or the UMV code with PLUSPTYPE), for the types Table 9 gives vectors to
    from . import mblayer
    from ..report import Scoped
    s = Scoped(ck, 'MB.')
    mblayer.rule_p(s, F)
    mblayer.rule_syntax(s, F, ['macroblock', 'mv'])
