"""C14 - the bit reader delivers each bit once, in order: decided for the *effect discipline* (which operations may move
the position, and when), the forms of the arithmetic helpers, the start-code scan and VLC-walk termination.
MSB-first assembly inside peek_bits' byte loop is decided by rule H (the loop's transfer function, tabulated)."""
import re
from ..cfg import cfg_of
from ..dataflow import (defs_of, callee_is, strip_ref, fields_of, expr_of, expr_of_place, strip_casts, expr_str, ematch, V, ANY)
from .. import effects, tables
from ..report import where_of, short_fn
from ..facts import Unanalysable, is_test_fn
from . import reader_rules as rr
from . import c05

RD = rr.RD
BITS = ('param', 1, (rr.F_BITS,))
BUF = ('param', 1, (rr.F_BUFFER,))


def ret_exprs(F, b):
    """expressions assigned to the return slot, with their blocks"""
    D = defs_of(b); out = []
    for d in D.defs.get(0, []):
        if d[0] == 'assign' and not d[3]['lhs']['proj']:
            out.append((d[1], _rv_expr(F, b, d[3]['rv'])))
        elif d[0] == 'call':
            out.append((d[1], ('call', F.callee_name(d[3])) + tuple(expr_of(F, b, a) for a in d[3]['args'])))
    return out


def _rv_expr(F, b, rv):
    from ..dataflow import _expr_rv
    return _expr_rv(F, b, rv, 0, {})


def a_who_moves(ck, F):
    ck.rule('A', 'bits_read is assigned only in skip_bits, rollback, commit (and the constructor); in skip_bits the assignment is dominated by the '
                 'Ok continuation of ensure_bits(n) and adds exactly n; peek_bits / peek_signed_bits never write bits_read and touch buffer only via buffer_bytes')
    rr.reader_field_indices(F)
    rr.who_may_write_rule(ck, F, 'A', rr.F_BITS, 'bits_read', {'skip_bits', 'rollback', 'commit', 'from_source'})
    rr.who_may_write_rule(ck, F, 'A', rr.F_BUFFER, 'buffer', {'buffer_bytes', 'commit', 'from_source'})
    # skip_bits
    b = F.body(RD + 'skip_bits'); g = cfg_of(b); D = defs_of(b)
    stores = [(bb, s) for bb in sorted(g.reach) for s in g.blocks[bb]['stmts'] if s['s'] == 'assign' and s['lhs']['proj']
              and fields_of(s['lhs']['proj']) == (rr.F_BITS,)]
    ens = rr.find_calls(F, b, 'H263Reader::<R>::ensure_bits')
    if len(stores) != 1 or len(ens) != 1:
        ck.violation('A', 'A : skip_bits : shape', where_of(b), 'skip_bits: expected one bits_read store and one ensure_bits call, found %d / %d' % (len(stores), len(ens)))
    else:
        sbb, s = stores[0]; ebb, et = ens[0]
        ok_edges, _ = rr.result_test_edges(F, b, None)
        # the `?`: switch on discriminant(branch(ensure_bits(..)))
        cont = None
        for bb in g.reach:
            t = g.blocks[bb]['term']
            if t['t'] == 'switch' and t['on']['o'] != 'const':
                o = D.origin(t['on'])
                if o[0] == 'rv' and o[2]['rv']['r'] == 'discr':
                    po = D.origin_place(o[2]['rv']['p'])
                    if po[0] == 'call' and callee_is(F, po[2], 'Try>::branch'):
                        ro = D.origin(po[2]['args'][0])
                        if ro[0] == 'call' and ro[1] == ebb:
                            cont = {int(v): to for v, to in t['arms']}.get(0)
        e = _rv_expr(F, b, s['rv'])
        m = ematch(('op', 'Add', BITS, ('param', 2, ())), e)
        n_ok = ematch(('param', 2, ()), expr_of(F, b, et['args'][1])) is not None
        if cont is not None and g.dominates(cont, sbb) and m is not None and n_ok:
            ck.ok('A', 'skip_bits: bits_read := bits_read + n only after ensure_bits(n) returned Ok', where_of(b, sbb))
        else:
            ck.violation('A', 'A : skip_bits : unguarded or wrong advance', where_of(b, sbb),
                         'skip_bits: the position store is %s and is %sdominated by the success of ensure_bits(n)' % (expr_str(e), '' if cont is not None and g.dominates(cont, sbb) else 'NOT '))
    EA = effects.analysis(F)
    for fn in ('peek_bits', 'peek_signed_bits'):
        summ = EA.summaries[RD + fn]
        bad = [(r, p, k) for (r, p, k) in summ if k == 'w' and r == ('param', 1) and (p[:1] == (rr.F_BITS,) or p[:1] == ('*',) or p == ())]
        be = EA.of(RD + fn)
        bufw = sorted({short_fn(e.via) if e.via in F.bodies else e.via for e in be.effects if e.kind == 'w' and e.loc[0] == ('param', 1) and e.loc[1][:1] == (rr.F_BUFFER,)})
        if bad:
            ck.violation('A', 'A : %s : moves the position' % fn, where_of(F.body(RD + fn)), '%s may write bits_read (%s)' % (fn, bad))
        else:
            ck.ok('A', '%s: bits_read not in its mod set; buffer touched via %s' % (fn, bufw), where_of(F.body(RD + fn)))


def b_lookahead(ck, F):
    ck.rule('B', 'recognize_start_code is a single with_lookahead call (net effect on the position: none, by T4)')
    b = F.body(RD + 'recognize_start_code'); g = cfg_of(b)
    calls = list(g.calls())
    wl = [(bb, t) for bb, t in calls if callee_is(F, t, 'H263Reader::<R>::with_lookahead')]
    if len(wl) == 1 and len(calls) == 1 and wl[0][1]['dest']['l'] == 0:
        ck.ok('B', 'recognize_start_code = self.with_lookahead(closure)', where_of(b, wl[0][0]))
    else:
        ck.violation('B', 'B : recognize_start_code : not a pure look-ahead', where_of(b), 'recognize_start_code is not exactly one with_lookahead call')


def c_read_is_peek_then_skip(ck, F):
    ck.rule('C', 'read_bits(n) = { r = peek_bits(n)?; skip_bits(n)?; Ok(r) } with the same n on the same reader; read_signed_bits likewise with '
                 'peek_signed_bits; read_u8 = read_bits(8)')
    for rd, pk in (('read_bits', 'peek_bits'), ('read_signed_bits', 'peek_signed_bits')):
        b = F.body(RD + rd); g = cfg_of(b); D = defs_of(b)
        ps = rr.find_calls(F, b, 'H263Reader::<R>::' + pk); ss = rr.find_calls(F, b, 'H263Reader::<R>::skip_bits')
        calls = [(bb, t) for bb, t in g.calls() if not callee_is(F, t, 'Try>::branch', 'FromResidual', 'from_residual')]
        key = 'C : %s' % rd
        if len(ps) != 1 or len(ss) != 1 or len(calls) != 2:
            ck.violation('C', key + ' : shape', where_of(b), '%s: expected exactly %s + skip_bits, found calls %s' % (rd, pk, [F.callee_name(t).split('::')[-1] for _, t in calls])); continue
        (pbb, pt), (sbb, st) = ps[0], ss[0]
        ok = True
        for t in (pt, st):
            if strip_ref(D.origin(t['args'][0]))[:2] != ('param', 1): ok = False
            if expr_of(F, b, t['args'][1]) != ('param', 2, ()): ok = False
        if not g.dominates(pbb, sbb): ok = False
        # returned value = Continue payload of peek
        rets = ret_exprs(F, b)
        okret = [e for bb, e in rets if e[0] == 'agg' and e[1] == 'Ok']
        good_ret = False
        for e in okret:
            m = ematch(('agg', 'Ok', ('fld', ('callp', 'Try>::branch', ('callp', '::' + pk, ANY, ANY)), (('as', 0), 0))), e)
            if m is not None: good_ret = True
        # skip must succeed before Ok is returned: Ok-return block dominated by the Continue arm of skip's `?`
        if ok and good_ret:
            ck.ok('C', '%s = %s(n)?; skip_bits(n)?; Ok(r)' % (rd, pk), where_of(b, pbb))
        else:
            ck.violation('C', key + ' : not peek-then-skip', where_of(b), '%s is not peek(n) followed by skip(n) returning the peeked value' % rd)
    b = F.body(RD + 'read_u8')
    rs = ret_exprs(F, b)
    if len(rs) == 1 and ematch(('callp', '::read_bits', ('param', 1, ()), ('c', 8)), rs[0][1]) is not None:
        ck.ok('C', 'read_u8 = read_bits(8)', where_of(b))
    else:
        ck.violation('C', 'C : read_u8 : form', where_of(b), 'read_u8 is not read_bits(8): %s' % [expr_str(e) for _, e in rs])


def _pos_terms():
    return ('fld', ('v', 'self'), (rr.F_BITS,)), ('f', 'len', ('fld', ('v', 'self'), (rr.F_BUFFER,)))


def check_commit(F):
    """commit: drain(0..pos/8) then pos := pos % 8, both as functions of the position (tabulated), drain first."""
    from ..bitslice import Table
    from ..loopexpr import Norm, show as nshow, ev, NotExact, stores as nstores
    POS, BUFLEN = _pos_terms()
    b = F.body(RD + 'commit'); T = Table(F, RD + 'commit', paths=False, cast_kinds=True); N = Norm(T); g = T.g
    dr = [(bb, t) for bb, t in g.calls() if F.callee_name(t).endswith('VecDeque::<T, A>::drain')]
    st = [(bb, t_, v) for bb, s_, t_, v in nstores(T, N) if t_ == POS]
    ok = len(dr) == 1 and len(st) == 1
    why = 'expected one drain and one assignment to bits_read'
    if ok:
        rng = N.n(T.ex(dr[0][1]['args'][1])); base = N.n(T.ex(dr[0][1]['args'][0]))
        hi = rng[3] if rng[0] == 'agg' and rng[1] == 'Range' and len(rng) == 4 and rng[2] == ('c', 0) else (rng[2] if rng[0] == 'agg' and rng[1] == 'RangeTo' and len(rng) == 3 else None)
        try:
            if hi is None or nshow(base) != nshow(('fld', ('v', 'self'), (rr.F_BUFFER,))): ok = False; why = 'drains %s of %s' % (nshow(rng), nshow(base))
            else:
                for p_ in range(0, 2048):
                    if ev(hi, {POS: p_}) != p_ // 8 or ev(st[0][2], {POS: p_}) != p_ % 8: ok = False; why = 'at bits_read = %d drains %s bytes and leaves %s' % (p_, ev(hi, {POS: p_}), ev(st[0][2], {POS: p_})); break
        except (Unanalysable, NotExact) as e_: ok = False; why = str(e_)
        if ok and not (st[0][0] in g.reachable_from([dr[0][0]]) and dr[0][0] not in g.reachable_from([st[0][0]]) or g.dominates(dr[0][0], st[0][0])):
            # the position must still have its old value when the drain range is computed
            ok = False; why = 'the position is reduced before the bytes are drained'
    return ok, why, b


def check_rollback(F):
    """rollback: bits_read := checkpoint exactly when checkpoint <= 8*len(buffer) (guard tabulated on a grid)."""
    from ..bitslice import Table
    from ..loopexpr import Norm, show as nshow, ev, find as nfind, NotExact, stores as nstores, guards as nguards, guard_term, truth_of
    POS, BUFLEN = _pos_terms()
    b = F.body(RD + 'rollback'); T = Table(F, RD + 'rollback', paths=False, cast_kinds=True); N = Norm(T); g = T.g
    st = [(bb, v) for bb, s_, t_, v in nstores(T, N) if t_ == POS]
    CP = ('v', T.names.get('2', 'arg2'))
    ok = len(st) == 1 and st[0][1] == CP
    why = 'assignments to bits_read: %s' % [nshow(v) for _, v in st]
    if ok:
        conds = [truth_of(*guard_term(T, N, a_, s_)) for a_, s_ in nguards(T, st[0][0])]
        conds = [c for c in conds if c is not None and nfind(c[0], lambda z: z == CP)]
        try:
            for cp in range(0, 60):
                for ln in range(0, 6):
                    env = {CP: cp, BUFLEN: ln}
                    taken = all(bool(ev(c[0], env)) == c[1] for c in conds) and bool(conds)
                    if taken != (cp <= 8 * ln): ok = False; why = 'with checkpoint %d and %d buffered bytes the assignment is %s' % (cp, ln, 'taken' if taken else 'skipped'); break
                if not ok: break
        except (Unanalysable, NotExact) as e_: ok = False; why = str(e_)
    return ok, why, b


def e_helper_forms(ck, F):
    ck.rule('E', 'forms of the arithmetic helpers: realignment_bits = (8 - bits_read%8) % 8; needed_bytes_for_bits = ceil(sat_sub(n, sat_sub(8*len(buffer), '
                 'bits_read)) / 8); commit drains bits_read/8 bytes and keeps bits_read%8; rollback refuses a checkpoint beyond 8*len(buffer); '
                 'peek_signed_bits ORs (!0 << n) into the value exactly when bit n-1 is set')
    from ..bitslice import Table
    from ..loopexpr import Norm, show as nshow, ev, find as nfind, mk_mul, mk_add, mk_sub, guards as nguards, guard_term, truth_of, NotExact
    def norm_rets(fn):
        bb_ = F.body(RD + fn); T = Table(F, RD + fn, paths=False, cast_kinds=True); N = Norm(T)
        return bb_, T, N, [N.n(d[2]) for d in T.local_defs(0)]
    POS = ('fld', ('v', 'self'), (rr.F_BITS,)); BUFLEN = ('f', 'len', ('fld', ('v', 'self'), (rr.F_BUFFER,)))
    # realignment_bits: a function of the position alone, tabulated over several byte periods
    b, T, N, rs = norm_rets('realignment_bits')
    msg = None
    if len(rs) != 1 or not nfind(rs[0], lambda z: z == POS) or nfind(rs[0], lambda z: z[0] == 'v' and z != ('v', 'self')):
        msg = 'is not a function of bits_read alone'
    else:
        try:
            for p_ in (range(0, 1 << 17) if getattr(ck, 'tier', 'quick') == 'thorough' else range(0, 4096)):
                if ev(rs[0], {POS: p_}) != (8 - p_ % 8) % 8: msg = 'differs at bits_read = %d' % p_; break
        except (Unanalysable, NotExact) as e_: msg = str(e_)
    if msg is None: ck.ok('E', 'realignment_bits = (8 - bits_read mod 8) mod 8 (its term %s tabulated over 0..4095)' % nshow(rs[0]), where_of(b))
    else: ck.violation('E', 'E : realignment_bits : form', where_of(b), 'realignment_bits computes %s: %s' % ([nshow(x) for x in rs], msg))
    # needed_bytes_for_bits
    b, T, N, rs = norm_rets('needed_bytes_for_bits')
    want = ('f', 'divceil', ('f', 'satsub', ('v', T.names.get('2', 'arg2')), ('f', 'satsub', mk_mul([BUFLEN, ('c', 8)]), POS)), ('c', 8))
    if rs == [want]:
        ck.ok('E', 'needed_bytes_for_bits = div_ceil(sat_sub(n, sat_sub(8*len(buffer), bits_read)), 8)', where_of(b))
    else:
        ck.violation('E', 'E : needed_bytes_for_bits : form', where_of(b), 'needed_bytes_for_bits computes %s, expected %s' % ([nshow(x) for x in rs], nshow(want)))
    # ensure_bits = buffer_bytes(needed_bytes_for_bits(n))
    b = F.body(RD + 'ensure_bits')
    rs = ret_exprs(F, b)
    pat = ('callp', '::buffer_bytes', ('param', 1, ()), ('callp', '::needed_bytes_for_bits', ('param', 1, ()), ('param', 2, ())))
    if len(rs) == 1 and ematch(pat, rs[0][1]) is not None:
        ck.ok('E', 'ensure_bits(n) = buffer_bytes(needed_bytes_for_bits(n))', where_of(b))
    else:
        ck.violation('E', 'E : ensure_bits : form', where_of(b), 'ensure_bits computes %s' % [expr_str(e) for _, e in rs])
    # buffer_bytes: loop count = its argument
    b = F.body(RD + 'buffer_bytes'); g = cfg_of(b); D = defs_of(b)
    its = rr.find_calls(F, b, 'IntoIterator>::into_iter')
    good = False
    for bb, t in its:
        e = expr_of(F, b, t['args'][0])
        if ematch(('agg', 'Range', ('c', 0), ('param', 2, ())), e) is not None: good = True
    if not good:
        # the other spelling: a local starts as k, the loop runs while it is > 0 (or != 0) and every cycle takes exactly 1 off
        from ..termination import _cycle_avoiding
        from ..dataflow import _expr_rv
        for h, body in g.loops().items():
            for bb in body:
                t = g.blocks[bb]['term']
                if t['t'] != 'switch' or not [x for x in g.succ[bb] if x not in body] or _cycle_avoiding(g, h, body, set(), {bb}): continue
                o = D.origin(t['on'])
                if not (o[0] == 'rv' and o[2]['rv']['r'] == 'bin'): continue
                rv = o[2]['rv']
                for ctr, bnd, ops in ((rv['a'], rv['b'], ('Gt', 'Ne')), (rv['b'], rv['a'], ('Lt', 'Ne'))):
                    if rv['op'] not in ops: continue
                    arms_ = {int(v): to for v, to in t['arms']}
                    if arms_.get(0) in body and t['otherwise'] not in body: continue          # must continue while the comparison holds
                    if expr_of(F, b, bnd) != ('c', 0): continue
                    co = D.origin(ctr)
                    if co[0] != 'multi': continue
                    L = co[1]
                    ds = D.defs.get(L, [])
                    init = [d for d in ds if d[1] not in body]; step = [d for d in ds if d[1] in body]
                    if len(init) != 1 or len(step) != 1 or init[0][0] != 'assign' or step[0][0] != 'assign': continue
                    if expr_of(F, b, init[0][3]['rv']['a']) != ('param', 2, ()) if init[0][3]['rv']['r'] == 'use' else True: continue
                    e = _expr_rv(F, b, step[0][3]['rv'], 0, {})
                    if not (e[0] == 'op' and e[1] == 'Sub' and e[2] == ('multi', L) and e[3] == ('c', 1)): continue
                    if _cycle_avoiding(g, h, body, set(), {step[0][1]}): continue
                    good = True
    if good: ck.ok('E', 'buffer_bytes(k) iterates 0..k', where_of(b))
    else: ck.violation('E', 'E : buffer_bytes : count', where_of(b), 'buffer_bytes does not iterate 0..bytes_needed')
    # commit / rollback: shared with C01.M10 (check_commit, check_rollback below)
    ok, why, b = check_commit(F)
    if ok: ck.ok('E', 'commit: buffer.drain(0..bits_read/8); bits_read := bits_read mod 8 (both tabulated over 0..2047, drain first)', where_of(b))
    else: ck.violation('E', 'E : commit : form', where_of(b), 'commit is not drain(0..bits_read/8) followed by bits_read %%= 8 (%s)' % why)
    ok, why, b = check_rollback(F)
    if ok: ck.ok('E', 'rollback: bits_read := checkpoint exactly when checkpoint <= 8*len(buffer) (guard tabulated)', where_of(b))
    else: ck.violation('E', 'E : rollback : guard', where_of(b), 'rollback does not guard the checkpoint against 8*len(buffer) before assigning it (%s)' % why)
    # peek_signed_bits
    b = F.body(RD + 'peek_signed_bits'); g = cfg_of(b); D = defs_of(b)
    val = ('fld', ('callp', 'Try>::branch', ('callp', '::peek_bits', ('param', 1, ()), ('param', 2, ()))), (('as', 0), 0))
    sw = None
    for bb in g.reach:
        t = g.blocks[bb]['term']
        if t['t'] == 'switch' and t['on']['o'] != 'const':
            e = expr_of(F, b, t['on'])
            if ematch(('callp', 'Zero::is_zero', ('callp', 'Shr::shr', val, ('op', 'Sub', ('param', 2, ()), ('c', 1)))), e) is not None:
                sw = (bb, t)
    okp = False
    if sw:
        arms = {int(v): to for v, to in sw[1]['arms']}
        nz, z = arms.get(0), sw[1]['otherwise']
        rets = dict((bb, e) for bb, e in ret_exprs(F, b))
        def ret_from(start):
            seen = set(); stk = [start]
            while stk:
                x = stk.pop()
                if x in seen: continue
                seen.add(x)
                if x in rets and rets[x][0] == 'agg': return rets[x]
                stk.extend(g.succ[x])
            return None
        ext = ('callp', 'BitOr::bitor', val, ('callp', '::unwrap_or_else', ('callp', 'CheckedShl::checked_shl', ('callp', 'Not::not', ('callp', 'Zero::zero')), ('param', 2, ())), ANY))
        r_nz = ret_from(nz); r_z = ret_from(z)
        okp = (r_nz is not None and ematch(('agg', 'Ok', ext), r_nz) is not None and r_z is not None and ematch(('agg', 'Ok', val), r_z) is not None)
        # no other way to return a value: every `Ok(..)` return is one of those two, and both sit behind the sign test
        oks = [(bb, e) for bb, e in rets.items() if e[0] == 'agg' and e[1] == 'Ok']
        if len(oks) != 2 or any(not g.dominates(sw[0], bb) for bb, _ in oks): okp = False
    if okp: ck.ok('E', 'peek_signed_bits: value | (!0 << n) iff (value >> (n-1)) != 0, else value', where_of(b))
    else: ck.violation('E', 'E : peek_signed_bits : sign extension', where_of(b), 'peek_signed_bits does not implement two\'s-complement sign extension in the recognised form')


def h_msb_first(ck, F):
    ck.rule('H', 'peek_bits assembles the value most-significant bit first: starting from zero at byte bits_read/8 with offset bits_read%8, each iteration takes the next '
                 'k = min(8 - offset, needed) bits of the current byte - accum := (accum << k) | ((byte << offset, as u8) >> (8 - k)) - then offset := 0, needed -= k; it stops when needed = 0 '
                 'and returns accum. The per-iteration transfer function is extracted as terms and tabulated over every (offset, needed, byte) for 8-, 16- and 32-bit accumulators')
    from ..bitslice import Table
    from ..loopexpr import Norm, show as nshow, ev, find as nfind, NotExact, guards as nguards, guard_term
    name = RD + 'peek_bits'
    b = F.body(name); T = Table(F, name, paths=False, cast_kinds=True); N = Norm(T); g = T.g
    byname = {}
    for l, nm in T.names.items(): byname.setdefault(nm, []).append(int(l))
    def defs(nm):
        out = []
        ls = byname.get(nm, [])
        if not ls and re.match(r'^_\d+$', nm): ls = [int(nm[1:])]
        for l in ls:
            for d in T.D.defs.get(l, []):
                if d[0] == 'assign': out.append((d[1], N.n(T.ex_rv(d[3]['rv']))))
                elif d[0] == 'call': out.append((d[1], N.n(T.ex_call(d[1], g.blocks[d[1]]['term']))))
        return out
    bad = []
    POS = ('fld', ('v', 'self'), (rr.F_BITS,))
    loops = g.loops()
    if len(loops) != 1: ck.violation('H', 'H : peek_bits : loop', where_of(b), 'expected one loop, found %d' % len(loops)); return
    head, body = next(iter(loops.items()))
    # the variables, found by their roles (not by their names): the accumulator is what is returned after the loop, the remaining count is the
    # second parameter, the bit offset is the amount the current byte is shifted left by
    rets_all = [(x[0], N.n(x[2])) for x in T.local_defs(0) if x[2] is not None]
    after = [v for bb, v in rets_all if bb not in body and bb in g.reachable_from([head])]
    if len(after) != 1 or after[0][0] != 'agg' or after[0][1] != 'Ok' or len(after[0]) != 3 or after[0][2][0] != 'v':
        ck.violation('H', 'H : peek_bits : result', where_of(b), 'after the loop the function returns %s, expected Ok(<accumulator>)' % [nshow(v) for v in after]); return
    A = after[0][2]
    NEED = N.n(('param', 2, ()))
    def loop_updates(var):
        ups = [(bb, v) for bb, v in defs(var[1]) if bb in body]
        # `x = match .. { .. }`: one assignment from a temporary that is itself assigned in each arm
        out = []
        for bb, v in ups:
            if v[0] == 'v' and v != var and len([1 for bb2, _ in defs(v[1]) if bb2 in body]) >= 2: out += [(bb2, v2) for bb2, v2 in defs(v[1]) if bb2 in body]
            else: out.append((bb, v))
        return out
    acc = defs(A[1]); need = defs(NEED[1])
    init_acc = [v for bb, v in acc if bb not in body]; upd_acc = loop_updates(A)
    upd_need = [(bb, v) for bb, v in need if bb in body]
    shl = set()
    for _, v in upd_acc: shl |= set(nfind(v, lambda z_: z_[0] == 'f' and z_[1] == 'shl' and len(z_) == 4 and z_[3][0] == 'v'))
    if len({x[3] for x in shl}) != 1:
        ck.violation('H', 'H : peek_bits : offset', where_of(b), 'the accumulator updates do not shift the current byte left by one offset variable (%s)' % [nshow(x) for x in shl]); return
    OFF = next(iter(shl))[3]
    off = defs(OFF[1])
    init_off = [v for bb, v in off if bb not in body]; upd_off = [(bb, v) for bb, v in off if bb in body]
    # the bytes visited: buffer.iter().skip(bits_read / 8)
    it = [expr_of(F, b, t['args'][0]) for bb, t in g.calls() if F.callee_name(t).endswith('IntoIterator>::into_iter')]
    def ev_df(e, pos):
        if e[0] == 'c' and isinstance(e[1], int): return e[1]
        if e == ('param', 1, (rr.F_BITS,)): return pos
        if e[0] == 'cast': return ev_df(e[2], pos)
        if e[0] == 'op' and len(e) == 4:
            x, y = ev_df(e[2], pos), ev_df(e[3], pos)
            f = {'Div': lambda: x // y, 'Rem': lambda: x % y, 'Shr': lambda: x >> y, 'BitAnd': lambda: x & y, 'Mul': lambda: x * y, 'Add': lambda: x + y, 'Sub': lambda: x - y}.get(e[1])
            if f: return f()
        raise Unanalysable('skip count %s' % expr_str(e))
    okit = False
    if len(it) == 1 and ematch(('callp', 'Iterator::skip', ('callp', 'VecDeque::<T, A>::iter', ('param', 1, (rr.F_BUFFER,))), ANY), it[0]) is not None:
        try: okit = all(ev_df(it[0][3], p_) == p_ // 8 for p_ in range(0, 1 << 16 if getattr(ck, 'tier', 'quick') == 'thorough' else 512))
        except (Unanalysable, ZeroDivisionError): okit = False
    if not okit: bad.append('the loop does not visit buffer.iter().skip(bits_read / 8): %s' % [expr_str(x) for x in it])
    # initial values
    if [nshow(x) for x in init_acc] != ['zero()']: bad.append('the accumulator starts as %s' % [nshow(x) for x in init_acc])
    try:
        if len(init_off) != 1 or any(ev(init_off[0], {POS: p_}) != p_ % 8 for p_ in range(0, 1 << 16 if getattr(ck, 'tier', 'quick') == 'thorough' else 256)): bad.append('the bit offset starts as %s' % [nshow(x) for x in init_off])
    except (Unanalysable, NotExact) as e_: bad.append('initial offset: %s' % e_)
    if [nshow(v) for _, v in upd_off] != ['0']: bad.append('the bit offset is updated to %s inside the loop' % [nshow(v) for _, v in upd_off])
    if len(upd_need) != 1 or len(upd_acc) != 2: bad.append('expected one update of the remaining count and two of the accumulator in the loop, found %d / %d' % (len(upd_need), len(upd_acc)))
    if bad:
        ck.violation('H', 'H : peek_bits : shape', where_of(b), '; '.join(bad)); return
    # the current byte: the loop item
    items = set()
    for _, v in upd_acc: items |= set(nfind(v, lambda z: z[0] == 'f' and z[1] == 'item'))
    if len(items) != 1: ck.violation('H', 'H : peek_bits : byte', where_of(b), 'accum is not updated from exactly the current byte (%s)' % [nshow(x) for x in items]); return
    BYTE = next(iter(items))
    # evaluator for the accumulator terms (W = width of the accumulator type)
    def evx(t, env, W):
        if t in env: return env[t]
        k = t[0]
        if k == 'fld' and t[1][0] == 'f' and t[1][1] == 'checked_shl' and tuple(t[2]) == (('as', 1), 0):
            x, n = evx(t[1][2], env, W), evx(t[1][3], env, W)
            if n >= W: raise Unanalysable('payload of a failed checked_shl')
            return (x << n) & ((1 << W) - 1)
        if k == 'f':
            n = t[1]
            if n == 'bitor': return evx(t[2], env, W) | evx(t[3], env, W)
            if n == 'unwrap_or' and t[2][0] == 'f' and t[2][1] == 'checked_shr':
                x, sh = evx(t[2][2], env, W), evx(t[2][3], env, W)
                return evx(t[3], env, W) if sh >= 8 or sh < 0 else (x >> sh)
            if n == 'shl' and t[2] == BYTE:
                sh = evx(t[3], env, W)
                if sh >= 8: raise Unanalysable('u8 shift by %d' % sh)
                return (evx(t[2], env, W) << sh) & 0xFF           # `byte << offset` on a u8 discards the bits already consumed
            if n in ('into', 'from'): return evx(t[2], env, W)
            if n == 'min': return min(evx(x, env, W) for x in t[2:])
            if n == 'satsub': return max(0, evx(t[2], env, W) - evx(t[3], env, W))
            if n.startswith('as_'): return evx(t[2], env, W)
        if k == '+': return sum(evx(x, env, W) for x in t[1:])
        if k == '*':
            r = 1
            for x in t[1:]: r *= evx(x, env, W)
            return r
        return ev(t, env)
    # which accumulator update runs when: the arm under `checked_shl(accum, k) is Some` and the other one
    arm_some = [(bb, v) for bb, v in upd_acc if nfind(v, lambda z: z[0] == 'f' and z[1] == 'checked_shl')]
    arm_none = [(bb, v) for bb, v in upd_acc if (bb, v) not in arm_some]
    sel = None
    if len(arm_some) == 1 and len(arm_none) == 1:
        for a_, s_ in nguards(T, arm_some[0][0]):
            gt = guard_term(T, N, a_, s_)
            if gt[0][0] == 'f' and gt[0][1] == 'discr' and gt[0][2][0] == 'f' and gt[0][2][1] == 'checked_shl' and gt[0][2][2] == A and gt[1] == [1]: sel = gt[0][2][3]
    if sel is None:
        ck.violation('H', 'H : peek_bits : arms', where_of(b), 'the two accumulator updates are not selected by checked_shl(accum, k) being Some / None'); return
    # statement order inside one iteration: everything that reads the offset / the remaining count is computed before they are updated
    ord_ = T.order
    first_upd = min(ord_[bb] for bb, _ in upd_off + upd_need)
    if any(ord_[bb] > first_upd for bb, _ in upd_acc):
        bad.append('accum is updated after the offset / remaining count have been changed')
    msg = None
    try:
        for W in (8, 16, 32):
            for off_ in range(8):
                for need_ in range(1, W + 1):
                    kk = min(8 - off_, need_)
                    for byte in range(256):
                        for a0 in (0, 1, (1 << (W - kk)) - 1 if W > kk else 0, 0x5A5A5A5A & ((1 << W) - 1)):
                            env = {A: a0, OFF: off_, NEED: need_, BYTE: byte}
                            if evx(sel, env, W) != kk: msg = 'the number of bits taken is %s, expected min(8 - offset, needed) = %d (offset %d, needed %d)' % (evx(sel, env, W), kk, off_, need_); break
                            chunk = ((byte << off_) & 0xFF) >> (8 - kk)
                            wantv = ((a0 << kk) & ((1 << W) - 1)) | chunk
                            got = evx(arm_some[0][1], env, W) if kk < W else evx(arm_none[0][1], env, W)
                            if got != wantv:
                                msg = 'with a %d-bit accumulator %#x, offset %d, %d bits needed and byte %#04x the new accumulator is %#x, MSB-first assembly gives %#x' % (W, a0, off_, need_, byte, got, wantv); break
                            if ev(upd_need[0][1], {NEED: need_, OFF: off_}) != need_ - kk:
                                msg = 'the remaining count becomes %s, expected %d' % (ev(upd_need[0][1], {NEED: need_, OFF: off_}), need_ - kk); break
                        if msg: break
                    if msg: break
                if msg: break
            if msg: break
    except (Unanalysable, NotExact, KeyError, IndexError, TypeError) as e_:
        msg = 'the transfer function could not be tabulated: %s' % e_
    if msg: bad.append(msg)
    # the loop ends when nothing is needed any more, and the accumulator is what is returned
    stop = False
    for a_, s_ in nguards(T, upd_acc[0][0]):
        gt = guard_term(T, N, a_, s_)
        if a_ in body and gt[0] in (('f', 'Eq', ('c', 0), NEED), ('f', 'Eq', NEED, ('c', 0))) and gt[1] == [0]: stop = True
    if not stop: bad.append('an iteration is not skipped when bits_needed == 0')
    if bad: ck.violation('H', 'H : peek_bits : MSB-first assembly', where_of(b, upd_acc[0][0]), '; '.join(bad[:4]))
    else: ck.ok('H', 'peek_bits: accum := (accum << k) | ((byte << offset) as u8 >> (8 - k)), k = min(8 - offset, needed); offset := 0; needed -= k - tabulated for 8 / 16 / 32-bit accumulators over all offsets, counts and bytes; '
                     'starts at byte bits_read/8, offset bits_read%8, accum 0; returns accum', where_of(b, upd_acc[0][0]))


def w_width_prologue(ck, F):
    ck.rule('W', 'peek_bits decides the width before touching the stream, for every width: more bits than the result type holds -> Err(InternalDecoderError); 0 bits -> Ok(0) '
                 'with nothing buffered or consumed; 1..=W bits -> ensure_bits(bits_needed) and the assembly loop. The guards of every return are evaluated for all '
                 'bits_needed in 0..=W+8 and W in {8, 16, 32}; a guard that underflows or cannot be evaluated is reported')
    from ..bitslice import Table
    from ..loopexpr import Norm, show as nshow, ev, NotExact, guards as nguards, guard_term
    name = RD + 'peek_bits'
    b = F.body(name); T = Table(F, name, paths=False, cast_kinds=True); N = Norm(T); g = T.g
    loops = g.loops()
    if len(loops) != 1: ck.violation('W', 'W : peek_bits : loop', where_of(b), 'expected one loop, found %d' % len(loops)); return
    head, body = next(iter(loops.items()))
    NEED = N.n(('param', 2, ()))
    class Free(Exception): pass
    class Under(Exception): pass
    def evw(t, n, W):
        if t == NEED: return n
        k = t[0]
        if k == 'c' and isinstance(t[1], int) and not isinstance(t[1], bool): return t[1]
        if k == 'f':
            f = t[1]
            if f == 'satsub': return max(0, evw(t[2], n, W) - evw(t[3], n, W))
            if f == 'checked_shl' and len(t) == 4 and nshow(t[2]) == 'zero()':
                sh = evw(t[3], n, W)
                if sh < 0: raise Under('the shift amount %s is %d for bits_needed = %d (u32 underflow: panics with overflow checks, wraps to a huge shift without)' % (nshow(t[3]), sh, n))
                return ('opt', sh < W)
            if f in ('is_none', 'is_some') and len(t) == 3:
                o = evw(t[2], n, W)
                if not (isinstance(o, tuple) and o[0] == 'opt'): raise Free()
                return int(o[1] == (f == 'is_some'))
            if f == 'discr' and len(t) == 3:
                o = evw(t[2], n, W)
                if not (isinstance(o, tuple) and o[0] == 'opt'): raise Free()
                return int(o[1])
            if f == 'Not' and len(t) == 3: return 1 - evw(t[2], n, W)
            if f in ('Eq', 'Ne', 'Lt', 'Le', 'Gt', 'Ge') and len(t) == 4:
                x, y = evw(t[2], n, W), evw(t[3], n, W)
                if isinstance(x, tuple) or isinstance(y, tuple): raise Free()
                return int({'Eq': x == y, 'Ne': x != y, 'Lt': x < y, 'Le': x <= y, 'Gt': x > y, 'Ge': x >= y}[f])
            if f in ('min', 'max') and len(t) >= 4: return (min if f == 'min' else max)(evw(x, n, W) for x in t[2:])
            if f.startswith('as_') and len(t) == 3: return evw(t[2], n, W)
            raise Free()
        if k in ('+', '*'):
            try:
                v = ev(t, {NEED: n})
            except (NotExact, KeyError, TypeError, Unanalysable):
                raise Free()
            if v < 0: raise Under('%s is %d for bits_needed = %d (unsigned underflow)' % (nshow(t), v, n))
            return v
        raise Free()
    rets = [(x[0], N.n(x[2])) for x in T.local_defs(0) if x[2] is not None]
    if any(x[2] is None for x in T.local_defs(0)):
        ck.violation('W', 'W : peek_bits : returns', where_of(b), 'a definition of the return value could not be read'); return
    gd = {bb: [guard_term(T, N, a_, s_) for a_, s_ in sorted(nguards(T, bb))] for bb, _ in rets}
    ERR, ZERO = 'Err(InternalDecoderError())', 'Ok(zero())'
    msg = None; free_seen = set()
    try:
        for W in ((8, 16, 32, 64, 128) if getattr(ck, 'tier', 'quick') == 'thorough' else (8, 16, 32)):
            buffered = set()
            for n in list(range(1, W + 9)) + [0]:
                fired = set()
                for bb, v in rets:
                    ok = True
                    for term, vals, is_other, all_vals in gd[bb]:
                        try: x = evw(term, n, W)
                        except Free:
                            free_seen.add(nshow(term)); continue
                        if isinstance(x, tuple): free_seen.add(nshow(term)); continue
                        took = (x in vals) or (is_other and x not in all_vals)
                        if not took: ok = False; break
                    if ok: fired.add(nshow(v))
                if n > W: want_ok = fired == {ERR}
                elif n == 0:
                    # either the explicit early return, or the buffered read with nothing to read (ensure_bits(0) buffers nothing by rule E's
                    # needed_bytes_for_bits form, the loop takes no bits when nothing is needed by rule H, the accumulator starts as zero)
                    want_ok = bool(fired) and ERR not in fired and fired <= ({ZERO} | buffered)
                else:
                    want_ok = bool(fired) and ERR not in fired and ZERO not in fired
                    if want_ok: buffered |= fired
                if not want_ok:
                    msg = 'for a %d-bit result and bits_needed = %d the function can return %s; expected %s' % (
                        W, n, sorted(fired), ERR if n > W else ('%s (a zero-width read yields 0 and consumes nothing)' % ZERO if n == 0 else 'the buffered read (ensure_bits, then the loop)'))
                    break
            if msg: break
    except Under as e_:
        msg = str(e_)
    if msg: ck.violation('W', 'W : peek_bits : width prologue', where_of(b), msg)
    else: ck.ok('W', 'peek_bits: bits_needed > W -> Err(InternalDecoderError); bits_needed == 0 -> Ok(0); otherwise the buffered read - all bits_needed in 0..=W+8 for W = 8, 16, 32 '
                     '(guards not depending on bits_needed alone: %s)' % sorted(free_seen), where_of(b))
    # the buffered read asks for exactly bits_needed, once, before the loop, and bits_needed is the caller's value there
    en = [(bb, t) for bb, t in g.calls() if F.callee_name(t).split('#')[0].endswith('::ensure_bits')]
    outside = [d for l, nm in T.names.items() if ('v', nm) == NEED for d in T.D.defs.get(int(l), []) if d[0] in ('assign', 'call') and d[1] not in body]
    if len(en) != 1 or N.n(T.ex(en[0][1]['args'][1])) != NEED or en[0][0] in body or not g.dominates(en[0][0], head) or outside:
        ck.violation('W', 'W : peek_bits : ensure_bits', where_of(b), 'expected one ensure_bits(bits_needed) dominating the loop with bits_needed unchanged before it; found %s%s' % (
            [nshow(N.n(T.ex(t['args'][1]))) for _, t in en], ' (bits_needed reassigned before the loop)' if outside else ''))
    else: ck.ok('W', 'peek_bits: ensure_bits(bits_needed) once, before the loop, with the caller\'s bits_needed', where_of(b, en[0][0]))
    # the signed variant and the readers delegate to peek_bits (rule C) - peek_signed_bits computes its sign extension from the same width
    # zero-width: skip_bits(0) leaves the position unchanged by rule A's form bits_read += bits_to_skip


def u_umv_code(ck, F):
    ck.rule('U', 'read_umv decodes Table D.3/H.263: "1" -> 0; otherwise pairs of bits are read while bulk < 4096: 00 ends with +(mantissa + bulk), 10 ends with '
                 '-(mantissa + bulk), 01 continues with mantissa := mantissa << 1, 11 continues with mantissa := (mantissa << 1) | 1 (bulk doubling: C01.M11)')
    from ..dataflow import _expr_rv
    name = RD + 'read_umv'
    try:
        b = F.body(name)
    except (KeyError, Unanalysable) as e:
        ck.violation('U', 'U : read_umv : missing', None, str(e)); return
    g = cfg_of(b); D = defs_of(b)
    names = {v: int(k) for k, v in b.get('debug', {}).items()}
    loops = g.loops()
    if 'bulk' not in names or 'mantissa' not in names or len(loops) != 1:
        ck.violation('U', 'U : read_umv : anchors', where_of(b), 'locals bulk / mantissa or the single loop not found'); return
    Bk, M = names['bulk'], names['mantissa']
    h, body = next(iter(loops.items()))
    pair = ('fld', ('call', '<std::result::Result<T, E> as std::ops::Try>::branch', ('call', 'parser::reader::H263Reader::<R>::read_bits', ('param', 1, ()), ('c', 2))), (('as', 0), 0))
    sw = [bb for bb in body if g.blocks[bb]['term']['t'] == 'switch' and expr_of(F, b, g.blocks[bb]['term']['on']) == pair]
    if len(sw) != 1:
        ck.violation('U', 'U : read_umv : pair switch', where_of(b), 'no single match on read_bits(2) inside the loop (found %d)' % len(sw)); return
    t = g.blocks[sw[0]]['term']
    arms = {int(v): to for v, to in t['arms']}
    if sorted(arms) != [0, 1, 2, 3]:
        ck.violation('U', 'U : read_umv : arms', where_of(b, sw[0]), 'the match has arms %s, expected 0..3' % sorted(arms)); return
    def arm_of(bb):
        ds = [v for v, to in arms.items() if g.dominates(to, bb)]
        return ds[0] if len(ds) == 1 else None
    mb = ('op', 'Add', ('multi', M), ('multi', Bk)); mb2 = ('op', 'Add', ('multi', Bk), ('multi', M))
    def fu(x): return ('agg', 'Ok', ('call', 'types::HalfPel::from_unit', x))
    want = {0: ('ret', (fu(mb), fu(mb2))), 2: ('ret', (fu(('un', 'Neg', mb)), fu(('un', 'Neg', mb2)))),
            1: ('m', (('op', 'Shl', ('multi', M), ('c', 1)),)), 3: ('m', (('op', 'BitOr', ('op', 'Shl', ('multi', M), ('c', 1)), ('c', 1)), ('op', 'BitOr', ('c', 1), ('op', 'Shl', ('multi', M), ('c', 1)))))}
    got = {}
    for d in D.defs.get(0, []):
        if d[0] == 'assign' and arm_of(d[1]) is not None: got.setdefault(arm_of(d[1]), []).append(('ret', _expr_rv(F, b, d[3]['rv'], 0, {})))
    for d in D.defs.get(M, []):
        if d[0] == 'assign' and d[1] in body and arm_of(d[1]) is not None: got.setdefault(arm_of(d[1]), []).append(('m', _expr_rv(F, b, d[3]['rv'], 0, {})))
    bad = []
    for v in (0, 1, 2, 3):
        gv = got.get(v, [])
        if len(gv) != 1 or gv[0][0] != want[v][0] or gv[0][1] not in want[v][1]:
            bad.append('pair %s: %s' % (format(v, '02b'), [(k, expr_str(e, b.get('debug', {}))) for k, e in gv] or 'nothing'))
    # the start bit
    first = [d for d in D.defs.get(0, []) if d[0] == 'assign' and d[1] not in body and not g.dominates(h, d[1]) and _expr_rv(F, b, d[3]['rv'], 0, {}) == fu(('c', 0))]
    if len(first) != 1: bad.append('the "1" code does not return from_unit(0) before the loop')
    if bad: ck.violation('U', 'U : read_umv : Table D.3', where_of(b, sw[0]), '; '.join(bad))
    else: ck.ok('U', 'read_umv: 1 -> 0; pairs 00 -> +(m + b), 10 -> -(m + b), 01 -> m << 1, 11 -> (m << 1) | 1', where_of(b, sw[0]))


def f_start_code(ck, F):
    ck.rule('F', 'start-code scan: the compared window is always peek_bits(17); Some(k) is returned only on window == 1; each iteration skips exactly one '
                 'bit and increments k by one; None is returned only when !in_error and k > realignment_bits()')
    b = F.body(RD + 'recognize_start_code::{closure#0}'); g = cfg_of(b); D = defs_of(b)
    key = 'F : recognize_start_code'
    # the loop
    loops = g.loops()
    if len(loops) != 1:
        ck.violation('F', key + ' : loops', where_of(b), 'expected one loop, found %d' % len(loops)); return
    h, body = list(loops.items())[0]
    t = g.blocks[h]['term']
    ok = True
    win = None
    if t['t'] == 'switch':
        o = D.origin(t['on'])
        if o[0] == 'rv' and o[2]['rv']['r'] == 'bin' and o[2]['rv']['op'] in ('Ne', 'Eq'):
            rv = o[2]['rv']
            ops = [rv['a'], rv['b']]
            cst = [x for x in ops if x['o'] == 'const']
            var = [x for x in ops if x['o'] != 'const']
            from ..cfg import const_value
            if len(cst) == 1 and const_value(cst[0]) == 1 and len(var) == 1:
                vo = D.origin(var[0])
                if vo[0] == 'multi':
                    win = vo[1]
                    arms = {int(v): to for v, to in t['arms']}
                    exit_edge = arms.get(0) if rv['op'] == 'Ne' else t['otherwise']
                    if exit_edge in body: ok = False
                    some_target = exit_edge
    if win is None:
        ck.violation('F', key + ' : window test', where_of(b, h), 'loop header does not compare a window variable with 1'); return
    # all defs of the window come from peek_bits(reader, 17)
    pat = ('fld', ('callp', 'Try>::branch', ('callp', '::peek_bits', ('param', 2, ()), ('c', 17))), (('as', 0), 0))
    for d in D.defs.get(win, []):
        e = _rv_expr(F, b, d[3]['rv']) if d[0] == 'assign' else None
        if e is None or ematch(pat, e) is None:
            ck.violation('F', key + ' : window source', where_of(b, d[1]), 'the start-code window is assigned %s, expected peek_bits(17)' % (expr_str(e) if e else '?')); ok = False
    # Some(k) at exit
    rets = dict(ret_exprs(F, b))
    somes = [(bb, e) for bb, e in rets.items() if e[0] == 'agg' and e[1] == 'Ok' and isinstance(e[2], tuple) and e[2][0] == 'agg' and e[2][1] == 'Some']
    nones = [(bb, e) for bb, e in rets.items() if e[0] == 'agg' and e[1] == 'Ok' and isinstance(e[2], tuple) and e[2][0] == 'agg' and e[2][1] == 'None']
    if len(somes) != 1 or somes[0][0] in body or not (somes[0][0] in g.reachable_from([some_target])):
        ck.violation('F', key + ' : Some exit', where_of(b), 'Some(..) is not returned exactly at the window == 1 exit'); ok = False
    else:
        cnt = somes[0][1][2][2]
        if cnt[0] != 'multi':
            ck.violation('F', key + ' : Some payload', where_of(b, somes[0][0]), 'Some payload is not the skip counter'); ok = False
        else:
            k = cnt[1]
            defs = D.defs.get(k, [])
            inits = [d for d in defs if d[1] not in body]; steps = [d for d in defs if d[1] in body]
            good = (len(inits) == 1 and len(steps) == 1 and _rv_expr(F, b, inits[0][3]['rv']) == ('c', 0)
                    and ematch(('op', 'Add', ('multi', k), ('c', 1)), _rv_expr(F, b, steps[0][3]['rv'])) is not None)
            if not good:
                ck.violation('F', key + ' : counter', where_of(b), 'the skip counter is not 0; +1 per iteration'); ok = False
            # exactly one skip_bits(1) per iteration, on every cycle
            sk = [(bb, t2) for bb, t2 in rr.find_calls(F, b, 'H263Reader::<R>::skip_bits') if bb in body]
            if len(sk) != 1 or expr_of(F, b, sk[0][1]['args'][1]) != ('c', 1):
                ck.violation('F', key + ' : skip', where_of(b), 'the loop does not skip exactly one bit per iteration'); ok = False
            else:
                # every cycle passes through the skip
                seen = set(); stk = list(g.succ[h]); cyc = False
                while stk:
                    x = stk.pop()
                    if x in seen or x == sk[0][0] or x not in body: continue
                    if x == h: cyc = True; break
                    seen.add(x); stk.extend(g.succ[x])
                if cyc:
                    ck.violation('F', key + ' : cycle without skip', where_of(b, h), 'a loop cycle avoids skip_bits(1)'); ok = False
            # None only under !in_error && k > realignment_bits
            for nbb, ne in nones:
                conds = []
                for (a, s) in g.control_deps().get(nbb, set()):
                    if a not in body: continue
                    ce = expr_of(F, b, g.blocks[a]['term']['on'])
                    arms = {int(v): to for v, to in g.blocks[a]['term']['arms']}
                    taken_true = (s == g.blocks[a]['term']['otherwise'] and s not in arms.values())
                    conds.append((ce, taken_true))
                want1 = None; want2 = None
                for ce, tt in conds:
                    if ematch(('op', 'Gt', ('multi', k), ('callp', '::realignment_bits', ('param', 2, ()))), ce) is not None and tt: want1 = True
                    if ce[0] == 'param' and ce[1] == 1 and not tt: want2 = True     # in_error (captured) is false
                    if ce[0] == 'fld' or ce[0] == 'multi': pass
                if not want1:
                    ck.violation('F', key + ' : None guard', where_of(b, nbb), 'None is returned under %s, expected k > realignment_bits()' % [(expr_str(c), t_) for c, t_ in conds]); ok = False
    if ok:
        ck.ok('F', 'scan: window=peek_bits(17); exit on ==1 with Some(k); k=0,+1; skip_bits(1) on every cycle; None iff !in_error && k > realignment_bits()', where_of(b, h))


def g_vlc(ck, F):
    ck.rule('G', 'read_vlc: End -> value, Fork(z,o) -> read_bits(1) then index := z if bit==0 else o, out-of-range -> Err; every VLC table of the crate is '
                 'acyclic with in-range links, has a Fork root and no unreachable slot (so every walk terminates, consuming one bit per step)')
    b = F.body(RD + 'read_vlc'); g = cfg_of(b); D = defs_of(b)
    loops = g.loops()
    ok = len(loops) == 1
    if ok:
        h, body = list(loops.items())[0]
        rb = [(bb, t) for bb, t in rr.find_calls(F, b, 'H263Reader::<R>::read_bits') if bb in body]
        ok = len(rb) == 1 and expr_of(F, b, rb[0][1]['args'][1]) == ('c', 1)
        if ok:
            # every cycle passes through the read
            seen = set(); stk = list(g.succ[h]); cyc = False
            while stk:
                x = stk.pop()
                if x in seen or x == rb[0][0] or x not in body: continue
                if x == h: cyc = True; break
                seen.add(x); stk.extend(g.succ[x])
            ok = not cyc
        # index updates come from the Fork payload selected by the bit
        idx = None
        for bb, t in rr.find_calls(F, b, '<impl [T]>::get'):
            o = D.origin(t['args'][1])
            if o[0] == 'multi': idx = o[1]
        if idx is None: ok = False
        else:
            steps = [d for d in D.defs.get(idx, []) if d[1] in body]
            fl = sorted(_rv_expr(F, b, d[3]['rv'])[-1][-1] if isinstance(_rv_expr(F, b, d[3]['rv']), tuple) and _rv_expr(F, b, d[3]['rv'])[0] == 'fld' else -1 for d in steps)
            if fl != [0, 1]: ok = False
            else:
                # which one under bit == 0 ?
                for d in steps:
                    e = _rv_expr(F, b, d[3]['rv'])
                    which = e[-1][-1]
                    for (a, s) in g.control_deps().get(d[1], set()):
                        ce = expr_of(F, b, g.blocks[a]['term']['on'])
                        if ce[0] == 'op' and ce[1] == 'Eq' and ('c', 0) in ce[2:]:
                            taken_true = (s == g.blocks[a]['term']['otherwise'])
                            if (which == 0) != taken_true: ok = False
    if ok: ck.ok('G', 'read_vlc: one read_bits(1) on every cycle; index := Fork.0 on bit 0, Fork.1 on bit 1', where_of(b))
    else: ck.violation('G', 'G : read_vlc : walk', where_of(b), 'read_vlc does not have the recognised walk structure')
    # tables
    n = 0
    for name, body in sorted(F.bodies.items()):
        if body['kind'] != 'Const' or is_test_fn(name): continue
        if 'parser::vlc::Entry' not in body['ret']['s']: continue
        n += 1
        ents = tables.vlc_entries(F, name)
        probs, codes, unreached = tables.vlc_check(ents)
        if unreached: probs.append('unreachable slots %s' % unreached[:5])
        if probs:
            ck.violation('G', 'G : table %s' % name.split('::')[-1], where_of(body), '%s: %s' % (name.split('::')[-1], '; '.join(probs[:4])))
        else:
            ck.ok('G', '%s: %d slots, %d code words, acyclic, in range, Fork root, longest code %d bits' % (name.split('::')[-1], len(ents), len(codes), max(map(len, codes))), where_of(body))
    ck.floor('VLC tables checked', n, 6)
    # every read_vlc call site passes one of those tables
    m = 0
    from ..dataflow import const_item_of
    for name, body in sorted(F.bodies.items()):
        if is_test_fn(name) or body['crate'] != 'h263_rs': continue
        for bb, t in cfg_of(body).calls():
            if callee_is(F, t, 'H263Reader::<R>::read_vlc'):
                m += 1
                item = const_item_of(F, body, t['args'][1])
                if item is None:
                    ck.violation('G', 'G : %s : read_vlc table unknown' % short_fn(name), where_of(body, bb), 'read_vlc is passed a table that is not a crate constant')
                else:
                    ck.ok('G', '%s: read_vlc(%s)' % (short_fn(name), item.split('::')[-1]), where_of(body, bb), nontrivial=False)
    ck.floor('read_vlc call sites', m, 8)


def run(ck, F, tier):
    ck.explanation = ('C14 decided for the effect discipline and the bit assembly: A who may move the position (mod/ref summaries + dominance in skip_bits), B/T4 look-aheads '
                      'and transactions restore the checkpoint on the right paths, C reads are peek-then-skip with one n, E structural forms of the '
                      'arithmetic helpers (pattern match on def-use expressions), F the start-code scan, G VLC walk + all 6 tables acyclic. '
                      'H the MSB-first assembly loop of peek_bits (transfer function tabulated); W its width prologue for every width incl. 0 and too wide. History-level exactly-once delivery follows from A-H by induction over the operations (an argument, DESIGN.md 11.11).')
    ck.assumptions += ['VecDeque len/push_back/drain/iter semantics', 'VecDeque::iter visits the buffered bytes in insertion order']
    a_who_moves(ck, F)
    b_lookahead(ck, F)
    c_read_is_peek_then_skip(ck, F)
    ck.rule('T4', 'wrappers (shared with C05)')
    c05.t4_wrappers(ck, F)
    e_helper_forms(ck, F)
    h_msb_first(ck, F)
    w_width_prologue(ck, F)
    u_umv_code(ck, F)
    f_start_code(ck, F)
    g_vlc(ck, F)
    # "failed transactions / look-aheads consume nothing" also for NESTED wrappers: an inner wrapper must not invalidate the checkpoint of an outer one - nothing
    # but the decode closure commits, and nothing but commit drops buffered bytes or rewinds the position (C05's rule T5, re-run here)
    from ..report import Scoped as _Scoped
    c05.t5_reader_fields(_Scoped(ck, 'C05.'), F)
    # "reading past the end reports end-of-data without consuming" - and without leaving anything behind: a byte enters the buffer only after read_exact has
    # delivered it (C05's rule T6: a local 1-byte buffer, pushed on the success edge), so a failed fill cannot leave a phantom byte a later read would hand out
    c05.t6_retry_granularity(_Scoped(ck, 'C05.'), F)
