"""C10 - the inverse DCT: the structural conditions its accuracy rests on (the Annex A error statistics themselves are not decided statically)."""
import math
from ..bitslice import Table, fmt_cond
from ..loopexpr import Norm, show, guards, guard_term, truth_of, stores, place_term, find, mk_mul, mk_add, mk_sub
from .. import tables
from ..report import where_of
from ..facts import Unanalysable

IDCT = 'h263_rs::decoder::cpu::idct::'
RLE = 'h263_rs::decoder::cpu::rle::inverse_rle'
TOL = 4e-6


def basis(u, i):
    return (1 / math.sqrt(2) if u == 0 else 1.0) * math.cos((2 * i + 1) * u * math.pi / 16)


def rule_a(ck, F):
    ck.rule('A', 'BASIS_TABLE[u][i] = c(u) cos((2i+1) u pi / 16), c(0) = 1/sqrt2, within 4e-6 at all 64 entries (the table is folded from its const MIR, not executed)')
    v = tables.plain(tables.fold_const(F, 'h263_rs::decoder::cpu::idct::BASIS_TABLE'))
    if len(v) != 8 or any(len(r) != 8 for r in v):
        ck.violation('A', 'A : BASIS_TABLE : shape', None, 'BASIS_TABLE is not 8x8'); return
    worst = 0.0
    for u in range(8):
        for i in range(8):
            d = abs(v[u][i] - basis(u, i))
            worst = max(worst, d)
            if d > TOL:
                ck.violation('A', 'A : BASIS_TABLE[%d][%d]' % (u, i), None, 'BASIS_TABLE[%d][%d] = %r, the DCT basis value is %.9f (deviation %.2e > %.0e)' % (u, i, v[u][i], basis(u, i), d, TOL))
    ck.ok('A', 'BASIS_TABLE: 64 entries, largest deviation from c(u)cos((2i+1)u pi/16) = %.2e' % worst)
    ck.sample({'basis_table_max_deviation': worst})


def rule_b(ck, F):
    ck.rule('B', 'idct_1d: output[i] = sum over u = 0..7 of input[u] * BASIS_TABLE[u][i], starting from 0, for every i')
    name = IDCT + 'idct_1d'
    b = F.body(name); T = Table(F, name, paths=False, cast_kinds=True); N = Norm(T)
    g = T.g
    st = stores(T, N)
    acc = [(bb, s, t, v) for bb, s, t, v in st if t[0] == 'el']
    zero = [(bb, s, t, v) for bb, s, t, v in st if t[0] != 'el']
    if len(acc) != 1:
        ck.violation('B', 'B : idct_1d : accumulation', where_of(b), 'expected one store into output[i], found %s' % [show(t) + ' := ' + show(v) for _, _, t, v in acc]); return
    bb, s, t, v = acc[0]
    out_arr, i = t[1], t[2]
    # form 1: output[i] += P (row zeroed first); form 2: acc = 0; acc += P; output[i] = acc
    incr = None; start_ok = False; where_acc = bb
    if v[0] == '+' and len(v) == 3 and t in v[1:]:
        incr = [x for x in v[1:] if x != t][0]
        z = [(bb2, v2) for bb2, _, t2, v2 in zero if show(t2) == 'output' and show(v2) == 'repeat(0.0, 8)']
        start_ok = bool(z) and g.dominates(z[0][0], bb)
    elif v[0] == 'v':
        ls = [int(l) for l, nm in T.names.items() if nm == v[1]]
        ds = [d for l in ls for d in T.D.defs.get(l, []) if d[0] == 'assign']
        vals = [(d[1], N.n(T.ex_rv(d[3]['rv']))) for d in ds]
        init = [x for x in vals if x[1] == ('c', 0.0)]
        upd = [x for x in vals if x[1][0] == '+' and len(x[1]) == 3 and v in x[1][1:]]
        if len(vals) == 2 and len(init) == 1 and len(upd) == 1:
            incr = [x for x in upd[0][1][1:] if x != v][0]
            where_acc = upd[0][0]
            start_ok = g.dominates(init[0][0], upd[0][0]) and g.dominates(init[0][0], bb)
            ui = [x for x in find(incr, lambda z: z[0] == 'ix') if x != i]
            # the accumulator is reset for every i, accumulated inside the u loop, stored after it
            if len(set(ui)) == 1 and i[0] == 'ix':
                hi_, hu = _loop_head(T, i[1]), _loop_head(T, ui[0][1])
                lu_body = g.loops().get(hu, set())
                start_ok = start_ok and g.dominates(hi_, init[0][0]) and init[0][0] not in lu_body and upd[0][0] in lu_body and bb not in lu_body and g.dominates(hu, bb)
    ok = False
    if incr is not None and incr[0] == '*' and len(incr) == 3:
        fs = incr[1:]
        tab = [x for x in fs if 'BASIS_TABLE' in show(x)]
        inp = [x for x in fs if x not in tab]
        if len(tab) == 1 and len(inp) == 1 and inp[0][0] == 'el':
            u = inp[0][2]
            want = ('el', ('el', ('v', 'const BASIS_TABLE'), u), i)
            lu = N.loops.get(u[1]) if u[0] == 'ix' else None
            li = N.loops.get(i[1]) if i[0] == 'ix' else None
            if tab[0] == want and lu and li and show(lu.lo) == '0' and show(lu.hi) == '8' and show(li.lo) == '0' and show(li.hi) in ('len(output)', '8') \
                    and show(inp[0][1]) == 'input' and show(out_arr) == 'output' and g.dominates(_loop_head(T, li.L), _loop_head(T, lu.L)):
                ok = True
    if ok: ck.ok('B', 'idct_1d: output[i] accumulates input[u] * BASIS_TABLE[u][i], u in 0..8 inside i in 0..8', where_of(b, where_acc))
    else:
        ck.violation('B', 'B : idct_1d : accumulation form', where_of(b, bb), 'idct_1d computes %s := %s with increment %s; expected the sum of input[u]*BASIS_TABLE[u][i] over the inner index u in 0..8' % (
            show(t), show(v), show(incr) if incr else None))
    # every return goes through the whole output loop: no exit leaves `output` (a scratch row reused across blocks) with stale contents
    if ok:
        hi_ = _loop_head(T, li.L)
        early = [r for r in g.exits() if g.blocks[r]['term']['t'] == 'return' and not g.dominates(hi_, r)]
        if early:
            ck.violation('B', 'B : idct_1d : early return', where_of(b, early[0]), 'idct_1d can return without having written every output sample (a return not dominated by the output loop): '
                         'the caller reuses the output row across blocks, so stale values would be transformed')
        else: ck.ok('B', 'idct_1d: every return is dominated by the loop over all 8 output samples', where_of(b, hi_))
    if start_ok: ck.ok('B', 'idct_1d: the sum starts from 0.0 for every output sample', where_of(b))
    else: ck.violation('B', 'B : idct_1d : zero start', where_of(b), 'the sum does not start from zero for every output sample (stores: %s)' % [show(t2) + ' := ' + show(v2) for _, _, t2, v2 in zero])


def _loop_head(T, L):
    """block of the `next()` call on iterator local L"""
    for bb, t in T.g.calls():
        if F_name(T, t).endswith('::next') and t['args'] and t['args'][0].get('p'):
            e = T.ex(t['args'][0])
            while e[0] in ('cast', 'ref'): e = e[2] if e[0] == 'cast' else e[1]
            if e[0] in ('multi', 'opq') and e[1] == L: return bb
    return None


def F_name(T, t):
    return T.F.callee_name(t)


def rule_c(ck, F):
    ck.rule('C', 'idct_channel: every arm stores clamp(clamp(trunc(s*v + 0.5*signum(v)), -256, 255) + old sample, 0, 255) at sample (8*bx + x, 8*by + y) of the plane, '
                 'x < min(8, width - 8 bx), y < min(8, height - 8 by); s*v = v/4 (Full), BASIS_TABLE[0][0]*v/4 (Horiz, Vert), dc*0.5/4 (Dc); '
                 'Full = rows then columns through a transposition; Zero stores nothing')
    name = IDCT + 'idct_channel'
    b = F.body(name); T = Table(F, name, paths=False, cast_kinds=True); N = Norm(T)
    g = T.g
    st = [(bb, s, t, v) for bb, s, t, v in stores(T, N) if show(t).startswith('output[')]
    # which arm each store is in: the switch on the block's discriminant
    arms = {}
    sw = None
    for bb in sorted(g.reach):
        t = g.blocks[bb]['term']
        if t['t'] == 'switch':
            e = N.n(T.ex(t['on']))
            if e[0] == 'f' and e[1] == 'discr' and show(e[2]).startswith('block_levels['):
                sw = (bb, t, e[2])
    if sw is None:
        ck.violation('C', 'C : idct_channel : match', where_of(b), 'no match on block_levels[block_id] found'); return
    swb, swt, blk = sw
    variants = {v['name']: int(v['discr']) for v in F.adts['h263_rs::types::DecodedDctBlock']['variants']}
    arm_of = {}
    for vn, dv in variants.items():
        tgt = [to for val, to in swt['arms'] if int(val) == dv]
        arm_of[vn] = tgt[0] if tgt else swt['otherwise']
    XB = [l for l in N.loops.values() if l.kind == 'range' and show(l.hi) == 'blk_per_line']
    want_blk = None
    bx = by = None
    for l in N.loops.values():
        if l.kind == 'range' and show(l.hi) == 'blk_per_line': bx = ('ix', l.L)
        if l.kind == 'range' and show(l.hi) == 'Div(len(block_levels), blk_per_line)': by = ('ix', l.L)
    if bx is None or by is None or blk != ('el', ('v', 'block_levels'), mk_add([mk_mul([by, ('v', 'blk_per_line')]), bx])):
        ck.violation('C', 'C : idct_channel : block index', where_of(b, swb), 'the block processed is %s; expected block_levels[by*blk_per_line + bx] with bx in 0..blk_per_line, by in 0..len/blk_per_line' % show(blk)); return
    SPL = ('v', 'output_samples_per_line')
    XS_t = ('f', 'clamp', mk_sub(SPL, mk_mul([bx, ('c', 8)])), ('c', 0), ('c', 8))
    YS_t = ('f', 'clamp', mk_sub(('f', 'Div', ('f', 'len', ('v', 'output')), SPL), mk_mul([by, ('c', 8)])), ('c', 0), ('c', 8))
    XS, YS = show(XS_t), show(YS_t)
    seen = set()
    for bb, s, t, v in st:
        arm = [vn for vn, a in arm_of.items() if g.dominates(a, bb)]
        if len(arm) != 1:
            ck.violation('C', 'C : idct_channel : store outside the arms', where_of(b, bb), 'a store into output is not inside exactly one arm: %s' % show(t)); continue
        arm = arm[0]; seen.add(arm)
        # index: (8 by + y) * spl + 8 bx + x
        idx = t[2]
        ixs = [x for x in find(idx, lambda z: z[0] == 'ix') if x not in (bx, by)]
        xo = [x for x in ixs if N.loops[x[1]].hi == XS_t and show(N.loops[x[1]].lo) == '0']
        yo = [x for x in ixs if N.loops[x[1]].hi == YS_t and show(N.loops[x[1]].lo) == '0']
        if len(set(xo)) != 1 or len(set(yo)) != 1 or idx != mk_add([mk_mul([mk_add([mk_mul([by, ('c', 8)]), yo[0]]), SPL]), mk_mul([bx, ('c', 8)]), xo[0]]):
            ck.violation('C', 'C : idct_channel : %s : sample position' % arm, where_of(b, bb), '%s arm stores at output[%s]; expected (8*by + y)*samples_per_line + 8*bx + x with x < %s and y < %s' % (
                arm, show(idx), XS, YS)); continue
        x, y = xo[0], yo[0]
        payload = ('fld', blk, (('as', variants[arm]), 0))
        src = {'Dc': payload, 'Horiz': ('el', ('el', ('v', 'idct_intermediate'), ('c', 0)), x), 'Vert': ('el', ('el', ('v', 'idct_intermediate'), ('c', 0)), y),
               'Full': ('el', ('el', ('v', 'idct_output'), x), y)}.get(arm)
        if src is None:
            ck.violation('C', 'C : idct_channel : %s : stores' % arm, where_of(b, bb), 'the %s arm stores into the output' % arm); continue
        scale = {'Dc': [('c', 0.125)], 'Full': [('c', 0.25)], 'Horiz': [('c', 0.25), ('el', ('el', ('v', 'const BASIS_TABLE'), ('c', 0)), ('c', 0))]}
        scale['Vert'] = scale['Horiz']
        inner = mk_add([mk_mul([src] + scale[arm]), mk_mul([('f', 'signum', src), ('c', 0.5)])])
        want = ('f', 'clamp', mk_add([('el', t[1], idx), ('f', 'clamp', ('f', 'trunc', inner), ('c', -256), ('c', 255))]), ('c', 0), ('c', 255))
        if v == want:
            ck.ok('C', '%s arm: output[p] = clamp(clamp(trunc(%s) as i16, -256, 255) + output[p] as i16, 0, 255) as u8, p = (8by+y)*spl + 8bx+x' % (arm, show(inner)), where_of(b, bb))
        else:
            ck.violation('C', 'C : idct_channel : %s : rounding form' % arm, where_of(b, bb), '%s arm stores %s; expected %s' % (arm, show(v), show(want)))
    for arm in ('Dc', 'Horiz', 'Vert', 'Full'):
        if arm not in seen:
            ck.violation('C', 'C : idct_channel : %s : no store' % arm, where_of(b), 'the %s arm never stores into the output' % arm)
    # Zero arm: no store, no call, straight to the next block
    za = arm_of['Zero']
    zreach = g.reachable_from([za], avoid=[_loop_head(T, bx[1])])
    bad = [bb for bb, s, t, v in st if bb in zreach and not any(g.dominates(a, bb) for vn, a in arm_of.items() if vn != 'Zero')]
    zcalls = [bb for bb, t in g.calls() if bb in zreach and g.dominates(za, bb)]
    if bad or zcalls:
        ck.violation('C', 'C : idct_channel : Zero arm', where_of(b, za), 'the Zero arm writes or calls something (stores at %s, calls at %s)' % (bad, zcalls))
    else:
        ck.ok('C', 'Zero arm: falls through to the next block without a store (an all-zero block leaves the samples unchanged)', where_of(b, za))
    # 1-D passes
    calls = []
    for bb, t in g.calls():
        if F.callee_name(t).endswith('idct::idct_1d'):
            arm = [vn for vn, a in arm_of.items() if g.dominates(a, bb)]
            calls.append((arm[0] if len(arm) == 1 else None, bb, N.n(T.ex(t['args'][0])), N.n(T.ex(t['args'][1]))))
    byarm = {}
    for a, bb, i, o in calls: byarm.setdefault(a, []).append((bb, i, o))
    def payload(vn): return ('fld', blk, (('as', variants[vn]), 0))
    ok = True
    for vn in ('Horiz', 'Vert'):
        c = byarm.get(vn, [])
        if len(c) != 1 or c[0][1] != payload(vn) or show(c[0][2]) != 'idct_intermediate[0]':
            ok = False
            ck.violation('C', 'C : idct_channel : %s : 1-D pass' % vn, where_of(b), '%s arm: expected one idct_1d(payload, idct_intermediate[0]); found %s' % (vn, [(show(i), show(o)) for _, i, o in c]))
        else:
            ck.ok('C', '%s arm: idct_1d(%s, idct_intermediate[0]) before the stores' % (vn, show(c[0][1])), where_of(b, c[0][0]))
    c = byarm.get('Full', [])
    full_ok = False
    if len(c) == 2:
        (b1, i1, o1), (b2, i2, o2) = sorted(c, key=lambda z: T.order.get(z[0], 0))
        r1 = [x for x in find(i1, lambda z: z[0] == 'ix') if x not in (bx, by)]; r2 = [x for x in find(i2, lambda z: z[0] == 'ix') if x not in (bx, by)]
        tr = [(bb, s, t, v) for bb, s, t, v in stores(T, N) if show(t).startswith('idct_intermediate[')]
        if len(r1) == 1 and len(r2) == 1 and i1 == ('el', payload('Full'), r1[0]) and o1 == ('el', ('v', 'idct_output'), r1[0]) \
                and i2 == ('el', ('v', 'idct_intermediate'), r2[0]) and o2 == ('el', ('v', 'idct_output'), r2[0]) \
                and all(show(N.loops[r[1]].lo) == '0' and show(N.loops[r[1]].hi) == '8' for r in (r1[0], r2[0])) and len(tr) == 1:
            tb, ts, tt, tv = tr[0]
            # transposition: intermediate[i][row] = output[row][i], i over all 8 rows of intermediate, inside the first row loop, after its idct_1d
            if tt[0] == 'el' and tt[1][0] == 'el' and tt[2] == r1[0] and tv == ('el', ('el', ('v', 'idct_output'), r1[0]), tt[1][2]) and tt[1][2][0] == 'ix' \
                    and show(N.loops[tt[1][2][1]].hi) in ('len(idct_intermediate)', '8') and g.dominates(b1, tb) and T.order[tb] < T.order[b2]:
                full_ok = True
    if full_ok:
        ck.ok('C', 'Full arm: idct_1d(block[r], out[r]); intermediate[i][r] = out[r][i] for r in 0..8; then idct_1d(intermediate[r], out[r]) for r in 0..8; sample (x, y) = out[x][y]', where_of(b))
    else:
        ck.violation('C', 'C : idct_channel : Full : separable passes', where_of(b), 'Full arm is not rows -> transposition -> columns: calls %s' % [(show(i), show(o)) for _, i, o in c])


def rule_e(ck, F):
    ck.rule('E', 'inverse_rle classifies a block as Horiz only if no non-zero coefficient has y > 0, as Vert only if none has x > 0, as Dc/Zero only if both; '
                 'the payloads are row 0, column 0, block_data[0][0] and the whole block')
    b = F.body(RLE); T = Table(F, RLE, cast_kinds=True); N = Norm(T)
    g = T.g
    st = [(bb, s, t, v) for bb, s, t, v in stores(T, N) if show(t).startswith('block_data[') and 'DEZIGZAG' in show(t)]
    if len(st) != 1:
        ck.violation('E', 'E : inverse_rle : coefficient store', where_of(b), 'expected one store block_data[zig_y][zig_x] := value, found %d' % len(st)); return
    sb, ss, stt, sv = st[0]
    row, col = stt[1][2], stt[2]          # block_data[row][col]
    gs = guards(T, sb)
    for flag, coord, what in (('is_horiz', row, 'y'), ('is_vert', col, 'x')):
        ls = [int(l) for l, nm in T.names.items() if nm == flag]
        defs = [d for l in ls for d in T.D.defs.get(l, []) if d[0] == 'assign']
        consts = [(d[1], T.ex_rv(d[3]['rv'])) for d in defs]
        falses = [bb for bb, v in consts if v == ('c', 0)]
        trues = [bb for bb, v in consts if v == ('c', 1)]
        # the other spelling of the same update: `flag &= coord == 0` under `value != 0` alone
        def _and_clear(v):
            n = N.n(v)
            if not (isinstance(n, tuple) and n[0] == 'f' and n[1] == 'BitAnd' and len(n) == 4): return False
            ops = list(n[2:])
            if ('v', flag) not in ops: return False
            ops.remove(('v', flag))
            return ops[0] in (N.op('Eq', coord, ('c', 0)), ('f', 'Eq', ('c', 0), coord), ('f', 'Eq', coord, ('c', 0)))
        ands = [bb for bb, v in consts if _and_clear(v)]
        and_form = len(consts) == 2 and len(ands) == 1 and len(trues) == 1 and not falses
        if and_form: falses = ands
        if len(consts) != 2 or len(falses) != 1 or len(trues) != 1 or trues[0] in g.loops().get(_headof(g, sb), ()):
            ck.violation('E', 'E : inverse_rle : %s : definitions' % flag, where_of(b), '%s is not "true before the loop, set to false in the loop" (definitions: %s)' % (flag, [(bb, T.show(v)) for bb, v in consts])); continue
        fb = falses[0]
        extra = guards(T, fb) - gs
        terms = []
        for a, s in sorted(extra):
            tt = truth_of(*guard_term(T, N, a, s))
            terms.append(tt)
        nz = (N.op('Ne', _val_of(T, N, ss), ('c', 0.0)), True)
        want = {(('f', 'Gt', coord, ('c', 0)), True), nz}
        got = set(x for x in terms if x is not None)
        alt = {(N.op('Ne', coord, ('c', 0)), True), nz}
        if and_form: want = alt = {nz}
        if None in terms or (got != want and got != alt) or not g.dominates(sb, fb):
            ck.violation('E', 'E : inverse_rle : %s : condition' % flag, where_of(b, fb), '%s is cleared under %s after the store; expected exactly: stored value != 0 and %s > 0' % (
                flag, [(show(t[0]), t[1]) if t else None for t in terms], show(coord)))
        else:
            ck.ok('E', '%s := false exactly when a stored coefficient is non-zero and its %s coordinate %s is > 0' % (flag, what, show(coord)), where_of(b, fb))
    # classification
    want = {'Full': ('!$is_horiz & !$is_vert', ['block_data']), 'Horiz': ('$is_horiz & !$is_vert', ['block_data[0]']),
            'Vert': ('!$is_horiz & $is_vert', ['array(%s)' % ', '.join('block_data[%d][0]' % k for k in range(8))]),
            'Dc': ('$is_horiz & $is_vert', ['block_data[0][0]']), 'Zero': ('$is_horiz & $is_vert', [])}
    loop_blocks = g.loops().get(_headof(g, sb), set())
    found = {}
    for bb in sorted(g.reach):
        for s in g.blocks[bb]['stmts']:
            if s['s'] == 'assign' and s['rv']['r'] == 'agg' and s['rv']['kind'].get('path', '').endswith('DecodedDctBlock'):
                vn = s['rv']['kind']['vname']
                pc = T.pc(bb)
                flags = set()
                for c in pc:
                    lits = sorted(('' if d[2] else '!') + d[1] for d in c if d[0] == 'A' and d[1] in ('$is_horiz', '$is_vert'))
                    flags.add(' & '.join(sorted(lits, key=lambda z: z.lstrip('!'))))
                if not flags or flags == {''}: continue          # the tcoef-empty branch (no flags involved)
                found.setdefault(vn, []).append((bb, flags, [show(N.n(T.ex(o))) for o in s['rv']['ops']]))
    for vn, (cond, pay) in want.items():
        f = found.get(vn, [])
        if len(f) != 1 or f[0][1] != {cond} or f[0][2] != pay:
            ck.violation('E', 'E : inverse_rle : %s : classification' % vn, where_of(b), '%s is produced as %s; expected under [%s] with payload %s' % (vn, f, cond, pay))
        else:
            ck.ok('E', '%s(%s) <=> %s after the loop' % (vn, ', '.join(pay), cond), where_of(b, f[0][0]))


def _val_of(T, N, store_stmt):
    return N.n(T.ex_rv(store_stmt['rv']))


def _headof(g, bb):
    best = None
    for h, body in g.loops().items():
        if bb in body and (best is None or len(body) < len(g.loops()[best])): best = h
    return best


def run(ck, F, tier):
    ck.explanation = ('C10 is a statistical accuracy statement (Annex A); no static argument decides its error bounds, and none is claimed. Decided here are the structural '
                      'conditions the accuracy rests on, each a necessary condition whose breakage changes decoded samples: A the basis table against the cosine formula; '
                      'B the shape of the 1-D transform; C the rounding / clipping / addition form and sample geometry of all four arms, the separable row-column '
                      'structure with its transposition, and that a Zero block changes nothing; E that the sparse shortcuts are applied only to blocks of their shape.')
    ck.assumptions += ['f32 multiplication by a power of two is exact and commutes with the other factors (used to identify x*0.5/4.0 with 0.125*x)',
                       'the Annex A statistics (peak error 1, mean square error bounds, mean error bounds) are NOT decided']
    rule_a(ck, F); rule_b(ck, F); rule_c(ck, F); rule_e(ck, F)
    # the transform is handed the right blocks: level arrays, blocks per line, planes and row lengths agree between inverse_rle and idct_channel (C02's rule D)
    from . import c02
    from ..report import Scoped
    c02.rule_d(Scoped(ck, 'C02.'), F)
