"""C15 - one decode call consumes exactly one picture of a stream."""
import os
from ..cfg import cfg_of
from ..dataflow import defs_of, callee_is, strip_ref, fields_of, expr_of, strip_casts, expr_str
from .. import effects
from ..report import where_of, short_fn
from ..facts import Unanalysable
from . import reader_rules as rr
from . import c05

CLO = c05.CLO


def mb_loop(F, b):
    g = cfg_of(b)
    dm = rr.find_calls(F, b, 'parser::macroblock::decode_macroblock')
    if len(dm) != 1:
        raise Unanalysable('expected one decode_macroblock call in the decode closure, found %d' % len(dm))
    dbb = dm[0][0]
    loops = [(h, body) for h, body in g.loops().items() if dbb in body]
    if not loops:
        raise Unanalysable('decode_macroblock is not called in a loop')
    # innermost
    h, body = min(loops, key=lambda x: len(x[1]))
    return h, body, dbb


def count_vectors(F, b, loop):
    """vectors that receive exactly one push per completed loop iteration (pushed in the loop, on a block that reaches the back edge)."""
    g = cfg_of(b); D = defs_of(b)
    out = {}
    for bb in loop:
        t = g.blocks[bb]['term']
        if t['t'] == 'call' and callee_is(F, t, 'Vec::<T, A>::push', 'Vec::<T>::push'):
            vo = strip_ref(D.origin(t['args'][0]))
            if vo[0] in ('multi', 'call'):
                l = vo[1] if vo[0] == 'multi' else vo[2]['dest']['l']
                out[l] = bb
    return out


def m7_count_bound(ck, F):
    ck.rule('M7', 'the macroblock loop has an exit, taken before another macroblock is parsed, guarded by a comparison of the number of '
                  'macroblocks decoded so far (len of a per-macroblock vector) with mb_per_line * mb_height')
    b = F.body(CLO); g = cfg_of(b); D = defs_of(b)
    h, loop, dbb = mb_loop(F, b)
    vecs = count_vectors(F, b, loop)
    # the product: argument of Vec::with_capacity for those vectors
    caps = {}
    for l in vecs:
        o = D.origin({'o': 'copy', 'p': {'l': l, 'proj': []}})
        d = D.whole_defs(l)
        for dd in d:
            if dd[0] == 'call' and callee_is(F, dd[3], 'Vec::<T>::with_capacity'):
                caps[l] = strip_casts(expr_of(F, b, dd[3]['args'][0]))
    if not caps:
        ck.violation('M7', 'M7 : closure : no counted vector', where_of(b, h), 'no per-macroblock vector with a declared capacity found: the anchor moved'); return
    total = set(caps.values())
    found = None; near = None
    for bb in sorted(loop):
        t = g.blocks[bb]['term']
        if t['t'] != 'switch' or t['on']['o'] == 'const': continue
        if not g.dominates(bb, dbb): continue
        exits = [s for s in g.succ[bb] if s not in loop]
        if not exits: continue
        e = strip_casts(expr_of(F, b, t['on']))
        o = D.origin(t['on'])
        if o[0] == 'rv' and o[2]['rv']['r'] == 'bin' and o[2]['rv']['op'] in ('Lt', 'Le', 'Gt', 'Ge', 'Eq', 'Ne'):
            op = o[2]['rv']['op']
            ops = [o[2]['rv']['a'], o[2]['rv']['b']]
            def len_of_counted(x):
                xo = D.origin(x)
                if xo[0] == 'call' and callee_is(F, xo[2], 'Vec::<T, A>::len', 'Vec::<T>::len'):
                    vo = strip_ref(D.origin(xo[2]['args'][0]))
                    l = vo[1] if vo[0] == 'multi' else (vo[2]['dest']['l'] if vo[0] == 'call' else None)
                    return l in vecs
                return False
            is_len = [len_of_counted(x) for x in ops]
            is_tot = [strip_casts(expr_of(F, b, x)) in total for x in ops]
            # the exit edge must be the one taken when len >= total (no macroblock beyond the count is parsed)
            arms = {int(v): to for v, to in t['arms']}
            true_edge = t['otherwise']; false_edge = arms.get(0)
            if is_len[0] and is_tot[1]: rel = op
            elif is_len[1] and is_tot[0]: rel = {'Lt': 'Gt', 'Le': 'Ge', 'Gt': 'Lt', 'Ge': 'Le', 'Eq': 'Eq', 'Ne': 'Ne'}[op]
            else: rel = None
            # rel is the relation `len REL total` whose truth sends control to true_edge
            if rel is not None:
                exit_on_true = true_edge not in loop
                exit_on_false = false_edge is not None and false_edge not in loop
                good = (rel in ('Ge', 'Eq') and exit_on_true) or (rel in ('Lt', 'Ne') and exit_on_false)
                if good:
                    found = (bb, e)
                else:
                    near = (bb, rel)
    if found:
        ck.ok('M7', 'loop exit at bb%d guarded by %s, dominating the macroblock parse' % (found[0], expr_str(found[1])), where_of(b, found[0]))
    else:
        ck.violation('M7', 'M7 : closure : macroblock loop has no count bound', where_of(b, h),
                     'the macroblock loop (header bb%d) has no exit that compares the number of decoded macroblocks with %s before parsing the next '
                     'macroblock: it runs on into whatever follows the picture (next picture in the same reader; positions beyond the level arrays)'
                     % (h, ' / '.join(sorted(expr_str(x) for x in total))))
    return h, loop


def resync_rule(ck, F, h, loop):
    ck.rule('RS', 'the resynchronisation probe decode_gob is a union transaction (Ok(None) and Err consume nothing) and its Ok(None) / end-of-data '
                  'arms leave the loop without consuming; it is attempted only outside Sorenson mode')
    b = F.body(CLO); g = cfg_of(b); D = defs_of(b)
    gb = F.body('h263_rs::parser::gob::decode_gob')
    wt = rr.find_calls(F, gb, 'H263Reader::<R>::with_transaction_union')
    if len(wt) == 1 and len(list(cfg_of(gb).calls())) == 1:
        ck.ok('RS', 'decode_gob = reader.with_transaction_union(..)', where_of(gb))
    else:
        ck.violation('RS', 'RS : decode_gob : not a union transaction', where_of(gb), 'decode_gob is not a single with_transaction_union call')
    pb = F.body('h263_rs::parser::picture::decode_picture')
    wt = rr.find_calls(F, pb, 'H263Reader::<R>::with_transaction_union')
    if len(wt) == 1 and len(list(cfg_of(pb).calls())) == 1:
        ck.ok('RS', 'decode_picture = reader.with_transaction_union(..)', where_of(pb))
    else:
        ck.violation('RS', 'RS : decode_picture : not a union transaction', where_of(pb), 'decode_picture is not a single with_transaction_union call')
    gs = [(bb, t) for bb, t in rr.find_calls(F, b, 'parser::gob::decode_gob') if bb in loop]
    if len(gs) != 1:
        ck.violation('RS', 'RS : closure : decode_gob calls', where_of(b, h), 'expected one decode_gob call in the macroblock loop, found %d' % len(gs)); return
    gbb, gt = gs[0]
    res = gt['dest']['l']
    # Ok(None) edge: discr(res)==0 then discr((res as Ok).0)==0
    ok_edges, some_edges = rr.result_test_edges(F, b, res)
    none_targets = []
    for bb in loop:
        t = g.blocks[bb]['term']
        if t['t'] != 'switch' or t['on']['o'] == 'const': continue
        o = D.origin(t['on'])
        if o[0] == 'rv' and o[2]['rv']['r'] == 'discr':
            base = strip_ref(D.origin_place(o[2]['rv']['p']))
            if rr._is_local(base, res) and rr._proj_sig(base) == (('dc', 0), 0):
                arms = {int(v): to for v, to in t['arms']}
                if 0 in arms: none_targets.append(arms[0])
    if not none_targets:
        ck.violation('RS', 'RS : closure : Ok(None) arm', where_of(b, gbb), 'no arm for decode_gob() == Ok(None) found'); return
    be = effects.analysis(F).of(CLO)
    reader_w = {e.bb for e in be.effects if e.kind == 'w' and e.loc[0] == ('param', 2)}
    for nt in none_targets:
        # follow until we leave the loop; must not come back to the header, must not consume
        seen = set(); st = [nt]; back = False; consumes = False
        while st:
            x = st.pop()
            if x in seen: continue
            seen.add(x)
            if x == h: back = True; continue
            if x not in loop: continue
            if x in reader_w: consumes = True
            st.extend(g.succ[x])
        if back or consumes:
            ck.violation('RS', 'RS : closure : Ok(None) arm continues', where_of(b, nt),
                         'after decode_gob() == Ok(None) (start of the next picture) the loop %s' % ('continues' if back else 'consumes input'))
        else:
            ck.ok('RS', 'decode_gob() == Ok(None) leaves the macroblock loop without consuming', where_of(b, nt))
    # only outside Sorenson mode
    conds = []
    for (a, s) in g.control_deps().get(gbb, set()):
        if a not in loop: continue
        o = D.origin(g.blocks[a]['term']['on'])
        if o[0] == 'call' and callee_is(F, o[2], 'H263State::is_sorenson'):
            arms = {int(v): to for v, to in g.blocks[a]['term']['arms']}
            conds.append(arms.get(0) == s)
    # is_sorenson() itself: the SORENSON_SPARK_BITSTREAM bit of the decoder options
    from ..dataflow import ematch
    bs = F.body('h263_rs::decoder::state::H263State::is_sorenson')
    es = expr_of(F, bs, {'o': 'copy', 'p': {'l': 0, 'proj': []}})
    ads = F.adt('h263_rs::decoder::state::H263State')['variants'][0]['fields']
    fi = [f.get('name') for f in ads].index('decoder_options')
    if ematch(('callp', 'DecoderOption>::contains', ('param', 1, (fi,)), ('item', 'decoder::types::DecoderOption::SORENSON_SPARK_BITSTREAM')), es) is None:
        ck.violation('RS', 'RS : is_sorenson : form', where_of(bs), 'is_sorenson() is %s, expected decoder_options.contains(SORENSON_SPARK_BITSTREAM)' % expr_str(es, bs.get('debug', {})))
        conds = conds + ['is_sorenson']
    if conds == [True]:
        ck.ok('RS', 'decode_gob is attempted only when !is_sorenson(), and is_sorenson() = decoder_options.contains(SORENSON_SPARK_BITSTREAM)', where_of(b, gbb))
    else:
        ck.violation('RS', 'RS : closure : resync mode guard', where_of(b, gbb), 'decode_gob is not guarded by !is_sorenson() (found %s)' % conds)


def commit_rule(ck, F, h, loop):
    ck.rule('CM', 'exactly one reader.commit(), after the macroblock loop, on every successful path; between the loop exits and commit no call '
                  'moves the reader')
    b = F.body(CLO); g = cfg_of(b); D = defs_of(b)
    cs = rr.find_calls(F, b, 'H263Reader::<R>::commit')
    if len(cs) != 1:
        ck.violation('CM', 'CM : closure : commit count', where_of(b), 'expected exactly one commit() in the decode closure, found %d' % len(cs)); return
    cbb, ct = cs[0]
    ok = True
    if cbb in loop or (g.reachable_from(g.succ[cbb]) & loop):
        ck.violation('CM', 'CM : closure : commit inside/before loop', where_of(b, cbb), 'commit() is inside or before the macroblock loop'); ok = False
    okret = [bb for bb in g.reach for s in g.blocks[bb]['stmts'] if s['s'] == 'assign' and s['lhs']['l'] == 0 and not s['lhs']['proj']
             and s['rv']['r'] == 'agg' and s['rv']['kind'].get('vname') == 'Ok']
    seen = set(); st = [0]
    while st:
        x = st.pop()
        if x in seen or x == cbb: continue
        seen.add(x); st.extend(g.succ[x])
    if seen & set(okret):
        ck.violation('CM', 'CM : closure : success without commit', where_of(b, cbb), 'an Ok return is reachable without commit()'); ok = False
    # no reader movement between loop exits and commit
    be = effects.analysis(F).of(CLO)
    exits = {s for x in loop for s in g.succ[x] if s not in loop}
    region = set(); st = list(exits)
    while st:
        x = st.pop()
        if x in region or x == cbb: continue
        region.add(x); st.extend(g.succ[x])
    moved = [e for e in be.effects if e.kind == 'w' and e.loc[0] == ('param', 2) and e.bb in region]
    for e in moved:
        ck.violation('CM', 'CM : closure : reader moved after the loop via %s' % short_fn(e.via), where_of(b, e.bb),
                     'between the end of the macroblock loop and commit() the reader is touched via %s' % e.via); ok = False
    if ok:
        ck.ok('CM', 'single commit() at bb%d: after the loop, on every Ok path; %d post-loop blocks touch the reader nowhere else' % (cbb, len(region)), where_of(b, cbb))


def macroblock_count(ck, F):
    ck.rule('MC', 'the macroblock count the loop is bounded by is ceil(width/16) * ceil(height/16): both factors tabulated over every u16 dimension (with Rust integer / exact f64 semantics)')
    from ..bitslice import Table
    from ..loopexpr import Norm, show as nshow, find as nfind
    from . import c02
    b = F.body(CLO); T = Table(F, CLO, paths=False, cast_kinds=True); N = Norm(T)
    W = ('fld', ('f', 'try', ('f', 'ok_or', ('f', 'into_width_and_height', ('v', 'format')), ('agg', 'PictureFormatInvalid'))), (0,))
    H = ('fld', W[1], (1,))
    byname = {}
    for l, nm in T.names.items(): byname.setdefault(nm, []).append(int(l))
    for nm, var, axis in (('mb_per_line', W, 'width'), ('mb_height', H, 'height')):
        ds = [d for l in byname.get(nm, []) for d in T.local_defs(l) if d[2] is not None]
        if len(ds) != 1:
            ck.violation('MC', 'MC : %s : definition' % nm, where_of(b), 'expected one definition of %s, found %d' % (nm, len(ds))); continue
        raw = ds[0][2]; term = N.n(raw)
        msg = c02.typed_tab(T, N, raw, var, 'u16', lambda x: (x + 15) // 16)
        if msg == 'float': msg = c02.tab_equal(term, var, lambda x: (x + 15) // 16) if nfind(term, lambda z: z == var) else 'does not depend on the %s' % axis
        if msg is None: ck.ok('MC', '%s = %s = ceil(%s/16) for every %s in 0..=65535 (tabulated)' % (nm, nshow(term), axis, axis), where_of(b, ds[0][0]))
        else: ck.violation('MC', 'MC : %s : form' % nm, where_of(b, ds[0][0]), '%s = %s is not ceil(%s/16): %s' % (nm, nshow(term), axis, msg))


def picture_start(ck, F):
    ck.rule('PS', 'decode_picture starts a picture by skipping the stuffing bits recognize_start_code reports plus the 17 start-code bits: with fewer than eight zero bits of '
                  'padding after the previous picture, the header is read from its first bit')
    from ..bitslice import Table
    name = 'h263_rs::parser::picture::decode_picture::{closure#0}'
    b = F.body(name)
    T = Table(F, name, stop_at=lambda bb, t: F.callee_name(t).endswith('H263Reader::<R>::read_bits'), paths=True)
    rows = T.read_rows()
    rec = [r for r in rows if r[1] == 'recognize_start_code']
    sk = [r for r in rows if r[1] == 'skip_bits']
    ok = len(rec) == 1 and len(sk) == 1 and rec[0][0] < sk[0][0]
    why = 'expected one recognize_start_code followed by one skip_bits before the first field, found %d / %d' % (len(rec), len(sk))
    if ok:
        ws = [w for w, c in sk[0][2]]
        want = 'Add(17, some(r%d or MiddleOfBitstream))' % rec[0][0]
        alt = 'Add(some(r%d or MiddleOfBitstream), 17)' % rec[0][0]
        if ws not in ([want], [alt]):
            ok = False; why = 'skip_bits is given %s, expected 17 + the stuffing count returned by recognize_start_code' % ws
    if ok: ck.ok('PS', 'decode_picture: skip_bits(17 + recognize_start_code()?) before the first header field', where_of(b))
    else: ck.violation('PS', 'PS : decode_picture : start', where_of(b), why)


def _errorkind_names():
    """variant names of std::io::ErrorKind in declaration order (= discriminant), read from the toolchain's own library source"""
    import re as _re
    from ..facts import _sysroot
    for sub in ('core/src/io/error.rs', 'std/src/io/error.rs'):
        p_ = os.path.join(_sysroot(), 'lib/rustlib/src/rust/library', sub)
        try:
            src = open(p_).read()
            i = src.index('pub enum ErrorKind {')
            body = src[i:src.index('\n}', i)]
            vs = [m.group(1) for m in _re.finditer(r'^\s{4}([A-Z]\w*),\s*$', body, _re.M)]
            if 'UnexpectedEof' in vs: return vs
        except (OSError, ValueError):
            continue
    return None


def eof_classification(ck, F):
    ck.rule('EK', 'what counts as "end of data": Error::is_eof_error is true exactly for an I/O error of kind UnexpectedEof - the only condition under which the macroblock loop '
                  'ends a picture early and succeeds; every other I/O condition of the source (WouldBlock, Interrupted, ..) fails the call and changes nothing (C05)')
    from ..bitslice import Table, dnf_diff, FALSE
    name = 'h263_rs::error::Error::is_eof_error'
    try:
        b = F.body(name); T = Table(F, name)
    except (KeyError, Unanalysable) as e:
        ck.violation('EK', 'EK : is_eof_error : missing', None, 'Error::is_eof_error not found (%s)' % e); return
    rows = T.return_rows().get('', {})
    t = rows.get('1', FALSE)
    kinds = set(); other = []
    for c in t:
        var = [d for d in c if d[0] == 'V' and d[1] == 'self']
        ks = [d for d in c if d[0] in ('S', 'A') and 'kind(' in str(d[1])]
        rest = [d for d in c if d not in var and d not in ks]
        if len(var) != 1 or set(var[0][3]) != {'UnhandledIoError'} or len(ks) != 1 or rest: other.append(c); continue
        d = ks[0]
        import re as _re
        m_ = _re.match(r'^discr\(kind\(self\.as\d+\.0\)\) in \[([0-9, ]+)\]$', d[1]) if d[0] == 'A' and d[2] is True else None
        if d[0] == 'S' and not getattr(d[3], 'neg', False): kinds |= set(d[3])
        elif m_: kinds |= {int(x) for x in m_.group(1).split(',')}
        else: other.append(c)
    names = _errorkind_names()
    shown = sorted((names[k] if names and isinstance(k, int) and 0 <= k < len(names) else str(k)) for k in kinds)
    if other or T.opaque or len(kinds) != 1:
        ck.violation('EK', 'EK : is_eof_error : kinds', where_of(b), 'is_eof_error is true for I/O error kinds %s%s; expected exactly UnexpectedEof' % (shown, ' and under other conditions' if other or T.opaque else ''))
    elif names is None:
        ck.assumptions.append('the single io::ErrorKind accepted by is_eof_error (discriminant %s) is UnexpectedEof - the library source of the toolchain could not be read to name it' % shown)
        ck.ok('EK', 'is_eof_error: UnhandledIoError with exactly one io::ErrorKind (discriminant %s)' % shown, where_of(b))
    elif shown != ['UnexpectedEof']:
        ck.violation('EK', 'EK : is_eof_error : kinds', where_of(b), 'is_eof_error is true for I/O error kind %s; expected UnexpectedEof' % shown)
    else:
        ck.ok('EK', 'is_eof_error <=> UnhandledIoError(kind = UnexpectedEof) (discriminant resolved through the toolchain\'s library source)', where_of(b))


    # .. and an I/O error reaches that test unchanged: From<io::Error> wraps it as UnhandledIoError(e)
    from ..dataflow import expr_of as _eo
    try:
        fb = F.body('h263_rs::<error::Error as std::convert::From<std::io::Error>>::from')
        e = _eo(F, fb, {'o': 'copy', 'p': {'l': 0, 'proj': []}})
        if e == ('agg', 'UnhandledIoError', ('param', 1, ())): ck.ok('EK', 'From<io::Error> for Error = UnhandledIoError(e)', where_of(fb))
        else: ck.violation('EK', 'EK : From<io::Error> : form', where_of(fb), 'the conversion of an I/O error is %s, expected UnhandledIoError(e)' % expr_str(e))
    except (KeyError, Unanalysable) as ex:
        ck.violation('EK', 'EK : From<io::Error> : missing', None, 'From<io::Error> for Error not found (%s)' % ex)


def run(ck, F, tier):
    ck.explanation = ('C15 decided structurally on MIR of the decode closure: M7 the macroblock loop is bounded by the macroblock count (exit test '
                      'dominating the macroblock parse); RS the resynchronisation probe is a union transaction whose Ok(None) arm leaves the loop without '
                      'consuming and is used only outside Sorenson mode; T7 (shared with C05) a failed macroblock parse consumes nothing; CM single '
                      'commit after the loop with no reader movement in between; MB / C12.C the macroblock and block layer consume exactly the bits of their syntax elements. '
                      'Together: on success the position is the end of the last macroblock.')
    ck.assumptions += ['a picture holds exactly mb_per_line*mb_height macroblocks (H.263 5.3; stuffing codes excluded)']
    try:
        r = m7_count_bound(ck, F)
        h, loop, _ = mb_loop(F, F.body(CLO))
        resync_rule(ck, F, h, loop)
        commit_rule(ck, F, h, loop)
    except Unanalysable as e:
        ck.unanalysable('macroblock loop', str(e))
    # failed macroblock / block parses consume nothing
    ck.rule('T7', 'decode_macroblock, decode_block and their helpers are single transactions (shared with C05)')
    c05.t7_parsers_are_transactions(ck, F)
    ck.rule('T4', 'transaction wrappers roll back on failure (shared with C05)')
    c05.t4_wrappers(ck, F)
    # what commit() does to the position decides where the next picture starts: the helper forms of C14 (commit = drain(0..pos/8); pos %= 8, ...) re-run here
    from . import c14
    from ..report import Scoped
    s14 = Scoped(ck, 'C14.')
    c14.e_helper_forms(s14, F)
    c14.c_read_is_peek_then_skip(s14, F)
    # the callers skip `17 + stuffing` bits after recognize_start_code: it must be a pure look-ahead (C14 B) that reports the stuffing count of the 17-bit window (C14 F)
    c14.b_lookahead(s14, F)
    c14.f_start_code(s14, F)
    picture_start(ck, F)
    macroblock_count(ck, F)
    eof_classification(ck, F)
    # "the end of that picture's macroblock data" is where the macroblock and block layer syntax of 5.3 / 5.4 ends: a bit attributed to the wrong
    # syntax element (a DQUANT not read, a table with a wrong code length) leaves the reader inside or past the picture - the MB rules, re-run here
    from . import mblayer, c12
    mblayer.run_for(ck, F, 'MB.', ['tcoef', 'mcbpc_i', 'mcbpc_p', 'cbpy'], ['macroblock', 'dquant', 'mv', 'block'])
    c12.c_mvd_table(Scoped(ck, 'C12.'), F)
    # .. and where the picture layer ends: every header field with its width and presence condition (C06, whole); and the reads themselves deliver the
    # bits they consume (C14 A, G, H, W)
    from . import c06
    c06.run(Scoped(ck, 'C06.'), F, tier)
    c14.a_who_moves(s14, F); c14.g_vlc(s14, F); c14.h_msb_first(s14, F); c14.w_width_prologue(s14, F)
    c14.u_umv_code(s14, F)        # standard mode with unrestricted vectors: the Table D.3 code of a vector component
    # .. which is only the code the macroblock layer reads if decode_macroblock is handed the options in force for THIS picture (and its header): C02's rule D
    from . import c02
    c02.rule_d(Scoped(ck, 'C02.'), F)
