"""C16 - deblocking accepts every image size and strength; the strength table is Table J.2."""
import sys
from ..cfg import cfg_of
from ..dataflow import defs_of, callee_is, strip_ref, expr_of, expr_str, ematch, V, ANY, LEN, _expr_rv
from ..report import where_of, short_fn
from .. import tables
from . import panicfree, reader_rules as rr, c17
sys.setrecursionlimit(50000)

DB = 'h263_rs_deblock::deblock::'
TABLE_J2 = [0, 1, 1, 2, 2, 3, 3, 4, 4, 4, 5, 5, 6, 6, 7, 7, 7, 8, 8, 8, 9, 9, 9, 10, 10, 10, 11, 11, 11, 12, 12, 12]


def table_j2(ck, F):
    ck.rule('J2', 'QUANT_TO_STRENGTH (folded from its const MIR) has 32 entries and entries 1..31 equal Table J.2/H.263; all of them lie in 1..12, '
                  'the strength precondition of deblock()')
    name = DB + 'QUANT_TO_STRENGTH'
    b = F.body(name)
    v = tables.plain(tables.fold_const(F, name))
    bad = [(q, v[q] if q < len(v) else None, TABLE_J2[q]) for q in range(1, 32) if q >= len(v) or v[q] != TABLE_J2[q]]
    if len(v) != 32 or bad:
        ck.violation('J2', 'J2 : QUANT_TO_STRENGTH : entries', where_of(b), 'QUANT_TO_STRENGTH differs from Table J.2 at (quant, found, expected): %s (len %d)' % (bad[:6], len(v)))
    else:
        ck.ok('J2', 'QUANT_TO_STRENGTH[1..31] == Table J.2 (31 entries compared), range %d..%d' % (min(v[1:]), max(v[1:])), where_of(b))
        ck.sample({'rule': 'J2', 'table': v})
    if not bad and not all(1 <= x <= 12 for x in v[1:]):
        ck.violation('J2', 'J2 : QUANT_TO_STRENGTH : range', where_of(b), 'a table entry is outside 1..12')
    return v


def db1_horizontal_loop(ck, F):
    ck.rule('DB1', 'deblock_horiz: edge_y starts at 8 and advances by 8; the loop continues only while edge_y + 2 <= len/width; the four rows are obtained by '
                   'split_at_mut((edge_y - 2)*width) followed by four split_at_mut(width) on the remainders')
    b = F.body(DB + 'deblock_horiz'); g = cfg_of(b); D = defs_of(b)
    names = {v: int(k) for k, v in b.get('debug', {}).items()}
    if 'edge_y' not in names:
        ck.violation('DB1', 'DB1 : deblock_horiz : anchor', where_of(b), 'local edge_y not found'); return False
    E = names['edge_y']
    loops = {h: body for h, body in g.loops().items() if any(d[1] in body for d in D.defs.get(E, []))}
    if len(loops) != 1:
        ck.violation('DB1', 'DB1 : deblock_horiz : loop', where_of(b), 'expected one loop advancing edge_y'); return False
    h, body = list(loops.items())[0]
    ok = True
    defs = [(d[1] in body, _expr_rv(F, b, d[3]['rv'], 0, {})) for d in D.defs.get(E, []) if d[0] == 'assign']
    if sorted(defs, key=repr) != sorted([(False, ('c', 8)), (True, ('op', 'Add', ('multi', E), ('c', 8)))], key=repr):
        ck.violation('DB1', 'DB1 : deblock_horiz : edge_y updates', where_of(b, h), 'edge_y is not 8, +8 per iteration: %s' % defs); ok = False
    height = ('op', 'Div', LEN(('param', 1, ())), ('param', 2, ()))
    guard = None
    for bb in body:
        t = g.blocks[bb]['term']
        if t['t'] != 'switch' or t['on']['o'] == 'const': continue
        exits = [s for s in g.succ[bb] if s not in body]
        if not exits: continue
        e = expr_of(F, b, t['on'])
        arms = {int(v): to for v, to in t['arms']}
        stay_true = t['otherwise'] in body
        for pat in (('op', 'Le', ('op', 'Add', ('multi', E), ('c', 2)), height), ('op', 'Ge', height, ('op', 'Add', ('multi', E), ('c', 2))),
                    ('op', 'Lt', ('op', 'Add', ('multi', E), ('c', 1)), height)):
            if ematch(pat, e) is not None and stay_true: guard = bb
    if guard is None:
        ck.violation('DB1', 'DB1 : deblock_horiz : loop guard', where_of(b, h),
                     'the loop over horizontal edges is not guarded by `edge_y + 2 <= len/width` (an unsigned `height - 2` underflows for images with fewer than two rows)'); ok = False
    sp = rr.find_calls(F, b, 'split_at_mut')
    chain_ok = len(sp) == 5
    if chain_ok:
        first = ('op', 'Mul', ('op', 'Sub', ('multi', E), ('c', 2)), ('param', 2, ()))
        prev = ('param', 1, ())
        for i, (bb, t) in enumerate(sp):
            a0 = expr_of(F, b, t['args'][0]); a1 = expr_of(F, b, t['args'][1])
            want1 = first if i == 0 else ('param', 2, ())
            if ematch(want1, a1) is None or ematch(prev, a0) is None: chain_ok = False
            prev = ('fld', ('call', 'core::slice::<impl [T]>::split_at_mut', a0, a1), (1,))
            if guard is not None and not g.dominates(guard, bb): chain_ok = False
    if not chain_ok:
        ck.violation('DB1', 'DB1 : deblock_horiz : split chain', where_of(b, h), 'the four rows are not obtained by the recognised split_at_mut chain'); ok = False
    if ok: ck.ok('DB1', 'deblock_horiz: edge_y = 8,16,.. while edge_y + 2 <= height; rows A..D = 4 x width after (edge_y-2)*width', where_of(b, guard))
    return ok


def db2_vertical_octets(ck, F):
    ck.rule('DB2', 'deblock_vert: everything happens under width >= 10; the column helpers receive only the items of the zip of eight '
                   '`row_k[2..].chunks_exact_mut(8)` iterators (row_k = k-th width-sized piece of an 8*width chunk) and the constant columns 4..7')
    b = F.body(DB + 'deblock_vert'); g = cfg_of(b); D = defs_of(b)
    ok = True
    # width >= 10 dominates every call
    guard = None
    for bb in g.reach:
        t = g.blocks[bb]['term']
        if t['t'] == 'switch' and t['on']['o'] != 'const':
            e = expr_of(F, b, t['on'])
            if ematch(('op', 'Ge', ('param', 2, ()), ('c', 10)), e) is not None:
                guard = {int(v): to for v, to in t['arms']}.get(0) is not None and t['otherwise']
    calls = list(g.calls())
    if guard is None or not all(g.dominates(guard, bb) for bb, t in calls):
        ck.violation('DB2', 'DB2 : deblock_vert : width guard', where_of(b), 'not every operation of the vertical pass is under `width >= 10`'); ok = False
    def count(e, pred, acc):
        if isinstance(e, tuple) and e:
            if pred(e): acc.append(e)
            for x in e[1:]:
                if isinstance(x, tuple): count(x, pred, acc)
        return acc
    n = 0
    for bb, t in rr.find_calls(F, b, 'extract_column', 'set_column'):
        n += 1
        e = expr_of(F, b, t['args'][0])
        chunks = count(e, lambda x: x[0] == 'call' and x[1].endswith('chunks_exact_mut') and len(x) == 4 and x[3] == ('c', 8) and
                       x[2][0] == 'call' and 'index' in x[2][1] and x[2][3] == ('agg', 'RangeFrom', ('c', 2)), [])
        col = expr_of(F, b, t['args'][1])
        if len(chunks) != 8 or not (col[0] == 'c' and 4 <= col[1] <= 7) or 'zip' not in expr_str(e)[:200]:
            ok = False
            ck.violation('DB2', 'DB2 : deblock_vert : column helper argument', where_of(b, bb),
                         'a column helper is not fed from the zip of eight `[2..].chunks_exact_mut(8)` iterators with a column in 4..7 (found %d chunk sources, column %s)' % (len(chunks), expr_str(col)))
    if n != 8:
        ck.violation('DB2', 'DB2 : deblock_vert : helper calls', where_of(b), 'expected 8 column helper calls, found %d' % n); ok = False
    if ok: ck.ok('DB2', 'deblock_vert: 8 column-helper calls on 8-sample chunk octets, columns 4..7, all under width >= 10', where_of(b))
    return ok


def run(ck, F, tier):
    ck.explanation = ('C16 decided for all sizes and strengths by the same engine as C01 applied to deblock::deblock under its documented preconditions '
                      '(width >= 1, strength in 1..=12): every Assert / panicking call in the 15 bodies is discharged by the interval reading (split_at_mut '
                      'chains through symbolic multiples of `width`, chunk lengths, slice-length contracts) or is in the reviewed-safe table tied to the '
                      'structural rules DB1 (horizontal loop guard and split chain) and DB2 (vertical pass under width >= 10, 8-sample chunk octets); '
                      'all loops classified; the strength table is compared with Table J.2 entry by entry.')
    ck.assumptions += ['preconditions of deblock(): data.len() % width == 0 with width >= 1, strength in 1..=12 (its debug_asserts)',
                       'wide::i16x8 lane operators do not panic']
    table_j2(ck, F)
    mech = {'DB1': db1_horizontal_loop(ck, F), 'DB2': db2_vertical_octets(ck, F)}
    PA = panicfree.run_inventory(ck, F, [DB + 'deblock'], mech, scope=('deblock::',), floors={'sites': 80, 'functions': 12})
    panicfree.run_termination(ck, F, PA, 8)
    c17.rule_unsafe(ck, F)
    # the crate's debug_assert!s panic in builds with debug assertions (the test profile): the same inventory over the MIR built with debug assertions on, in
    # both tiers - the asserted strength range must be implied by the documented precondition 1..=12 (interval reading of `(lo..=hi).contains(&strength)`),
    # the other assertions are reviewed sites
    if not getattr(F, 'debug_assertions', False):
        from .. import facts as _facts
        from ..report import Scoped
        FD = _facts.load(debug_assertions=True)
        sd = Scoped(ck, 'dbg.')
        mech_d = {'DB1': db1_horizontal_loop(sd, FD), 'DB2': db2_vertical_octets(sd, FD)}
        panicfree.run_inventory(sd, FD, [DB + 'deblock'], mech_d, scope=('deblock::',), floors={'sites': 80, 'functions': 12})
