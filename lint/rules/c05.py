"""C05 - a failed decode changes nothing and can be retried.  Decided structurally (see DESIGN.md 6/C05)."""
from ..cfg import cfg_of
from ..dataflow import defs_of, callee_is, strip_ref
from ..callgraph import callgraph
from .. import effects
from ..report import where_of, short_fn
from ..facts import is_test_fn
from . import reader_rules as rr

DEC = 'h263_rs::decoder::state::H263State::decode_next_picture'
CLO = DEC + '::{closure#0}'


def t1_single_transaction(ck, F):
    ck.rule('T1', "decode_next_picture's body is exactly one with_transaction call on its reader whose result is returned")
    b = F.body(DEC); g = cfg_of(b); D = defs_of(b)
    calls = list(g.calls())
    wt = [(bb, t) for bb, t in calls if callee_is(F, t, 'H263Reader::<R>::with_transaction')]
    other = [(bb, t) for bb, t in calls if (bb, t) not in wt]
    if len(wt) != 1 or other:
        ck.violation('T1', 'T1 : decode_next_picture : shape', where_of(b),
                     'decode_next_picture contains %d with_transaction calls and %d other calls (%s)' % (len(wt), len(other), [F.callee_name(t) for _, t in other][:4]))
        return None
    bb, t = wt[0]
    ok = True
    if t['dest']['l'] != 0 or t['dest']['proj']:
        ck.violation('T1', 'T1 : decode_next_picture : result', where_of(b, bb), 'the transaction result is not returned directly'); ok = False
    ro = strip_ref(D.origin(t['args'][0]))
    if not (ro[0] == 'param' and ro[1] == 2):
        ck.violation('T1', 'T1 : decode_next_picture : reader', where_of(b, bb), 'the transaction is not opened on the `reader` parameter'); ok = False
    if CLO.split('::', 1)[1] not in t['f'].get('closures', []):
        ck.violation('T1', 'T1 : decode_next_picture : closure', where_of(b, bb), 'the transaction body is not the decode closure'); ok = False
    # no statement writes through self outside the closure
    for e in effects.analysis(F).of(DEC).effects:
        if e.kind == 'w' and e.loc[0] == ('param', 1) and e.via != CLO:
            ck.violation('T1', 'T1 : decode_next_picture : write outside transaction', where_of(b, e.bb), 'state written outside the transaction (%s)' % (e,)); ok = False
    if ok:
        ck.ok('T1', 'decode_next_picture = reader.with_transaction(closure#0), result returned', where_of(b, bb))
    return ok


def fail_sites(F, b):
    """(bb, idx_or_None, what): places where the function's return slot receives something that may be an Err."""
    g = cfg_of(b); out = []
    for bb in sorted(g.reach):
        blk = g.blocks[bb]
        for i, s in enumerate(blk['stmts']):
            if s['s'] == 'assign' and s['lhs']['l'] == 0 and not s['lhs']['proj']:
                rv = s['rv']
                if rv['r'] == 'agg' and rv['kind'].get('path') == 'std::result::Result' and rv['kind'].get('vname') == 'Ok':
                    continue
                out.append((bb, i, 'return slot := %s' % (rv['kind'].get('vname') if rv['r'] == 'agg' else rv['r']), s['span']))
        t = blk['term']
        if t['t'] == 'call' and t['dest']['l'] == 0 and not t['dest']['proj']:
            out.append((bb, None, 'return slot := %s(..)' % F.callee_name(t).split('>::')[-1][-40:], t['span']))
    return out


def t2_no_failure_after_write(ck, F):
    ck.rule('T2', 'in the decode closure no assignment of a possibly-Err value to the return slot is reachable from a write to *self '
                  'or from reader.commit(); T3: every callee before that section leaves *self untouched (mod/ref summaries)')
    b = F.body(CLO); g = cfg_of(b)
    be = effects.analysis(F).of(CLO)
    writes = []
    for e in be.effects:
        if e.kind != 'w': continue
        root, path = e.loc
        if root == ('param', 1) and path[:1] == (0,):
            writes.append((e.bb, 'self%s via %s' % (list(path[1:]), short_fn(e.via) if '::' in e.via else e.via), e))
    for bb, t in g.calls():
        if callee_is(F, t, 'H263Reader::<R>::commit'):
            writes.append((bb, 'reader.commit()', None))
    fails = fail_sites(F, b)
    ck.count('closure_state_write_sites', len(writes))
    ck.count('closure_fail_sites', len(fails))
    if not writes:
        ck.violation('T2', 'T2 : closure : no state write found', where_of(b), 'no write to *self found in the decode closure: the anchor moved'); return
    nviol = 0
    seen = set()
    for (wbb, wdesc, e) in writes:
        reach = g.reachable_from(g.succ[wbb])
        for (fbb, fi, fdesc, span) in fails:
            bad = fbb in reach
            if fbb == wbb and fi is None:
                bad = True       # the failing terminator follows the write in the same block
            if bad:
                k = 'T2 : closure : %s then %s' % (wdesc, fdesc)
                if k in seen: continue
                seen.add(k); nviol += 1
                ck.violation('T2', k, where_of(b, fbb, span),
                             'a failure exit (%s, line %s) is reachable after the state mutation `%s` (bb%d): an error return would leave changed state behind'
                             % (fdesc, span['line'], wdesc, wbb))
    if not nviol:
        first = min(w[0] for w in writes)
        ck.ok('T2', '%d state-write sites (%s); %d possibly-failing return assignments; none reachable after a write' % (
            len(writes), sorted({w[1] for w in writes})[:6], len(fails)), where_of(b, first))
        ck.sample({'rule': 'T2', 'writes': sorted({w[1] for w in writes}), 'fail_sites': len(fails)})
    ck.floor('fail sites (`?`/Err returns) in the decode closure', len(fails), 15)
    ck.floor('state write sites in the decode closure', len(writes), 5)


def t4_wrappers(ck, F):
    ck.rule('T4', 'with_transaction / _union / with_lookahead: checkpoint taken before the closure runs; rollback(checkpoint) on every '
                  'path where the result is not Ok / not Ok(Some) / on every path')
    rr.wrapper_rule(ck, F, 'T4', 'with_transaction', 'err')
    rr.wrapper_rule(ck, F, 'T4', 'with_transaction_union', 'union')
    rr.wrapper_rule(ck, F, 'T4', 'with_lookahead', 'always')
    # checkpoint() returns bits_read
    b = F.body(rr.RD + 'checkpoint'); D = defs_of(b)
    ds = [d for d in D.defs.get(0, []) if d[0] == 'assign']
    good = (len(ds) == 1 and ds[0][3]['rv']['r'] == 'use' and ds[0][3]['rv']['a']['o'] == 'copy'
            and strip_ref(D.origin(ds[0][3]['rv']['a']))[0] == 'param' and [e['i'] for e in ds[0][3]['rv']['a']['p']['proj'] if e['p'] == 'field'] == [rr.F_BITS])
    if good: ck.ok('T4', 'checkpoint() = self.bits_read', where_of(b))
    else: ck.violation('T4', 'T4 : checkpoint : value', where_of(b), 'checkpoint() does not return self.bits_read')


def t5_reader_fields(ck, F):
    ck.rule('T5', 'rollback only assigns bits_read (to its argument); buffer is appended only in buffer_bytes and drained only in commit; '
                  'source is touched only in buffer_bytes; commit is called only from the decode closure')
    rr.reader_field_indices(F)
    EA = effects.analysis(F)
    rb = F.body(rr.RD + 'rollback'); D = defs_of(rb)
    ws = {(e.loc, e.via) for e in EA.of(rr.RD + 'rollback').effects if e.kind == 'w' and e.loc[0][0] == 'param'}
    if {w[0] for w in ws} == {(('param', 1), (rr.F_BITS,))}:
        # value written is the parameter
        st = [s for bb in cfg_of(rb).reach for s in rb['blocks'][bb]['stmts'] if s['s'] == 'assign' and s['lhs']['proj'] and [e['i'] for e in s['lhs']['proj'] if e['p'] == 'field'] == [rr.F_BITS]]
        o = D.origin(st[0]['rv']['a']) if st and st[0]['rv']['r'] == 'use' else None
        if len(st) == 1 and o and o[0] == 'param' and o[1] == 2 and not o[2]:
            ck.ok('T5', 'rollback: only write is bits_read := checkpoint', where_of(rb))
        else:
            ck.violation('T5', 'T5 : rollback : value', where_of(rb), 'rollback does not assign its argument to bits_read')
    else:
        ck.violation('T5', 'T5 : rollback : write set', where_of(rb), 'rollback writes %s' % sorted(ws, key=repr))
    _, _ = rr.who_may_write_rule(ck, F, 'T5', rr.F_BUFFER, 'buffer', {'buffer_bytes', 'commit', 'from_source'})
    _, _ = rr.who_may_write_rule(ck, F, 'T5', rr.F_SOURCE, 'source', {'buffer_bytes', 'from_source'})
    # the position: checkpoints are absolute offsets into the retained buffer, so nothing but skip_bits (forward), rollback (to a checkpoint) and commit
    # (with the drain) may move it, and nothing but commit may take bytes off the buffer - an open transaction's checkpoint would silently go stale
    _, _ = rr.who_may_write_rule(ck, F, 'T5', rr.F_BITS, 'bits_read', {'skip_bits', 'rollback', 'commit', 'from_source'})
    SHRINK = ('::pop_front', '::pop_back', '::drain', '::clear', '::truncate', '::remove', '::split_off', '::retain', '::retain_mut', '::resize', '::swap_remove_back', '::swap_remove_front')
    shr = []
    for n, b_ in sorted(F.bodies.items()):
        if not n.startswith('h263_rs::parser::reader::'): continue
        for bi, blk in enumerate(b_['blocks']):
            t = blk['term']
            if t['t'] != 'call': continue
            cn = F.callee_name(t).split('#')[0]
            if 'VecDeque' in cn and cn.endswith(SHRINK): shr.append((n, bi, cn.rsplit('::', 1)[-1]))
    from ..facts import is_test_fn as _itf
    shr = [x for x in shr if not _itf(x[0])]
    bad_shr = [x for x in shr if short_fn(x[0]).split('::')[-1] != 'commit']
    if bad_shr:
        n, bi, m = bad_shr[0]
        ck.violation('T5', 'T5 : buffer shrunk by %s' % short_fn(n), where_of(F.bodies[n], bi), 'the retained buffer loses bytes in %s (%s); only commit may drop bytes, and only whole consumed bytes together with the position' % (short_fn(n), m))
    else:
        ck.ok('T5', 'bytes leave the retained buffer only in commit (%s)' % sorted({m for _, _, m in shr}), where_of(F.body(rr.RD + 'commit')))
    ck.floor('buffer shrinking call sites', len(shr), 1)
    cs = rr.callers_of(F, rr.RD + 'commit')
    for caller, bb in cs:
        if caller == CLO:
            ck.ok('T5', 'commit called from the decode closure', where_of(F.bodies[caller], bb))
        else:
            ck.violation('T5', 'T5 : commit called by %s' % short_fn(caller), where_of(F.bodies[caller], bb),
                         'reader.commit() (which invalidates checkpoints) is called from %s; only the decode closure may, after its last fallible step' % short_fn(caller))
    ck.floor('commit call sites', len(cs), 1)


def t6_retry_granularity(ck, F):
    ck.rule('T6', 'buffer_bytes reads one byte at a time into a local 1-byte array and pushes every byte obtained before the next fallible step')
    b = F.body(rr.RD + 'buffer_bytes'); g = cfg_of(b); D = defs_of(b)
    reads = rr.find_calls(F, b, 'std::io::Read::read_exact')
    pushes = rr.find_calls(F, b, 'VecDeque::<T, A>::push_back')
    key = 'T6 : buffer_bytes'
    if len(reads) != 1 or len(pushes) != 1:
        ck.violation('T6', key + ' : shape', where_of(b), 'expected one read_exact and one push_back, found %d / %d' % (len(reads), len(pushes))); return
    (rbb, rt), (pbb, pt) = reads[0], pushes[0]
    ok = True
    # buffer argument derives from a local array of length 1
    bo = strip_ref(D.origin(rt['args'][1]))
    arr_local = None
    if bo[0] == 'call' and callee_is(F, bo[2], 'index_mut'):
        ao = strip_ref(D.origin(bo[2]['args'][0]))
        if ao[0] in ('multi', 'rv'):
            arr_local = ao[1] if ao[0] == 'multi' else ao[2]['lhs']['l']
    elif bo[0] in ('multi', 'rv'):
        arr_local = bo[1] if bo[0] == 'multi' else bo[2]['lhs']['l']
    one_byte_local = False
    if bo[0] == 'call' and callee_is(F, bo[2], 'slice::from_mut') and len(bo[2]['args']) == 1:
        # `slice::from_mut(&mut byte)` over a local u8: the other spelling of a local 1-byte buffer
        a0 = bo[2]['args'][0]
        for _ in range(6):
            if a0.get('o') not in ('copy', 'move') or a0['p'].get('proj'): break
            ds = [s_ for blk in b['blocks'] for s_ in blk['stmts'] if s_['s'] == 'assign' and s_['lhs']['l'] == a0['p']['l'] and not s_['lhs'].get('proj')]
            if len(ds) != 1: break
            rv_ = ds[0]['rv']
            if rv_['r'] == 'ref' and [e_.get('p') for e_ in rv_['p'].get('proj', [])] == ['deref']:      # reborrow `&mut *r`
                a0 = {'o': 'copy', 'p': {'l': rv_['p']['l'], 'proj': []}}; continue
            if rv_['r'] == 'ref' and not rv_['p'].get('proj'):
                lt_ = b['locals'][rv_['p']['l']]['t']
                if lt_.get('k') == 'int' and lt_.get('bits') == 8: arr_local = rv_['p']['l']; one_byte_local = True
                break
            if rv_['r'] == 'use': a0 = rv_['a']; continue
            break
    lt = b['locals'][arr_local]['t'] if arr_local is not None else None
    if not (one_byte_local or (lt and lt['k'] == 'array' and lt['len'] == 1)):
        ck.violation('T6', key + ' : read size', where_of(b, rbb), 'read_exact is not given a local 1-byte buffer (a short read could lose bytes already taken from the source)'); ok = False
    # after a successful read, push_back happens before the loop header is reached again / before return
    loops = g.loops()
    hdr = [h for h, body in loops.items() if rbb in body]
    if not hdr:
        ck.violation('T6', key + ' : no loop', where_of(b), 'read_exact is not in a loop'); ok = False
    else:
        h = hdr[0]
        # from the read's continuation, any path to the header or to an exit that is not the `?` failure must pass push_back
        seen = set(); st = [rt['to']]; bypass = None
        fails = {bb for (bb, i, d, sp) in __import__('lint.rules.c05', fromlist=['x']).fail_sites(F, b)}
        while st:
            x = st.pop()
            if x in seen or x == pbb: continue
            seen.add(x)
            if x == h: bypass = x; break
            if x in fails: continue
            st.extend(g.succ[x])
        if bypass is not None:
            ck.violation('T6', key + ' : byte dropped', where_of(b, rbb), 'a path from a successful read_exact back to the loop header avoids push_back'); ok = False
        # what is pushed is the byte just read: the operand is a copy of the buffer local (its element 0)
        a1 = pt['args'][1]; pushed = None
        for _ in range(6):
            if a1.get('o') not in ('copy', 'move'): break
            if a1['p']['l'] == arr_local: pushed = a1['p']; break
            if a1['p'].get('proj'): break
            ds = [s_ for blk in b['blocks'] for s_ in blk['stmts'] if s_['s'] == 'assign' and s_['lhs']['l'] == a1['p']['l'] and not s_['lhs'].get('proj')]
            if len(ds) != 1 or ds[0]['rv']['r'] != 'use': break
            a1 = ds[0]['rv']['a']
        if arr_local is not None and pushed is None:
            ck.violation('T6', key + ' : pushed byte', where_of(b, pbb), 'push_back does not push the byte that read_exact has just filled in'); ok = False
    if ok:
        ck.ok('T6', 'buffer_bytes: read_exact(&mut [u8;1]) then push_back on the success path, per byte', where_of(b, rbb))


def t7_parsers_are_transactions(ck, F):
    ck.rule('T7', 'every parser function (parser::{picture,gob,macroblock,block}) is a single transaction whose result is returned; every '
                  'reader-consuming primitive call outside parser::reader sits inside a closure passed to a transaction wrapper')
    cg = callgraph(F)
    nparsers = 0; nsites = 0
    wrapped_closures = set()
    for name, b in F.bodies.items():
        if is_test_fn(name) or b['crate'] != 'h263_rs': continue
        for bb, t in cfg_of(b).calls():
            if callee_is(F, t, *['H263Reader::<R>::' + w for w in rr.WRAPPERS]):
                for c in t['f'].get('closures', []):
                    wrapped_closures.add('h263_rs::' + c)
    for name, b in sorted(F.bodies.items()):
        if is_test_fn(name) or b['kind'] != 'Fn': continue
        if not any(name.startswith('h263_rs::parser::%s::' % m) for m in ('picture', 'gob', 'macroblock', 'block')): continue
        g = cfg_of(b)
        calls = list(g.calls())
        wt = [(bb, t) for bb, t in calls if callee_is(F, t, 'H263Reader::<R>::with_transaction', 'H263Reader::<R>::with_transaction_union')]
        nparsers += 1
        if len(wt) == 1 and len(calls) == 1 and wt[0][1]['dest']['l'] == 0:
            ck.ok('T7', '%s: single transaction' % short_fn(name), where_of(b, wt[0][0]))
        else:
            ck.violation('T7', 'T7 : %s : not a single transaction' % short_fn(name), where_of(b),
                         '%s: %d transaction calls among %d calls (partial consumption on failure becomes possible)' % (short_fn(name), len(wt), len(calls)))
    # primitive sites
    for name, b in sorted(F.bodies.items()):
        if is_test_fn(name) or b['crate'] != 'h263_rs' or name.startswith('h263_rs::parser::reader::'): continue
        for bb, t in cfg_of(b).calls():
            if callee_is(F, t, *['H263Reader::<R>::' + c for c in rr.CONSUMING]):
                nsites += 1
                if name in wrapped_closures:
                    ck.ok('T7', '%s: %s inside a transaction closure' % (short_fn(name), F.callee_name(t).split('::')[-1]), where_of(b, bb), nontrivial=False)
                else:
                    ck.violation('T7', 'T7 : %s : bare %s' % (short_fn(name), F.callee_name(t).split('::')[-1]), where_of(b, bb),
                                 '%s consumes input with %s outside any transaction closure' % (short_fn(name), F.callee_name(t).split('::')[-1]))
    ck.count('parser_functions', nparsers); ck.count('consuming_sites_outside_reader', nsites)
    ck.floor('parser functions that are one transaction', nparsers, 23)
    ck.floor('reader-consuming call sites outside parser::reader', nsites, 62)


def run(ck, F, tier):
    ck.explanation = ('C05 decided structurally on MIR: T1 decode_next_picture is one reader transaction; T2/T3 in the decode closure no '
                      'possibly-Err assignment to the return slot is CFG-reachable from any write to *self (direct or via callee mod/ref '
                      'summaries) or from commit(); T4 the three transaction wrappers roll back to the checkpoint on exactly the failing '
                      'paths; T5 who-may-write the reader fields / who-may-call commit; T6 byte-wise refill; T7 all parser functions '
                      'are single transactions. The behavioural clause "a retry after more data behaves as if all data had been present" '
                      'is decided only through these necessary conditions.')
    ck.assumptions += ['Read::read_exact on the caller-supplied source either fills the 1-byte buffer or returns Err without consuming',
                       'no interior mutability in H263State (C17 S5), so &self callees cannot write it']
    t1_single_transaction(ck, F)
    t2_no_failure_after_write(ck, F)
    t4_wrappers(ck, F)
    t5_reader_fields(ck, F)
    t6_retry_granularity(ck, F)
    t7_parsers_are_transactions(ck, F)
    # "the bit reader is positioned where it was": what rollback / commit / skip do to the position (C14 A: who moves it and by how much; C14 E: the forms of
    # rollback, commit, ensure_bits and the other helpers)
    from . import c14
    from ..report import Scoped
    s14 = Scoped(ck, 'C14.')
    c14.a_who_moves(s14, F); c14.e_helper_forms(s14, F)
    # "a call that failed only for lack of data ... leaves everything unchanged": lack of data must FAIL the call unless it is the end of the data - the
    # only condition that ends a picture early and still succeeds is io::ErrorKind::UnexpectedEof (C15's rule EK); a source that merely has nothing yet
    # (WouldBlock, Interrupted, ...) must not be taken for the end of the picture, or a truncated picture is committed
    from . import c15
    c15.eof_classification(Scoped(ck, 'C15.'), F)
