"""C11 - dequantisation is exact and saturating over the whole quantizer x level domain; INTRADC; DQUANT."""
from ..cfg import cfg_of
from ..dataflow import defs_of, callee_is, strip_ref, expr_of, expr_of_place, expr_str, ematch, V, ANY, _expr_rv
from ..canon import TreeBuilder, canon, from_expr, show, leaves, TooComplex
from ..cprop import Folder, Unknown
from ..panic import PanicAnalysis
from ..report import where_of, short_fn
from ..facts import Unanalysable
from . import reader_rules as rr

RLE = 'h263_rs::decoder::cpu::rle::inverse_rle'


def spec_dequant(L, Q):
    def op(o, x, y): return ('op', o, x, y)
    parity = ('ite', op('Eq', op('Rem', Q, ('c', 2)), ('c', 1)), ('c', 0), ('c', -1))
    mag = op('Add', op('Mul', Q, op('Add', op('Mul', ('c', 2), ('call', 'abs', L)), ('c', 1))), parity)
    return ('call', 'clamp', op('Mul', ('call', 'sgn', L), mag), ('c', -2048), ('c', 2047))


def a_formula(ck, F):
    ck.rule('A', 'the coefficient stored by inverse_rle canonicalises to clamp(sgn(L)*(Q*(2|L|+1) - [Q even]), -2048, 2047) with L = tcoef.level, Q = quant; '
                 'its only inputs are L and Q (position independence); it is stored at block_data[zig_y][zig_x]')
    b = F.body(RLE); g = cfg_of(b); D = defs_of(b)
    names = {v: int(k) for k, v in b.get('debug', {}).items()}
    if 'tcoef' not in names or 'block_data' not in names:
        ck.unanalysable('inverse_rle anchors', 'locals tcoef / block_data not found'); return
    tc = names['tcoef']; bd = names['block_data']
    a = F.adt('h263_rs::types::TCoefficient')
    fidx = {f['name']: i for i, f in enumerate(a['variants'][0]['fields'])}
    Ltree = from_expr(F, b, expr_of_place(F, b, {'l': tc, 'proj': [{'p': 'deref'}, {'p': 'field', 'i': fidx['level']}]}))
    Q = ('in', 'arg5')
    stores = []
    for bb in sorted(g.reach):
        for s in g.blocks[bb]['stmts']:
            if s['s'] == 'assign' and s['lhs']['l'] == bd and len([e for e in s['lhs']['proj'] if e['p'] == 'index']) == 2:
                ix = [expr_str(expr_of(F, b, {'o': 'copy', 'p': {'l': e['l'], 'proj': []}})) for e in s['lhs']['proj'] if e['p'] == 'index']
                if all('DEZIGZAG_MAPPING' in x for x in ix):
                    stores.append((bb, s))
    if len(stores) != 1:
        ck.violation('A', 'A : inverse_rle : coefficient store', where_of(b), 'expected one store block_data[..][..] = value inside the coefficient loop, found %d' % len(stores)); return
    bb, s = stores[0]
    val = from_expr(F, b, expr_of(F, b, s['rv']['a']) if s['rv']['r'] == 'use' else _expr_rv(F, b, s['rv'], 0, {}))
    got = canon(val)
    want = canon(spec_dequant(Ltree, Q))
    tab = None
    if got != want:
        # not the same canonical form: the domain is finite (Q in 0..31, L in -1024..1023), so decide equality of the two expression trees on it
        tab = _tabulate_equal(val, spec_dequant(Ltree, Q), Ltree, Q)
    if got == want or tab is None:
        ck.ok('A', 'coefficient = clamp(sgn(L)*(Q*(2|L|+1) - [Q even]), -2048, 2047)' + ('' if got == want else ' (another spelling; equal on all 32 x 2048 (Q, L) pairs)'), where_of(b, bb, s['span']))
    else:
        ck.violation('A', 'A : inverse_rle : dequantisation formula', where_of(b, bb, s['span']),
                     'inverse_rle stores %s ; H.263 6.2.1 reconstruction is %s' % (show(got)[:500], show(want)[:500]))
    lv = {x for x in leaves(got)}
    extra = [x for x in lv if x not in leaves(canon(Ltree)) and x != Q]
    if extra:
        ck.violation('A', 'A : inverse_rle : extra inputs', where_of(b, bb, s['span']), 'the coefficient also depends on %s' % extra)
    # index order: first index from component 1 (y), second from component 0 (x) of DEZIGZAG_MAPPING[zigzag_index]
    idx = [e for e in s['lhs']['proj'] if e['p'] == 'index']
    comps = []
    for e in idx:
        ex = expr_of(F, b, {'o': 'copy', 'p': {'l': e['l'], 'proj': []}})
        while ex[0] == 'cast': ex = ex[2]
        if ex[0] == 'fld' and ex[1][0] == 'item' and ex[1][1].endswith('DEZIGZAG_MAPPING') and isinstance(ex[2][-1], int): comps.append(ex[2][-1])
        elif ex[0] == 'fld' and isinstance(ex[2][-1], int): comps.append(ex[2][-1])
        else: comps.append(None)
    if comps == [1, 0]:
        ck.ok('A', 'stored at block_data[zig_y][zig_x] (row from the y component)', where_of(b, bb, s['span']))
    else:
        ck.violation('A', 'A : inverse_rle : index order', where_of(b, bb, s['span']), 'block_data is indexed with DEZIGZAG components %s, expected [y, x] = [1, 0]' % comps)


def _ev_tree(e, env):
    """value of a canon-input expression tree on integers (Rust semantics for the casts; None = not evaluable)"""
    k = e[0]
    if e in env: return env[e]
    if k == 'c': return e[1] if isinstance(e[1], int) and not isinstance(e[1], bool) else (int(e[1]) if isinstance(e[1], bool) else None)
    if k == 'cast':
        v = _ev_tree(e[2], env)
        if v is None: return None
        ty = e[1]
        bits = {'u8': 8, 'u16': 16, 'u32': 32, 'u64': 64, 'usize': 64, 'i8': 8, 'i16': 16, 'i32': 32, 'i64': 64, 'isize': 64}.get(ty)
        if bits is None: return None
        v &= (1 << bits) - 1
        if ty[0] == 'i' and v >> (bits - 1): v -= 1 << bits
        return v
    if k == 'ite':
        c = _ev_tree(e[1], env)
        return None if c is None else _ev_tree(e[2] if c else e[3], env)
    if k == 'op' and len(e) == 4:
        a, c = _ev_tree(e[2], env), _ev_tree(e[3], env)
        if a is None or c is None: return None
        op = e[1].replace('WithOverflow', '').replace('Unchecked', '')
        try:
            f = {'Add': lambda: a + c, 'Sub': lambda: a - c, 'Mul': lambda: a * c, 'BitAnd': lambda: a & c, 'BitOr': lambda: a | c, 'BitXor': lambda: a ^ c,
                 'Shl': lambda: a << c, 'Shr': lambda: a >> c, 'Eq': lambda: int(a == c), 'Ne': lambda: int(a != c), 'Lt': lambda: int(a < c), 'Le': lambda: int(a <= c),
                 'Gt': lambda: int(a > c), 'Ge': lambda: int(a >= c),
                 'Div': lambda: (abs(a) // abs(c)) * (1 if (a >= 0) == (c >= 0) else -1), 'Rem': lambda: a - c * ((abs(a) // abs(c)) * (1 if (a >= 0) == (c >= 0) else -1))}.get(op)
            return None if f is None else f()
        except (ZeroDivisionError, ValueError): return None
    if k == 'un' and len(e) == 3:
        a = _ev_tree(e[2], env)
        if a is None: return None
        return {'Neg': -a, 'Not': int(not a) if a in (0, 1) else ~a}.get(e[1])
    if k == 'call':
        args = [_ev_tree(x, env) for x in e[2:]]
        if any(x is None for x in args): return None
        n = e[1]
        if n == 'abs': return abs(args[0])
        if n == 'sgn': return (args[0] > 0) - (args[0] < 0)
        if n == 'clamp' and len(args) == 3: return max(args[1], min(args[2], args[0]))
        if n == 'min': return min(args)
        if n == 'max': return max(args)
        if n in ('Mul', 'Add', 'Sub'): return {'Mul': args[0] * args[1], 'Add': args[0] + args[1], 'Sub': args[0] - args[1]}[n]
    return None


def _tabulate_equal(got, want, Ltree, Q):
    """None when the two trees agree for every quantizer 0..31 and level -1024..1023; else a description of the first difference"""
    def subst(e):
        # the level leaf appears under a cast in the code (level as i32): evaluate it through env on the canonical level tree
        return e
    for q in range(0, 32):
        for l in range(-1024, 1024):
            env = {Ltree: l, Q: q}
            a, c = _ev_tree(got, env), _ev_tree(want, env)
            if a is None or c is None: return 'not evaluable at Q=%d, L=%d' % (q, l)
            if a != c: return 'Q=%d, L=%d: %d, the reconstruction formula gives %d' % (q, l, a, c)
    return None


def b_no_overflow(ck, F):
    ck.rule('B', 'no arithmetic in inverse_rle can overflow, and no narrowing / sign-changing `as` cast can change a value, for quant in [0,31] and level in [-1024,1023] '
                 '(interval reading; both ranges are contracts checked at their producers)')
    PA = PanicAnalysis(F, ['h263_rs::decoder::state::H263State::decode_next_picture'])
    n = 0; bad = 0
    for s in PA.sites:
        if s.fn == RLE and (s.kind.startswith('assert:overflow') or s.kind.startswith('cast:')):
            n += 1
            if not s.ok:
                bad += 1
                ck.violation('B', 'B : inverse_rle : %s : %s' % (s.kind, s.fp), {'file': s.span['file'], 'line': s.span['line'], 'function': s.fn},
                             ('dequantisation arithmetic may overflow: %s with operand ranges %s' if s.kind.startswith('assert') else
                              'a narrowing cast in the dequantisation can change the value: %s with operand range %s') % (s.kind, s.ops))
            else:
                ck.ok('B', '%s %s within range for the whole domain' % (s.kind, s.fp[:80]), {'file': s.span['file'], 'line': s.span['line']})
    # the contracts themselves (quant, level) are established by their producers
    for s in PA.sites:
        if s.kind.startswith('contract:') and 'inverse_rle:param5' in s.kind:
            if s.ok: ck.ok('B', 'call site establishes quant in [0,31]: %s' % s.ops, {'file': s.span['file'], 'line': s.span['line']})
            else: ck.violation('B', 'B : quant contract : %s' % short_fn(s.fn), {'file': s.span['file'], 'line': s.span['line']}, s.why)
    for (fn, adt, fi, val, spec) in PA.ctx.field_viol:
        if 'TCoefficient' in adt:
            ck.violation('B', 'B : level contract : %s' % short_fn(fn), None, '%s stores level %s outside [-1024, 1023]' % (short_fn(fn), val))
    ck.floor('overflow sites in inverse_rle', n, 6)


def b2_escape_widths(ck, F):
    ck.rule('W', 'escape coefficients: LAST = read_bits(1), RUN = read_bits(6), LEVEL = read_signed_bits(w) with w in {7, 11} chosen by one bit exactly when the '
                 'stream is Sorenson version 1, else w = 8')
    b = F.body('h263_rs::parser::block::decode_block::{closure#0}'); g = cfg_of(b); D = defs_of(b)
    names = {v: int(k) for k, v in b.get('debug', {}).items()}
    if 'level_width' not in names:
        ck.unanalysable('decode_block anchors', 'local level_width not found'); return
    lw = names['level_width']
    defs = D.defs.get(lw, [])
    vals = {}
    for d in defs:
        e = _expr_rv(F, b, d[3]['rv'], 0, {}) if d[0] == 'assign' else None
        vals[d[1]] = e
    consts = sorted(e[1] for e in vals.values() if e and e[0] == 'c')
    ok = consts == [7, 8, 11] and len(vals) == 3
    cd = g.control_deps()
    def conds(bb):
        out = []
        seen = set(); st = [bb]
        while st:
            x = st.pop()
            for (a, s) in cd.get(x, ()):
                if (a, s) in seen: continue
                seen.add((a, s))
                t = g.blocks[a]['term']
                arms = {to: int(v) for v, to in t['arms']}
                out.append((expr_str(expr_of(F, b, t['on']), b.get('debug', {})), arms.get(s, 'other')))
                st.append(a)
        return out
    if ok:
        by = {vals[bb][1]: conds(bb) for bb in vals}
        def has(cs, frag, val=None): return any(frag in c and (val is None or v == val) for c, v in cs)
        one_bit_11 = any('read_bits' in c and ', 1)' in c and v != 0 for c, v in by[11] if 'Eq(' in c) or has(by[11], 'Eq(')
        sor = all(has(by[k], 'contains(') for k in (7, 11)) and has(by[8], 'contains(') or has(by[8], 'version')
        bit_cond = [c for c, v in by[11] if 'read_bits' in c and 'Eq' in c]
        bit_cond7 = [c for c, v in by[7] if 'read_bits' in c and 'Eq' in c]
        if not (bit_cond and bit_cond == bit_cond7 and any('SORENSON' in c or 'contains' in c for c, v in by[11])):
            ok = False
    # level / run / last reads
    reads = {}
    for bb, t in g.calls():
        if callee_is(F, t, 'H263Reader::<R>::read_signed_bits'):
            reads['level'] = expr_of(F, b, t['args'][1])
        if callee_is(F, t, 'H263Reader::<R>::read_bits'):
            e = expr_of(F, b, t['args'][1])
            reads.setdefault('bits', []).append(e)
    if reads.get('level') != ('multi', lw): ok = False
    if ('c', 6) not in reads.get('bits', []): ok = False
    if ok:
        ck.ok('W', 'level_width in {7, 11} by one bit under Sorenson version 1, else 8; LEVEL = read_signed_bits(level_width), RUN = read_bits(6)', where_of(b))
    else:
        ck.violation('W', 'W : decode_block : escape widths', where_of(b), 'escape level width assignments are %s (expected 7/11 by one bit for Sorenson v1, else 8)' % consts)


def c_intradc(ck, F):
    ck.rule('C', 'IntraDc::from_u8 rejects exactly the codes 0 and 128; into_level is 8*v for v != 255 and 1024 for 255 (folded over all 256 codes); '
                 'decode_block turns a rejected code into Err(InvalidIntraDc)')
    fo = Folder(F)
    a = F.adt('h263_rs::types::IntraDc')
    bad = []
    for v in range(256):
        try:
            r = fo.call('h263_rs::types::IntraDc::from_u8', [('int', v, 8, False)])
        except Unknown as e:
            bad.append('from_u8(%d): %s' % (v, e)); break
        is_none = r[0] == 'enum' and r[2] == 0
        if is_none != (v in (0, 128)):
            bad.append('from_u8(%d) -> %s' % (v, 'None' if is_none else 'Some')); continue
        if not is_none:
            try:
                lv = fo.call('h263_rs::types::IntraDc::into_level', [r[3][0]])
            except Unknown as e:
                bad.append('into_level(%d): %s' % (v, e)); break
            want = 1024 if v == 255 else 8 * v
            if lv[0] != 'int' or lv[1] != want: bad.append('into_level(%d) = %s, expected %d' % (v, lv[1:2], want))
    b = F.body('h263_rs::types::IntraDc::from_u8')
    if bad: ck.violation('C', 'C : IntraDc : table', where_of(b), 'INTRADC mapping wrong: %s' % '; '.join(bad[:6]))
    else: ck.ok('C', 'IntraDc: 256 codes folded: {0,128} rejected, 254 codes -> 8*v, 255 -> 1024', where_of(b))
    # decode_block: intradc = Some(IntraDc::from_u8(read_u8()?).ok_or(InvalidIntraDc)?)
    b = F.body('h263_rs::parser::block::decode_block::{closure#0}'); g = cfg_of(b)
    fu = rr.find_calls(F, b, 'IntraDc::from_u8'); okor = rr.find_calls(F, b, 'Option::<T>::ok_or')
    good = False
    if len(fu) == 1:
        e = expr_of(F, b, fu[0][1]['args'][0])
        src_ok = ematch(('fld', ('callp', 'Try>::branch', ('callp', '::read_u8', ANY)), (('as', 0), 0)), e) is not None
        for bb, t in okor:
            e0 = expr_of(F, b, t['args'][0]); e1 = expr_of(F, b, t['args'][1])
            if e0[0] == 'call' and e0[1].endswith('from_u8') and e1 == ('agg', 'InvalidIntraDc'): good = src_ok
    if good: ck.ok('C', 'decode_block: INTRADC = from_u8(read_u8()?).ok_or(InvalidIntraDc)?', where_of(b, fu[0][0]))
    else: ck.violation('C', 'C : decode_block : INTRADC validation', where_of(b), 'decode_block does not validate the INTRADC code through IntraDc::from_u8(..).ok_or(InvalidIntraDc)')


def d_dquant(ck, F):
    ck.rule('D', 'decode_dquant maps the 2-bit code 0,1,2,3 to -1,-2,+1,+2; the quantizer update is clamp(q + dquant, 1, 31) computed in i8 (no overflow: C01)')
    try:
        r, st = TreeBuilder(F).function('h263_rs::parser::macroblock::decode_dquant::{closure#0}')
    except TooComplex as e:
        ck.unanalysable('decode_dquant', str(e)); return
    b = F.body('h263_rs::parser::macroblock::decode_dquant::{closure#0}')
    table = {}
    def walk(t):
        if t[0] == 'ite':
            c = t[1]
            if c[0] == 'op' and c[1] == 'Eq' and c[3][0] == 'c':
                src = c[2]
                if 'read_bits' in repr(src) and "('c', 2)" in repr(src) and src[0] == 'fld':
                    if t[2][0] == 'agg' and t[2][1] == 'Result::Ok' and t[2][2][0] == 'c': table[c[3][1]] = t[2][2][1]
            walk(t[2]); walk(t[3])
    walk(r)
    # the last arm is the `otherwise` of the chain: find Ok(c) leaves not yet seen
    def leaves_ok(t, acc):
        if t[0] == 'ite': leaves_ok(t[2], acc); leaves_ok(t[3], acc)
        elif t[0] == 'agg' and t[1] == 'Result::Ok' and t[2][0] == 'c': acc.append(t[2][1])
        return acc
    oks = leaves_ok(r, [])
    want = {0: -1, 1: -2, 2: 1, 3: 2}
    got = dict(table)
    if got == want:
        ck.ok('D', 'decode_dquant: read_bits(2) -> {0:-1, 1:-2, 2:+1, 3:+2}', where_of(b))
    else:
        ck.violation('D', 'D : decode_dquant : table', where_of(b), 'DQUANT table is %s (Ok leaves %s), expected %s' % (got, oks, want))
    # update in the decode closure
    b = F.body('h263_rs::decoder::state::H263State::decode_next_picture::{closure#0}'); g = cfg_of(b); D = defs_of(b)
    names = {v: int(k) for k, v in b.get('debug', {}).items()}
    q = names.get('in_force_quantizer')
    found = False
    for d in D.defs.get(q, []):
        if d[0] != 'assign': continue
        e = _expr_rv(F, b, d[3]['rv'], 0, {})
        pat = ('callp', '::clamp', ('op', 'Add', ('multi', q), ('callp', '::unwrap_or', ANY, ('c', 0))), ('c', 1), ('c', 31))
        if ematch(pat, e) is not None:
            found = True
            ck.ok('D', 'in_force_quantizer := clamp(in_force_quantizer + dquant.unwrap_or(0), 1, 31)', where_of(b, d[1], d[3]['span']))
    if not found:
        ck.violation('D', 'D : closure : quantizer update', where_of(b), 'no update of the form clamp(q + dquant, 1, 31) found for in_force_quantizer')
    quant_update_table(ck, F)


INT_TYPES = {'i8': (8, True), 'i16': (16, True), 'i32': (32, True), 'i64': (64, True), 'isize': (64, True), 'u8': (8, False), 'u16': (16, False), 'u32': (32, False), 'u64': (64, False), 'usize': (64, False)}


class Overflow(Exception):
    pass


def _wrap(v, ty):
    bits, signed = INT_TYPES[ty]
    v &= (1 << bits) - 1
    if signed and v >= 1 << (bits - 1): v -= 1 << bits
    return v


def eval_int(e, env, ty=None):
    """value of a def-use expression on concrete integers with Rust integer semantics: `as` casts wrap to the target type, arithmetic that leaves the
    operand type raises Overflow.  Returns (value, type).  (A finite table of a closed form; nothing of /repo is executed.)"""
    k = e[0]
    if k == 'c': return e[1], ty
    if e in env: return env[e]
    if k == 'cast':
        v, t0 = eval_int(e[2], env)
        if e[1] not in INT_TYPES: raise Unanalysable('cast to %s' % e[1])
        return _wrap(v, e[1]), e[1]
    if k == 'op' and e[1] in ('Add', 'Sub', 'AddWithOverflow', 'SubWithOverflow'):
        a, ta = eval_int(e[2], env); b, tb = eval_int(e[3], env, ta)
        t = ta or tb
        v = a + b if e[1].startswith('Add') else a - b
        if t is not None and _wrap(v, t) != v: raise Overflow('%s overflows %s' % (e[1], t))
        return v, t
    if k == 'op' and e[1] in ('Mul', 'MulWithOverflow', 'Div', 'Rem', 'Shr', 'Shl', 'BitAnd'):
        a, ta = eval_int(e[2], env); b, tb = eval_int(e[3], env, ta)
        t = ta or tb
        if e[1] in ('Div', 'Rem') and b == 0: raise Overflow('division by zero')
        if e[1].startswith('Mul'): v = a * b
        elif e[1] == 'Div': v = abs(a) // abs(b) * (1 if (a >= 0) == (b >= 0) else -1)
        elif e[1] == 'Rem': v = abs(a) % abs(b) * (1 if a >= 0 else -1)
        elif e[1] == 'Shr': v = a >> b
        elif e[1] == 'Shl': v = a << b
        else: v = a & b
        if t is not None and _wrap(v, t) != v: raise Overflow('%s overflows %s' % (e[1], t))
        return v, t
    if k == 'call' and e[1].endswith('::clamp') and len(e) == 5:
        v, t = eval_int(e[2], env); lo, _ = eval_int(e[3], env, t); hi, _ = eval_int(e[4], env, t)
        return max(lo, min(hi, v)), t
    if k == 'call' and (e[1].endswith('::min') or e[1].endswith('::max')) and len(e) == 4:
        a, t = eval_int(e[2], env); b, _ = eval_int(e[3], env, t)
        return (min(a, b) if e[1].endswith('::min') else max(a, b)), t
    raise Unanalysable('cannot tabulate %s' % (e[:2],))


def quant_update_table(ck, F):
    """the quantizer update as a function: tabulated over every quantizer 0..31 and every DQUANT value, with the casts as written"""
    ck.rule('DQ', 'the update of in_force_quantizer, evaluated with Rust cast / overflow semantics for every q in 0..=31 and dquant in {-2,-1,0,+1,+2}, equals clamp(q + dquant, 1, 31)')
    b = F.body('h263_rs::decoder::state::H263State::decode_next_picture::{closure#0}'); g = cfg_of(b); D = defs_of(b)
    names = {v: int(k) for k, v in b.get('debug', {}).items()}
    q = names.get('in_force_quantizer')
    loops = g.loops()
    cands = []
    for d in D.defs.get(q, []):
        if d[0] != 'assign': continue
        e = _expr_rv(F, b, d[3]['rv'], 0, {})
        uses_q = ('multi', q) in _subterms(e)
        if uses_q: cands.append((d, e))
    if len(cands) != 1:
        ck.violation('DQ', 'DQ : closure : update site', where_of(b), 'expected one update of in_force_quantizer from its own value, found %d' % len(cands)); return
    d, e = cands[0]
    dqs = [x for x in _subterms(e) if x[0] == 'call' and x[1].endswith('::unwrap_or')]
    dq = dqs[0] if dqs else None
    bad = []
    for qv in range(0, 32):
        for dv in (-2, -1, 0, 1, 2):
            env = {('multi', q): (qv, 'u8')}
            if dq is not None: env[dq] = (dv, 'i8')
            try:
                v, t = eval_int(e, env)
            except Overflow as ex:
                bad.append('q=%d dquant=%d: %s' % (qv, dv, ex)); continue
            except Unanalysable as ex:
                ck.violation('DQ', 'DQ : closure : update form', where_of(b, d[1]), 'cannot tabulate the quantizer update: %s' % ex); return
            want = max(1, min(31, qv + dv))
            if v != want: bad.append('q=%d dquant=%d -> %d, expected %d' % (qv, dv, v, want))
    if bad or dq is None:
        ck.violation('DQ', 'DQ : closure : quantizer update values', where_of(b, d[1], d[3]['span']), 'the quantizer update differs from clamp(q + dquant, 1, 31): %s' % ('; '.join(bad[:5]) or 'no dquant operand'))
    else:
        ck.ok('DQ', 'in_force_quantizer update == clamp(q + dquant, 1, 31) on all 160 (q, dquant) pairs, casts as written', where_of(b, d[1], d[3]['span']))


def _subterms(e, acc=None):
    if acc is None: acc = []
    if isinstance(e, tuple) and e and isinstance(e[0], str):
        acc.append(e)
        for x in e[1:]:
            if isinstance(x, tuple): _subterms(x, acc)
    return acc


def p_zigzag_cursor(ck, F):
    ck.rule('P', 'inverse_rle places the k-th coded coefficient at zig-zag position (previous position + 1) + RUN, starting after the INTRADC if there is one, and stops '
                 'exactly when that position is past 63: the cursor updates of one loop iteration are put in SSA order by dominance and the position used for '
                 'DEZIGZAG_MAPPING, the stop test and the cursor left for the next iteration are tabulated over every (cursor, RUN)')
    name = 'h263_rs::decoder::cpu::rle::inverse_rle'
    b = F.body(name); g = cfg_of(b); D = defs_of(b)
    names = {v: int(k) for k, v in b.get('debug', {}).items()}
    z = names.get('zigzag_index')
    if z is None:
        ck.violation('P', 'P : inverse_rle : cursor', where_of(b), 'local zigzag_index not found (the anchor moved)'); return
    # the loop that indexes DEZIGZAG_MAPPING
    idx_sites = []
    for bb in sorted(g.reach):
        for i, s_ in enumerate(g.blocks[bb]['stmts']):
            if s_['s'] != 'assign': continue
            rv = s_['rv']
            pl = rv.get('a', {}).get('p') if rv['r'] == 'use' else (rv.get('p') if rv['r'] in ('ref',) else None)
            if not pl: continue
            ix = [e for e in pl.get('proj', []) if e.get('p') == 'index']
            if ix and 'DEZIGZAG_MAPPING' in repr(expr_of(F, b, {'o': 'copy', 'p': {'l': pl['l'], 'proj': []}})):
                idx_sites.append((bb, i, ix[0]['l']))
    loops = g.loops()
    loop = [(h, body) for h, body in loops.items() if any(bb in body for bb, _, _ in idx_sites)]
    if len({x[2] for x in idx_sites}) == 1 and idx_sites: idx_sites = [min(idx_sites)]          # the two components of one tuple read
    if len(idx_sites) != 1 or len(loop) != 1:
        ck.violation('P', 'P : inverse_rle : shape', where_of(b), 'expected one DEZIGZAG_MAPPING[..] read inside one loop, found %d reads / %d loops' % (len(idx_sites), len(loop))); return
    head, body = loop[0]
    # definitions of the cursor inside the loop, in dominance order
    zdefs = [(bb, i) for bb in sorted(body) for i, s_ in enumerate(g.blocks[bb]['stmts']) if s_['s'] == 'assign' and s_['lhs']['l'] == z and not s_['lhs']['proj']]
    def before(p, q):        # position p executes before q on every path reaching q
        return (p[0] == q[0] and p[1] < q[1]) or (p[0] != q[0] and g.dominates(p[0], q[0]))
    zdefs.sort(key=lambda p_: sum(1 for q in zdefs if before(q, p_)))
    if any(not before(zdefs[i], zdefs[i + 1]) for i in range(len(zdefs) - 1)):
        ck.violation('P', 'P : inverse_rle : cursor updates', where_of(b), 'the updates of zigzag_index inside the loop are not on one dominance chain'); return
    latches = [x for x in body if head in g.succ[x]]
    if not zdefs or any(not g.dominates(zdefs[-1][0], l_) for l_ in latches):
        ck.violation('P', 'P : inverse_rle : cursor updates', where_of(b), 'the last cursor update does not dominate the loop back edge'); return
    tfields = [f.get('name') for f in F.adt('h263_rs::types::TCoefficient')['variants'][0]['fields']]
    RUNF = tfields.index('run')
    class Stop(Exception): pass
    def version(pos, env):
        v = env['z0']
        for k, d in enumerate(zdefs):
            if before(d, pos): v = ('def', k)
        return v
    def ev_operand(o, pos, env, depth=0):
        if depth > 40: raise Stop('too deep')
        if o['o'] == 'const':
            try: return int(o.get('bits'))
            except (TypeError, ValueError): raise Stop('non-integer constant')
        pl = o['p']
        return ev_place(pl, pos, env, depth)
    def ev_place(pl, pos, env, depth):
        l = pl['l']; proj = pl.get('proj', [])
        if l == z and not proj:
            v = version(pos, env)
            return env['z0'] if not isinstance(v, tuple) else ev_def(v[1], env, depth + 1)
        fl = [e['i'] for e in proj if e.get('p') == 'field']
        if fl[-1:] == [RUNF] and 'TCoefficient' in (D.defs.get(l) and repr(b['locals'][l]) or ''):
            return env['run']
        ds = D.defs.get(l, [])
        if len(ds) == 1 and ds[0][0] == 'call' and F.callee_name(ds[0][3]).endswith('core::slice::<impl [T]>::len') and not proj:
            # len() of a constant array viewed as a slice: the array length from the type of the value the slice was made from
            cur = ds[0][3]['args'][0]
            for _ in range(8):
                if cur.get('o') not in ('copy', 'move'): break
                ty = b['locals'][cur['p']['l']].get('t', {})
                to = ty.get('to', {}).get('t', {}) if ty.get('k') == 'ref' else {}
                if to.get('k') == 'array' and 'len' in to: return int(to['len'])
                d2 = D.defs.get(cur['p']['l'], [])
                if len(d2) != 1 or d2[0][0] != 'assign': break
                rv2 = d2[0][3]['rv']
                cur = rv2.get('a') if rv2['r'] in ('use', 'cast') else ({'o': 'copy', 'p': {'l': rv2['p']['l'], 'proj': []}} if rv2['r'] == 'ref' else {})
            raise Stop('length of a slice that is not a constant array')
        if len(ds) != 1 or ds[0][0] != 'assign': raise Stop('operand _%d is not a single assignment' % l)
        bb_, i_, st = ds[0][1], ds[0][2], ds[0][3]
        val = ev_rv(st['rv'], (bb_, i_), env, depth + 1)
        for e in proj:
            if e.get('p') == 'field' and isinstance(val, tuple): val = val[e['i']]
            elif e.get('p') == 'deref': pass
            else: raise Stop('projection on a scalar')
        return val
    def ev_rv(rv, pos, env, depth):
        k = rv['r']
        if k == 'use': return ev_operand(rv['a'], pos, env, depth)
        if k == 'cast': return ev_operand(rv['a'], pos, env, depth)
        if k == 'bin':
            a, c = ev_operand(rv['a'], pos, env, depth), ev_operand(rv['b'], pos, env, depth)
            op = rv['op']
            base = op.replace('WithOverflow', '')
            r = {'Add': lambda: a + c, 'Sub': lambda: a - c, 'Mul': lambda: a * c, 'Ge': lambda: int(a >= c), 'Gt': lambda: int(a > c), 'Le': lambda: int(a <= c),
                 'Lt': lambda: int(a < c), 'Eq': lambda: int(a == c), 'Ne': lambda: int(a != c)}.get(base)
            if r is None: raise Stop('operator %s' % op)
            v = r()
            return (v, 0) if op.endswith('WithOverflow') else v
        if k == 'ref': return ev_place(rv['p'], pos, env, depth)
        if k in ('un',) and rv.get('op') == 'PtrMetadata': return 64
        raise Stop('rvalue %s' % k)
    def ev_def(k, env, depth=0):
        bb_, i_ = zdefs[k]
        return ev_rv(g.blocks[bb_]['stmts'][i_]['rv'], (bb_, i_), env, depth)
    # the stop test: a switch inside the loop whose operand depends on the cursor and one of whose sides leaves the loop for good (return)
    def leaves(start):
        seen = set(); st = [start]
        while st:
            x = st.pop()
            if x in seen: continue
            seen.add(x)
            if x == head: return False
            st.extend(g.succ[x])
        return True
    ibb, ii, il = idx_sites[0]
    stops = []
    for bb in sorted(body):
        t = g.blocks[bb]['term']
        if t['t'] == 'switch' and t['on'].get('o') in ('copy', 'move') and g.dominates(bb, ibb):
            arms = {int(v): to for v, to in t['arms']}
            out_vals = [v for v, to in arms.items() if leaves(to)]
            if leaves(t['otherwise']) != bool(out_vals) or out_vals:
                if 'multi' in repr(expr_of(F, b, t['on'])) or str(z) in repr(t['on']): stops.append((bb, t, arms))
    msg = None
    try:
        for z0 in range(0, 66):
            for run in range(0, 64):
                env = {'z0': z0, 'run': run}
                want_pos = z0 + run
                stopped = False
                for bb, t, arms in stops:
                    v = ev_operand(t['on'], (bb, len(g.blocks[bb]['stmts'])), env)
                    to = arms.get(int(v), t['otherwise'])
                    if leaves(to): stopped = True
                if stopped != (want_pos >= 64):
                    msg = 'with the cursor at %d and RUN %d (position %d) the block is %s' % (z0, run, want_pos, 'abandoned' if stopped else 'continued'); break
                if stopped: continue
                pos = ev_place({'l': il, 'proj': []}, (ibb, ii), env, 0)
                nxt = ev_def(len(zdefs) - 1, env)
                if pos != want_pos: msg = 'with the cursor at %d and RUN %d the coefficient goes to zig-zag position %d, expected %d' % (z0, run, pos, want_pos); break
                if nxt != want_pos + 1: msg = 'with the cursor at %d and RUN %d the next cursor is %d, expected %d' % (z0, run, nxt, want_pos + 1); break
            if msg: break
    except Stop as e_:
        msg = 'the cursor arithmetic could not be evaluated (%s)' % e_
    except (KeyError, IndexError, TypeError) as e_:
        msg = 'the cursor arithmetic could not be evaluated (%s: %s)' % (type(e_).__name__, e_)
    if not stops and not msg: msg = 'no stop test on the cursor found before the DEZIGZAG_MAPPING read'
    # the cursor before the loop: 0, plus 1 exactly when there is an INTRADC
    pre = [(bb, i) for bb in sorted(g.reach) if bb not in body for i, s_ in enumerate(g.blocks[bb]['stmts']) if s_['s'] == 'assign' and s_['lhs']['l'] == z and not s_['lhs']['proj'] and g.dominates(bb, head) or
           (bb not in body and any(s2['s'] == 'assign' and s2['lhs']['l'] == z for s2 in g.blocks[bb]['stmts'][i:i + 1]) and head in g.reachable_from([bb]))]
    if msg: ck.violation('P', 'P : inverse_rle : zig-zag cursor', where_of(b, ibb), msg)
    else: ck.ok('P', 'inverse_rle: position = cursor + RUN, abandoned iff position >= 64, next cursor = position + 1 (tabulated over cursor 0..65 x RUN 0..63; %d cursor updates per iteration)' % len(zdefs), where_of(b, ibb))


def run(ck, F, tier):
    ck.explanation = ('C11 decided for the whole Q x L domain structurally: A the stored coefficient has the canonical form of the H.263 reconstruction formula '
                      '(equal functions on every input), depends only on L and Q; B the interval reading shows no intermediate overflow for Q in [0,31], '
                      'L in [-1024,1023], and those ranges are established at their producers (escape widths W); C the INTRADC mapping folded over all 256 codes; '
                      'D the DQUANT table and the clamped update; C10.E no stored coefficient is dropped by the sparse-block classification. The "decoded samples" observation point belongs to C02.')
    ck.assumptions += ['read_signed_bits(w) yields a w-bit two\'s complement value (assumed_returns in tables/contracts.json)']
    a_formula(ck, F)
    b_no_overflow(ck, F)
    b2_escape_widths(ck, F)
    c_intradc(ck, F)
    d_dquant(ck, F)
    p_zigzag_cursor(ck, F)
    # DQUANT code -> step and the escape forms that define the codable levels (8 / 7 / 11-bit LEVEL), as decision tables
    from . import mblayer
    from ..report import Scoped
    s = Scoped(ck, 'MB.')
    mblayer.rule_v(s, F, ['tcoef'])
    mblayer.rule_p(s, F)          # Table 9: which macroblock types carry a DQUANT at all (has_quantizer gates the quantizer update)
    mblayer.rule_syntax(s, F, ['macroblock', 'dquant', 'block'])
    # a coefficient that is stored but then dropped by the sparse-shape classification is not "reconstructed at its position": the block
    # leaves inverse_rle as Horiz / Vert / Dc / Zero only when every non-zero stored coefficient lies in that shape (C10's rule E)
    from . import c10
    c10.rule_e(Scoped(ck, 'C10.'), F)
    # the dequantiser sees the right (block, position, quantizer): decode_block is told the decoder options and picture header that select the escape form,
    # its result goes to inverse_rle with the in-force quantizer, which follows DQUANT / GQUANT (C02's rules D and H)
    from . import c02
    c02.rule_d(Scoped(ck, 'C02.'), F)
    # "at every zig-zag position": the table that turns the cursor into a block cell is the zig-zag scan of the standard (C02's rule Z)
    c02.rule_z(Scoped(ck, 'C02.'), F)
