"""Rules about parser::reader shared by C05, C14 and C15."""
from ..cfg import cfg_of, const_value
from ..dataflow import defs_of, callee_is, strip_ref, fields_of
from ..callgraph import callgraph
from .. import effects
from ..report import where_of, short_fn
from ..facts import is_test_fn

RD = 'h263_rs::parser::reader::H263Reader::<R>::'
F_SOURCE, F_BUFFER, F_BITS = 0, 1, 2
CONSUMING = ['read_bits', 'read_u8', 'skip_bits', 'read_vlc', 'read_umv', 'read_signed_bits']
WRAPPERS = ['with_transaction', 'with_transaction_union', 'with_lookahead']


def reader_field_indices(F):
    a = F.adt('h263_rs::parser::reader::H263Reader')
    names = [f['name'] for f in a['variants'][0]['fields']]
    if names != ['source', 'buffer', 'bits_read']:
        from ..facts import Unanalysable
        raise Unanalysable('H263Reader fields are %s, rules expect [source, buffer, bits_read]' % names)
    return names


def find_calls(F, body, *suffixes):
    out = []
    for bb, t in cfg_of(body).calls():
        if callee_is(F, t, *suffixes):
            out.append((bb, t))
    return out


# ---------------------------------------------------------------- T4: the three wrappers
def wrapper_rule(ck, F, rid, name, mode):
    """mode: 'err' (rollback iff result is Err), 'union' (Err or Ok(None)), 'always'."""
    b = F.body(RD + name)
    # a test of the result that is first materialised as a bool (`let ok = matches!(&result, Ok(Some(_))); if !ok { rollback }`) is threaded
    # back into the decision it abbreviates (semantics preserving, on a private copy of the body)
    import copy
    from .. import inline
    b = copy.deepcopy(b)
    inline._thread_jumps(b); inline._fold_const_switches(b)
    g = cfg_of(b); D = defs_of(b)
    key = '%s : %s' % (rid, name)
    cps = find_calls(F, b, '::checkpoint')
    calls = find_calls(F, b, 'std::ops::FnOnce::call_once')
    rbs = find_calls(F, b, '::rollback')
    direct = None
    if len(cps) == 0 and len(calls) == 1 and len(rbs) == 1:
        # checkpoint() written out: `let checkpoint = self.bits_read;` - a read of the position field that is made before the closure runs
        a_ = rbs[0][1]['args'][1]
        cur = a_; pos = None
        for _ in range(6):
            if cur.get('o') not in ('copy', 'move') or cur['p'].get('proj'): break
            ds = D.defs.get(cur['p']['l'], [])
            if len(ds) != 1 or ds[0][0] != 'assign' or ds[0][3]['rv']['r'] != 'use': break
            src = ds[0][3]['rv']['a']
            if src.get('o') in ('copy', 'move') and src['p']['l'] == 1 and [e['i'] for e in src['p'].get('proj', []) if e['p'] == 'field'] == [F_BITS]:
                pos = ds[0][1]; break
            cur = src
        if pos is not None: direct = pos
    if (len(cps) != 1 and direct is None) or len(calls) != 1 or len(rbs) != 1:
        ck.violation(rid, key + ' : shape', where_of(b), '%s: expected exactly one checkpoint / closure call / rollback, found %d / %d / %d'
                     % (name, len(cps), len(calls), len(rbs)))
        return
    (fbb, ft), (rbb, rt) = calls[0], rbs[0]
    cbb = cps[0][0] if cps else direct
    ok = True
    # checkpoint taken before the closure runs, on the same reader
    if not g.dominates(cbb, fbb):
        ck.violation(rid, key + ' : checkpoint not before closure', where_of(b, cbb), '%s: checkpoint() does not dominate the closure call' % name); ok = False
    # the closure is called exactly with (self)
    o = D.origin(ft['args'][1]) if len(ft['args']) > 1 else None
    # rollback's argument is the checkpoint value
    ro = D.origin(rt['args'][1])
    if cps and not (ro[0] == 'call' and ro[1] == cbb and not ro[3]):
        ck.violation(rid, key + ' : rollback argument', where_of(b, rbb), '%s: rollback is not given the value returned by checkpoint() (origin %s)' % (name, ro[:2])); ok = False
    for (bb_, t_) in ((cps[0],) if cps else ()) + (rbs[0],):
        so = strip_ref(D.origin(t_['args'][0]))
        if not (so[0] == 'param' and so[1] == 1):
            ck.violation(rid, key + ' : receiver', where_of(b, bb_), '%s: checkpoint/rollback not applied to self' % name); ok = False
    # result of the closure
    res = ft['dest']['l']
    post = ft['to']
    exits = set(g.exits())
    # which edges may bypass the rollback?
    def reach_exit_without(removed_blocks, removed_edges):
        seen = set(); st = [post]
        while st:
            x = st.pop()
            if x in seen or x in removed_blocks: continue
            seen.add(x)
            for y in g.succ[x]:
                if (x, y) in removed_edges: continue
                st.append(y)
        return bool(seen & exits)
    if not reach_exit_without(set(), set()):
        ck.violation(rid, key + ' : no exit', where_of(b), '%s: no path to return' % name); return
    bypass = reach_exit_without({rbb}, set())
    if mode == 'always':
        if bypass:
            ck.violation(rid, key + ' : rollback bypassed', where_of(b, rbb), '%s: a path from the closure call to return avoids rollback()' % name); ok = False
    else:
        if not bypass:
            ck.violation(rid, key + ' : always rolls back', where_of(b, rbb), '%s: rollback on every path (a successful parse would consume nothing)' % name); ok = False
        # collect the "success test" edges: edges whose condition says result is Ok (and, for union, Some)
        ok_edges, some_edges = result_test_edges(F, b, res)
        if not ok_edges:
            ck.violation(rid, key + ' : no success test', where_of(b, fbb), '%s: no recognised test of the closure result (is_err / is_ok / match)' % name); ok = False
        else:
            if reach_exit_without({rbb}, ok_edges):
                ck.violation(rid, key + ' : rollback skipped on Err', where_of(b, rbb),
                             '%s: a path reaches return without rollback() and without having established that the result is Ok' % name); ok = False
            if mode == 'union':
                if not some_edges or reach_exit_without({rbb}, some_edges):
                    ck.violation(rid, key + ' : rollback skipped on Ok(None)', where_of(b, rbb),
                                 '%s: a path reaches return without rollback() and without having established that the result is Ok(Some)' % name); ok = False
    # the function returns the closure's result unchanged on the non-failing path
    rets = [d for d in D.defs.get(0, []) if d[0] == 'assign']
    def is_res(a, n=0):
        # the operand is the closure result, possibly through a chain of single-definition moves (an inlined helper returns through its own slot)
        if a.get('o') not in ('move', 'copy') or a['p']['proj'] or n > 8: return False
        if a['p']['l'] == res: return True
        ds = D.defs.get(a['p']['l'], [])
        return any(d_[0] == 'assign' and d_[3]['rv']['r'] == 'use' and is_res(d_[3]['rv']['a'], n + 1) for d_ in ds)
    moved = [d for d in rets if d[3]['rv']['r'] == 'use' and is_res(d[3]['rv']['a'])]
    if not moved:
        ck.violation(rid, key + ' : result not returned', where_of(b), '%s: the closure result is not what is returned' % name); ok = False
    if ok:
        ck.ok(rid, '%s: checkpoint@bb%d dominates closure call@bb%d; rollback(checkpoint)@bb%d %s' % (
            name, cbb, fbb, rbb, {'err': 'on every non-Ok path', 'union': 'on every non-Ok(Some) path', 'always': 'on every path'}[mode]), where_of(b, rbb))


def result_test_edges(F, b, res):
    """edges (bb, succ) that are taken only when local `res` (a Result) is Ok; and those taken only when its Ok payload (an Option) is Some."""
    g = cfg_of(b); D = defs_of(b)
    ok_edges = set(); some_edges = set()
    for bb in g.reach:
        t = g.blocks[bb]['term']
        if t['t'] != 'switch' or t['on']['o'] == 'const':
            continue
        o = D.origin(t['on'])
        arms = {int(v): to for v, to in t['arms']}
        if o[0] == 'call':
            ct = o[2]
            tgt = strip_ref(D.origin(ct['args'][0])) if ct['args'] else None
            is_res = tgt and tgt[0] in ('multi', 'call') and _is_local(tgt, res)
            if is_res and callee_is(F, ct, 'Result::<T, E>::is_err'):
                if 0 in arms: ok_edges.add((bb, arms[0]))
            if is_res and callee_is(F, ct, 'Result::<T, E>::is_ok'):
                ok_edges.add((bb, t['otherwise']))
        elif o[0] == 'rv' and o[2]['rv']['r'] == 'discr':
            p = o[2]['rv']['p']
            po = D.origin_place(p)
            base = strip_ref(po)
            if _is_local(base, res):
                fl = _proj_sig(base)
                if fl == ():
                    # discriminant(result): Ok = 0
                    if 0 in arms: ok_edges.add((bb, arms[0]))
                elif fl == (('dc', 0), 0):
                    # discriminant((result as Ok).0): Some = 1
                    if 1 in arms: some_edges.add((bb, arms[1]))
                    elif 0 in arms and t['otherwise'] != arms[0]: some_edges.add((bb, t['otherwise']))
    return ok_edges, some_edges


def _is_local(o, l):
    return (o[0] == 'multi' and o[1] == l) or (o[0] == 'call' and o[2]['dest']['l'] == l)


def _proj_sig(o):
    proj = o[2] if o[0] == 'multi' else o[3]
    out = []
    for e in proj:
        if e['p'] == 'deref': continue
        if e['p'] == 'downcast': out.append(('dc', e['v']))
        elif e['p'] == 'field': out.append(e['i'])
        else: out.append(e['p'])
    return tuple(out)


# ---------------------------------------------------------------- who may write the reader fields
def direct_writers(F, field):
    """functions whose own statements or external callees write H263Reader field `field` (not via a local callee)."""
    EA = effects.analysis(F)
    out = {}
    for name, be in EA.per_body.items():
        if is_test_fn(name): continue
        b = F.bodies[name]
        for e in be.effects:
            if e.kind != 'w': continue
            root, path = e.loc
            if root[0] != 'param': continue
            if 'H263Reader' not in b['locals'][root[1]]['s']: continue
            if e.via in F.bodies and not e.via.endswith('}'):
                continue          # via a local (non-closure) callee: that callee is the writer
            if e.via in F.bodies and e.via.endswith('}'):
                continue          # closure effects are attributed to the closure body itself
            if path and path[0] == field:
                out.setdefault(name, []).append(e)
            elif path and path[0] == '*' or not path:
                out.setdefault(name, []).append(e)
    return out


def who_may_write_rule(ck, F, rid, field, fname, allowed):
    dw = direct_writers(F, field)
    names = {short_fn(n).split('::')[-1]: n for n in dw}
    for n, effs in sorted(dw.items()):
        sn = short_fn(n)
        base = sn.split('::')[-1]
        if base in allowed and n.startswith(RD):
            ck.ok(rid, '%s.%s written in %s (%d sites)' % ('H263Reader', fname, base, len(effs)), where_of(F.bodies[n], effs[0].bb))
        else:
            e = effs[0]
            ck.violation(rid, '%s : %s written by %s' % (rid, fname, sn), where_of(F.bodies[n], e.bb),
                         'H263Reader.%s is written in %s (via %s); only %s may write it' % (fname, sn, e.via, sorted(allowed)))
    missing = [a for a in allowed if a not in names]
    return dw, missing


def callers_of(F, fn_name):
    cg = callgraph(F)
    out = []
    for caller, sites in cg.sites.items():
        if is_test_fn(caller): continue
        for (bb, loc, en) in sites:
            if loc == fn_name:
                out.append((caller, bb))
    return out
