"""Effect (mod/ref) layer.

Per function: which abstract locations may be written.  An abstract location is
(root, field path) with root one of ('param', k) / ('local', n) / ('static', name) / ('fresh', bb);
dereferences are transparent (a reference and its pointee are identified), indices are elided,
a trailing '*' means "anything below".

Local aliasing is a flow-insensitive points-to over the body (references are created by `&place`,
copied, stored in closure environments and returned by calls).  Interprocedural summaries are computed
bottom-up over the acyclic call graph; an external callee is assumed to write through every `&mut`
argument (and through any argument that contains a `&mut`), unless the model table says otherwise.
"""
import collections
from .cfg import cfg_of
from .callgraph import callgraph

# external callees known not to write through their &mut arguments' *pointee content* in a way that matters
# (none needed so far: the default is conservative) and callees that only read
PURE_EXTERNALS = (
    'std::option::Option::<T>::is_none', 'std::option::Option::<T>::is_some', 'std::result::Result::<T, E>::is_err',
    'std::result::Result::<T, E>::is_ok',
)


def ty_has_mut_ref(t):
    k = t['t']['k'] if 't' in t else t['k']
    t = t['t'] if 't' in t else t
    if k == 'ref':
        return t['mut'] or ty_has_mut_ref(t['to'])
    if k == 'ptr':
        return True
    if k in ('array', 'slice'):
        return ty_has_mut_ref(t['of'])
    if k == 'tuple':
        return any(ty_has_mut_ref(x) for x in t['of'])
    if k == 'closure':
        return True      # may capture &mut
    if k == 'adt':
        return False     # by-value ADTs in this code base hold no &mut (checked by C17 S5 type walk)
    if k == 'param':
        return True      # unknown generic: could be anything (e.g. F: FnOnce capturing &mut)
    return False


def ty_is_ref(t):
    t = t['t'] if 't' in t else t
    return t['k'] in ('ref', 'ptr')


def ty_refish(t):
    """type that is or may contain a reference (so it can carry aliasing)."""
    tt = t['t'] if 't' in t else t
    k = tt['k']
    if k in ('ref', 'ptr', 'closure', 'param'):
        return True
    if k in ('array', 'slice'):
        return ty_refish(tt['of'])
    if k == 'tuple':
        return any(ty_refish(x) for x in tt['of'])
    if k == 'adt':
        s = t.get('s', '')
        return '&' in s or 'Iter' in s or 'Chunks' in s or 'Zip' in s or 'Enumerate' in s or 'Skip' in s or 'Take' in s
    return False


def norm_path(p):
    out = []
    for x in p:
        if x == '*':
            out.append('*'); break
        out.append(x)
    return tuple(out)


def path_join(a, b):
    if a and a[-1] == '*':
        return a
    return norm_path(tuple(a) + tuple(b))


def loc_covers(a, b):
    """does abstract location a cover b (same root, a's path a prefix of b's, or wildcard)."""
    if a[0] != b[0]: return False
    pa, pb = a[1], b[1]
    if pa and pa[-1] == '*':
        pa = pa[:-1]
        return tuple(pb[:len(pa)]) == tuple(pa) or tuple(pa[:len(pb)]) == tuple(x for x in pb if x != '*')[:len(pa)]
    pbn = tuple(x for x in pb if x != '*')
    if pb and pb[-1] == '*':
        return tuple(pa[:len(pbn)]) == pbn
    return tuple(pb[:len(pa)]) == tuple(pa)


class Effect:
    __slots__ = ('bb', 'kind', 'loc', 'via', 'line')
    def __init__(self, bb, kind, loc, via, line):
        self.bb = bb; self.kind = kind; self.loc = loc; self.via = via; self.line = line
    def __repr__(self):
        return 'Effect(bb%d %s %s via %s L%s)' % (self.bb, self.kind, self.loc, self.via, self.line)


INNER_MUT = None


def has_inner_mut(tystr):
    """may a value of this type (given by its printed form) hold a `&mut` (so that a callee can write through it)?"""
    import re
    s = tystr
    if s.startswith('&mut '): s = s[5:]
    elif s.startswith('&'): return False          # behind a shared reference nothing is writable (no cells: C17 S5/S4)
    return bool(re.search(r'&mut|Mut\b|Mut<|closure|Drain|dyn |\*mut', s)) or bool(re.fullmatch(r'[A-Z]\w*', s))


class BodyEffects:
    def __init__(self, facts, body, summaries):
        self.facts = facts; self.body = body; self.g = cfg_of(body)
        self.argc = body['argc']
        self.pts = collections.defaultdict(set)         # ref-typed local -> targets
        self.inner = collections.defaultdict(set)       # aggregate local -> targets of references held inside
        self.falias = collections.defaultdict(set)      # (local, field) -> targets (closure environments, tuples)
        self.effects = []
        self.unbound = []
        self._solve_alias(summaries)
        self._collect(summaries)

    # ---- helpers
    def _eff(self, tup):
        bb, kind, loc, via, line = tup
        r = loc[0]
        if kind == 'w' and r[0] == 'param':
            t = self._local_ty(r[1])['t']
            if t['k'] == 'ref' and not t['mut']:
                # nothing is writable behind a shared reference (no UnsafeCell in these crates: C17 S2/S5)
                return
        self.effects.append(Effect(bb, kind, loc, via, line))

    def root_of_local(self, l):
        return ('param', l) if 1 <= l <= self.argc else ('local', l)

    def _local_ty(self, l):
        return self.body['locals'][l]

    def _is_ref_local(self, l):
        return self._local_ty(l)['t']['k'] in ('ref', 'ptr')

    def _op_ty(self, o):
        if o['o'] in ('copy', 'move'):
            p = o['p']
            if not p['proj']:
                return self._local_ty(p['l'])
            s = p['ty']
            k = 'ref' if s.startswith('&') else ('closure' if '{closure' in s else ('param' if s.isidentifier() and s[:1].isupper() else 'other'))
            t = {'k': k}
            if k == 'ref': t['mut'] = s.startswith('&mut')
            return {'s': s, 't': t}
        return o.get('ty', {'s': '', 't': {'k': 'other'}})

    def resolve(self, p):
        """abstract locations a place denotes."""
        l = p['l']
        fields = [e['i'] for e in p['proj'] if e['p'] == 'field']
        if fields and (l, fields[0]) in self.falias:
            cur = set(self.falias[(l, fields[0])]); rest = fields[1:]
        elif self._is_ref_local(l) and self.pts[l]:
            cur = set(self.pts[l]); rest = fields
        else:
            cur = {(self.root_of_local(l), ())}; rest = fields
        return {(r, path_join(q, rest)) for (r, q) in cur}

    def inner_targets(self, l):
        tg = set(self.inner.get(l, ()))
        for (sl, fi), ts in self.falias.items():
            if sl == l: tg |= ts
        return tg

    def value_targets(self, o):
        """what a *value* operand may refer to: for a reference its pointee(s), for an aggregate the pointees of inner refs."""
        if o['o'] == 'const':
            return {(('static', o['static']), ())} if 'static' in o else set()
        p = o['p']
        ty = self._op_ty(o)
        if ty['t']['k'] in ('ref', 'ptr'):
            tg = self.resolve(p)
            # a reference to a local aggregate that itself holds references: those are reachable too
            for (r, q) in list(tg):
                if r[0] == 'local':
                    tg |= {(rr, path_join(qq, ('*',))) for (rr, qq) in self.inner_targets(r[1])}
            return tg
        if not p['proj']:
            return self.inner_targets(p['l'])
        fields = [e['i'] for e in p['proj'] if e['p'] == 'field']
        if fields and (p['l'], fields[0]) in self.falias:
            return {(r, path_join(q, fields[1:])) for (r, q) in self.falias[(p['l'], fields[0])]}
        if 1 <= p['l'] <= self.argc and ty_refish(ty):
            return {(('param', p['l']), norm_path(fields))}
        return self.inner_targets(p['l'])

    # ---- alias fixpoint
    def _solve_alias(self, summaries):
        changed = True; rounds = 0
        def add(d, k, tg):
            nonlocal changed
            if tg and not tg <= d[k]:
                d[k] |= tg; changed = True
        while changed and rounds < 30:
            changed = False; rounds += 1
            for bb in sorted(self.g.reach):
                blk = self.g.blocks[bb]
                for s in blk['stmts']:
                    if s['s'] != 'assign': continue
                    lhs = s['lhs']; rv = s['rv']; k = rv['r']
                    if lhs['proj']:
                        fl = [e for e in lhs['proj'] if e['p'] == 'field']
                        if len(fl) == 1 and not any(e['p'] == 'deref' for e in lhs['proj']):
                            if k == 'ref': add(self.falias, (lhs['l'], fl[0]['i']), self.resolve(rv['p']))
                            elif k in ('use', 'cast') and ty_refish(self._op_ty(rv['a'])) if rv['a']['o'] != 'const' else False:
                                add(self.falias, (lhs['l'], fl[0]['i']), self.value_targets(rv['a']))
                        continue
                    l = lhs['l']
                    lt = self._local_ty(l)
                    if not ty_refish(lt): continue
                    isref = self._is_ref_local(l)
                    if k in ('ref', 'rawptr'):
                        add(self.pts, l, self.resolve(rv['p']))
                    elif k in ('use', 'cast'):
                        tg = self.value_targets(rv['a'])
                        add(self.pts if isref else self.inner, l, tg)
                        if not isref and rv['a']['o'] in ('copy', 'move') and not rv['a']['p']['proj']:
                            src = rv['a']['p']['l']
                            for (sl, fi), tgs in list(self.falias.items()):
                                if sl == src: add(self.falias, (l, fi), tgs)
                    elif k == 'agg':
                        for i, o in enumerate(rv['ops']):
                            if o['o'] == 'const' and 'static' not in o: continue
                            if o['o'] != 'const' and not ty_refish(self._op_ty(o)): continue
                            add(self.falias, (l, i), self.value_targets(o))
                t = blk['term']
                if t['t'] == 'call':
                    d = t['dest']
                    if not d['proj'] and ty_refish(self._local_ty(d['l'])):
                        tg = set()
                        en = self.facts.callee_name(t)
                        is_next = en.endswith('as std::iter::Iterator>::next') or en.endswith('::next') and 'Iterator' in en
                        for a in t['args']:
                            if a['o'] == 'const':
                                if 'static' in a: tg.add((('static', a['static']), ('*',)))
                                continue
                            if ty_refish(self._op_ty(a)):
                                for (r, q) in self.value_targets(a):
                                    if is_next and r[0] == 'local' and self._op_ty(a)['t']['k'] in ('ref', 'ptr') and (r, q) in self.resolve(a['p']):
                                        # Iterator::next(&mut it): std iterators are not lending - the item cannot borrow from `it` itself,
                                        # only from what `it` refers to
                                        continue
                                    tg.add((r, path_join(q, ('*',))))
                        add(self.pts if self._is_ref_local(d['l']) else self.inner, d['l'], tg)

    # ---- effects
    def _collect(self, summaries):
        crate = self.body['crate']
        for bb in sorted(self.g.reach):
            blk = self.g.blocks[bb]
            for s in blk['stmts']:
                if s['s'] == 'assign':
                    lhs = s['lhs']
                    if lhs['proj']:
                        deref = any(e['p'] == 'deref' for e in lhs['proj'])
                        for loc in self.resolve(lhs):
                            if loc[0][0] == 'local' and not deref:
                                continue
                            if loc[0][0] == 'param' and not deref and not ty_refish(self._local_ty(loc[0][1])):
                                continue
                            self._eff((bb, 'w', loc, 'assign', s['span']['line']))
                    for o in _rv_operands(s['rv']):
                        if o.get('o') == 'const' and 'static' in o:
                            self._eff((bb, 'r', (('static', o['static']), ()), 'use', s['span']['line']))
                elif s['s'] == 'setdiscr':
                    if any(e['p'] == 'deref' for e in s['p']['proj']):
                        for loc in self.resolve(s['p']):
                            self._eff((bb, 'w', loc, 'setdiscr', 0))
            t = blk['term']
            if t['t'] == 'drop':
                p = t['p']
                if any(e['p'] == 'deref' for e in p['proj']):
                    for loc in self.resolve(p):
                        self._eff((bb, 'w', loc, 'drop', 0))
            if t['t'] != 'call':
                continue
            line = t['span']['line']
            for a in t['args']:
                if a.get('o') == 'const' and 'static' in a:
                    self._eff((bb, 'r', (('static', a['static']), ()), 'arg', line))
            d = t['dest']
            if any(e['p'] == 'deref' for e in d['proj']):
                for loc in self.resolve(d):
                    self._eff((bb, 'w', loc, 'call-dest', line))
            callee = self.facts.local_callee(crate, t)
            ename = self.facts.callee_name(t)
            if callee and callee in summaries:
                self._apply_summary(bb, t, summaries[callee], callee, line)
            elif callee:
                self._conservative(bb, t, ename, line)
            else:
                generic_call = (ename.startswith('std::ops::Fn') and t['args'] and t['args'][0]['o'] in ('copy', 'move')
                                and self._op_ty(t['args'][0])['t']['k'] == 'param')
                # a call through a generic `F: FnOnce` parameter: its effects are those of the concrete closure,
                # applied at the (monomorphic) call site that names the closure type in its generic arguments.
                if ename not in PURE_EXTERNALS and not generic_call:
                    self._conservative(bb, t, ename, line)
            f = t['f']
            for c in (f.get('closures', []) if f.get('o') == 'const' else []):
                cn = crate + '::' + c
                if cn in summaries:
                    self._apply_closure(bb, t, summaries[cn], cn, line)
                elif cn in self.facts.bodies:
                    self.unbound.append((bb, 'closure without summary', cn))

    def _apply_summary(self, bb, t, summ, callee, line):
        args = t['args']
        for (k, path, kind) in summ:
            if k[0] == 'static':
                self._eff((bb, kind, (k, path), callee, line)); continue
            idx = k[1] - 1
            if idx < 0 or idx >= len(args):
                self.unbound.append((bb, 'summary param out of range', callee)); continue
            a = args[idx]
            if a['o'] == 'const':
                continue
            if not a['p']['proj'] and path and path[0] != '*' and (a['p']['l'], path[0]) in self.falias:
                for (r, q) in self.falias[(a['p']['l'], path[0])]:
                    self._eff((bb, kind, (r, path_join(q, path[1:])), callee, line))
                continue
            if self._op_ty(a)['t']['k'] in ('ref', 'ptr'):
                for (r, q) in self.resolve(a['p']):
                    self._eff((bb, kind, (r, path_join(q, path)), callee, line))
            else:
                for (r, q) in self.value_targets(a):
                    self._eff((bb, kind, (r, path_join(q, ('*',))), callee, line))

    def _apply_closure(self, bb, t, summ, cn, line):
        """the closure `cn` (its type appears in the callee's generic args) may be called by the callee."""
        cb = self.facts.bodies[cn]
        cpath = cn.split('::', 1)[1]
        env_ops = [a for a in t['args'] if a['o'] in ('copy', 'move') and not a['p']['proj'] and self._local_ty(a['p']['l'])['t'].get('path') == cpath]
        for (k, path, kind) in summ:
            if k[0] == 'static':
                self._eff((bb, kind, (k, path), cn, line)); continue
            if k[1] == 1:
                if not env_ops:
                    self.unbound.append((bb, 'closure env operand not found', cn)); continue
                for a in env_ops:
                    l = a['p']['l']
                    if path and path[0] != '*' and (l, path[0]) in self.falias:
                        for (r, q) in self.falias[(l, path[0])]:
                            self._eff((bb, kind, (r, path_join(q, path[1:])), cn, line))
                    elif not path or path[0] == '*':
                        for (r, q) in self.inner_targets(l):
                            self._eff((bb, kind, (r, path_join(q, ('*',))), cn, line))
                    # else: captured by value: the write is to the closure's own copy
            else:
                pty = cb['locals'][k[1]]['s']
                bound = False
                for a in t['args']:
                    if a['o'] in ('copy', 'move') and self._op_ty(a)['s'] == pty:
                        for (r, q) in self.resolve(a['p']):
                            self._eff((bb, kind, (r, path_join(q, path)), cn, line)); bound = True
                if not bound and pty.startswith('&mut') and 'H263Reader' in pty or (not bound and has_inner_mut(pty) and pty.startswith('&mut') is False and False):
                    self.unbound.append((bb, 'closure parameter %d of type %s not bound' % (k[1], pty), cn))

    def _conservative(self, bb, t, ename, line):
        for a in t['args']:
            if a['o'] not in ('copy', 'move'):
                continue
            ty = self._op_ty(a)
            k = ty['t']['k']
            if k == 'closure' and (self.body['crate'] + '::' + ty['t'].get('path', '?')) in self.facts.bodies:
                continue     # a local closure: its effects are its own summary, applied by _apply_closure
            tgs = set()
            if k in ('ref', 'ptr'):
                if not (ty['t'].get('mut') or k == 'ptr' or ty['s'].startswith('&mut')):
                    continue
                for (r, q) in self.resolve(a['p']):
                    tgs.add((r, path_join(q, ('*',))))
                    if r[0] == 'local' and has_inner_mut(ty['s']):
                        tgs |= {(rr, path_join(qq, ('*',))) for (rr, qq) in self.inner_targets(r[1])}
            elif has_inner_mut(ty['s']) or k == 'param':
                tgs = {(r, path_join(q, ('*',))) for (r, q) in self.value_targets(a)}
            for loc in tgs:
                self._eff((bb, 'w', loc, ename, line))

    def summary(self):
        """effects visible to the caller: writes through params and touches of statics."""
        out = set()
        for e in self.effects:
            r = e.loc[0]
            if r[0] == 'param':
                if ty_refish(self.body['locals'][r[1]]):
                    out.add((r, e.loc[1], e.kind))
            elif r[0] == 'static':
                out.add((r, e.loc[1], e.kind))
        return out


def _rv_operands(rv):
    k = rv['r']
    if k in ('use', 'cast', 'un', 'repeat'): return [rv['a']]
    if k == 'bin': return [rv['a'], rv['b']]
    if k == 'agg': return rv['ops']
    return []


class EffectAnalysis:
    def __init__(self, facts):
        self.facts = facts
        self.cg = callgraph(facts)
        self.summaries = {}
        self.per_body = {}
        nodes = set(facts.bodies)
        for name in self.cg.topo_bottom_up(nodes):
            be = BodyEffects(facts, facts.bodies[name], self.summaries)
            self.per_body[name] = be
            self.summaries[name] = be.summary()

    def of(self, name):
        return self.per_body[name]


_ea = {}


def analysis(facts):
    k = id(facts)
    if k not in _ea:
        _ea[k] = EffectAnalysis(facts)
    return _ea[k]
