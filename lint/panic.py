"""Panic-freedom inventory + discharge (DESIGN.md section 4): runs the abstract interpreter bottom-up over the call graph
below the given entry points, collects every Assert terminator and every call to a panicking external, and reports which
are discharged by the interval / option-state reading under the contracts table."""
import json, os, re
from .facts import VERIF, is_test_fn, Unanalysable
from .callgraph import callgraph
from .cfg import cfg_of
from . import effects
from .absint import Ctx, Interp
from .extern_models import Models
from .dataflow import expr_of, expr_str, defs_of

_models = None


def models():
    global _models
    if _models is None: _models = Models()
    return _models


def load_contracts():
    p = os.path.join(VERIF, 'tables', 'contracts.json')
    if not os.path.exists(p): return {'params': {}, 'fields': {}, 'returns': {}}
    return json.load(open(p))


def fingerprint(F, body, site):
    """line-number free description of a site: kind + structural expressions of the asserted operands"""
    from . import dataflow as _df
    prev = _df.NORM_UNSIGNED; _df.NORM_UNSIGNED = True
    try: return _fingerprint(F, body, site)
    finally: _df.NORM_UNSIGNED = prev


def _fingerprint(F, body, site):
    import hashlib
    t = body['blocks'][site.bb]['term']
    names = body.get('debug', {})
    if site.kind.startswith('cast:'):
        fp = site.kind
        for s_ in body['blocks'][site.bb]['stmts']:
            if s_['s'] == 'assign' and s_['rv']['r'] == 'cast' and s_.get('span') == site.span and \
                    site.kind == 'cast:%s->%s' % (s_['rv']['a'].get('p', {}).get('ty'), s_['rv']['to']['s']):
                fp = '%s(%s)' % (site.kind, expr_str(expr_of(F, body, s_['rv']['a']), names)); break
    elif t['t'] == 'assert':
        ops = [expr_str(expr_of(F, body, o), names) for o in t['ops']]
        fp = '%s(%s)' % (t['kind'], ' ; '.join(ops))
    elif t['t'] == 'call':
        ops = [expr_str(expr_of(F, body, a), names) for a in t['args'][:3]]
        fp = '%s(%s)' % (site.kind.split(':', 1)[1] if ':' in site.kind else site.kind, ' ; '.join(ops))
    else:
        fp = site.kind
    if len(fp) > 180:
        fp = fp[:170] + '~' + hashlib.sha1(fp.encode()).hexdigest()[:10]
    return fp


class PanicAnalysis:
    def __init__(self, F, roots, contracts=None):
        self.F = F
        self.cg = callgraph(F)
        self.contracts = contracts if contracts is not None else load_contracts()
        self.ctx = Ctx(F, self.contracts, effects.analysis(F), models())
        self.reach = self.cg.reachable(roots)
        self.order = self.cg.topo_bottom_up(self.reach)
        self.errors = []
        # two passes: the first one collects the values captured by closures at their creation sites (closures are
        # analysed before their creators, so their upvars are unknown then); the second one uses them
        for rnd in (0, 1):
            self._pass()
            if self.ctx.closure_env_next == self.ctx.closure_env: break
            self.ctx.closure_env = self.ctx.closure_env_next; self.ctx.closure_env_next = {}
            if rnd == 0:
                self.ctx.contract_viol = []; self.ctx.field_viol = []; self.ctx.unknown_externs = {}; self.ctx.param_obs = {}

    def _pass(self):
        F = self.F
        self.interps = {}
        self.sites = []
        for name in self.order:
            b = F.bodies[name]
            if b['kind'] in ('Const', 'Static', 'Promoted'): continue
            try:
                it = Interp(self.ctx, b).run()
            except RecursionError as e:
                self.errors.append((name, 'recursion')); continue
            self.interps[name] = it
            self.ctx.summaries[name] = it.returns
            # fingerprints with ordinals
            seen = {}
            for s in it.sites:
                fp = fingerprint(F, b, s)
                n = seen.get((s.kind, fp), 0); seen[(s.kind, fp)] = n + 1
                s.fp = '%s#%d' % (fp, n) if n else fp
                self.sites.append(s)

    def recursive(self):
        return self.cg.recursive_components(self.reach)
