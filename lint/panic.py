"""Panic-freedom inventory + discharge (DESIGN.md section 4): runs the abstract interpreter bottom-up over the call graph
below the given entry points, collects every Assert terminator and every call to a panicking external, and reports which
are discharged by the interval / option-state reading under the contracts table."""
import json, os, re
from .facts import VERIF, is_test_fn, Unanalysable
from .callgraph import callgraph
from .cfg import cfg_of
from . import effects
from .absint import Ctx, Interp
from .extern_models import Models
from .dataflow import expr_of, expr_str, defs_of

_models = None


def models():
    global _models
    if _models is None: _models = Models()
    return _models


def load_contracts():
    p = os.path.join(VERIF, 'tables', 'contracts.json')
    if not os.path.exists(p): return {'params': {}, 'fields': {}, 'returns': {}}
    return json.load(open(p))


OLD_FINGERPRINTS = False      # migration switch (tools only)


def fingerprint(F, body, site):
    """line-number free description of a site: kind + structural expressions of the asserted operands"""
    from . import dataflow as _df
    prev = _df.NORM_UNSIGNED; _df.NORM_UNSIGNED = True
    try: return _fingerprint(F, body, site, canon=not OLD_FINGERPRINTS)
    finally: _df.NORM_UNSIGNED = prev


_FP_IDENTITY = ('::copied', '::cloned', '::clone', '::deref', '::deref_mut', '::as_ref', '::as_mut', '::borrow', 'Into<U>>::into', 'From<', '::as_slice', '::as_mut_slice')
_FP_COMM = ('Eq', 'Ne', 'BitOr', 'BitAnd', 'BitXor', 'min', 'max')


def canon_str(e, names=None):
    """spelling-independent rendering of an operand expression for site fingerprints: sums and products in a sorted polynomial normal form
    (a - 4b + 4c - d == a - d + 4(c - b)), commutative operators with sorted operands, value-preserving wrappers (copied / clone / deref / into) dropped"""
    def poly(x):
        # {monomial (sorted tuple of atom strings): coefficient}
        if not isinstance(x, tuple) or not x: return {(str(x),): 1}
        k = x[0]
        if k == 'c' and isinstance(x[1], int) and not isinstance(x[1], bool): return {(): x[1]} if x[1] else {}
        if k == 'op' and x[1] in ('Add', 'AddWithOverflow', 'AddUnchecked', 'Sub', 'SubWithOverflow', 'SubUnchecked'):
            a, b = poly(x[2]), poly(x[3]); sg = 1 if x[1].startswith('Add') else -1
            r = dict(a)
            for m, c in b.items():
                r[m] = r.get(m, 0) + sg * c
                if r[m] == 0: del r[m]
            return r
        if k == 'op' and x[1] in ('Mul', 'MulWithOverflow', 'MulUnchecked'):
            a, b = poly(x[2]), poly(x[3])
            if len(a) * len(b) > 64: return {(atom(x),): 1}
            r = {}
            for m1, c1 in a.items():
                for m2, c2 in b.items():
                    m = tuple(sorted(m1 + m2)); r[m] = r.get(m, 0) + c1 * c2
                    if r[m] == 0: del r[m]
            return r
        return {(atom(x),): 1}
    def atom(x):
        if not isinstance(x, tuple) or not x: return str(x)
        k = x[0]
        if k == 'call' and len(x) == 3 and any(i in x[1] for i in _FP_IDENTITY): return render(x[2])
        if k == 'op' and x[1] in _FP_COMM: return '%s(%s)' % (x[1], ', '.join(sorted(render(y) for y in x[2:])))
        if k == 'op': return '%s(%s, %s)' % (x[1], render(x[2]), render(x[3]))
        if k == 'call':
            nm = x[1].split('::')[-1] if '>::' not in x[1] else x[1].split('>::')[-1]
            args = [render(y) for y in x[2:]]
            if nm in _FP_COMM: args = sorted(args)
            return '%s(%s)' % (nm, ', '.join(args))
        if k == 'cast': return '(%s as %s)' % (render(x[2]), x[1])
        if k == 'un': return '%s(%s)' % (x[1], render(x[2]))
        if k == 'fld': return '%s%s' % (render(x[1]), ''.join('.%s' % (_fs(y),) for y in x[2]))
        if k == 'len': return 'len(%s)' % render(x[1])
        if k == 'agg' and x[1] == 'RangeTo' and len(x) == 3: return 'Range(0, %s)' % render(x[2])       # `..n` is `0..n`
        if k == 'agg': return '%s(%s)' % (x[1], ', '.join(render(y) for y in x[2:]))
        return expr_str(x, names)
    def render(x):
        if isinstance(x, tuple) and x and x[0] == 'op' and x[1].replace('WithOverflow', '').replace('Unchecked', '') in ('Add', 'Sub', 'Mul'):
            pl = poly(x)
            if not pl: return '0'
            parts = []
            for m, c in sorted(pl.items()):
                parts.append(str(c) if not m else ('*'.join(m) if c == 1 else '%d*%s' % (c, '*'.join(m))))
            return '(' + ' + '.join(parts) + ')'
        if isinstance(x, tuple) and x and x[0] == 'c': return str(x[1])
        return atom(x)
    from .dataflow import _fs
    return render(e)


def _fingerprint(F, body, site, canon=True):
    import hashlib
    expr_str_ = (lambda e_, n_: canon_str(e_, n_)) if canon else expr_str
    t = body['blocks'][site.bb]['term']
    names = body.get('debug', {})
    if site.kind.startswith('cast:'):
        fp = site.kind
        for s_ in body['blocks'][site.bb]['stmts']:
            if s_['s'] == 'assign' and s_['rv']['r'] == 'cast' and s_.get('span') == site.span and \
                    site.kind == 'cast:%s->%s' % (s_['rv']['a'].get('p', {}).get('ty'), s_['rv']['to']['s']):
                fp = '%s(%s)' % (site.kind, expr_str_(expr_of(F, body, s_['rv']['a']), names)); break
    elif t['t'] == 'assert':
        ops = [expr_str_(expr_of(F, body, o), names) for o in t['ops']]
        fp = '%s(%s)' % (t['kind'], ' ; '.join(ops))
    elif t['t'] == 'call':
        ops = [expr_str_(expr_of(F, body, a), names) for a in t['args'][:3]]
        fp = '%s(%s)' % (site.kind.split(':', 1)[1] if ':' in site.kind else site.kind, ' ; '.join(ops))
    else:
        fp = site.kind
    if len(fp) > 180:
        fp = fp[:170] + '~' + hashlib.sha1(fp.encode()).hexdigest()[:10]
    return fp


class PanicAnalysis:
    def __init__(self, F, roots, contracts=None):
        self.F = F
        self.cg = callgraph(F)
        self.contracts = contracts if contracts is not None else load_contracts()
        self.ctx = Ctx(F, self.contracts, effects.analysis(F), models())
        self.reach = self.cg.reachable(roots)
        self.order = self.cg.topo_bottom_up(self.reach)
        self.errors = []
        # two passes: the first one collects the values captured by closures at their creation sites (closures are
        # analysed before their creators, so their upvars are unknown then); the second one uses them
        for rnd in (0, 1):
            self._pass()
            if self.ctx.closure_env_next == self.ctx.closure_env: break
            self.ctx.closure_env = self.ctx.closure_env_next; self.ctx.closure_env_next = {}
            if rnd == 0:
                self.ctx.contract_viol = []; self.ctx.field_viol = []; self.ctx.unknown_externs = {}; self.ctx.param_obs = {}

    def _pass(self):
        F = self.F
        self.interps = {}
        self.sites = []
        for name in self.order:
            b = F.bodies[name]
            if b['kind'] in ('Const', 'Static', 'Promoted'): continue
            try:
                it = Interp(self.ctx, b).run()
            except RecursionError as e:
                self.errors.append((name, 'recursion')); continue
            self.interps[name] = it
            self.ctx.summaries[name] = it.returns
            # fingerprints with ordinals
            seen = {}
            for s in it.sites:
                fp = fingerprint(F, b, s)
                n = seen.get((s.kind, fp), 0); seen[(s.kind, fp)] = n + 1
                s.fp = '%s#%d' % (fp, n) if n else fp
                self.sites.append(s)

    def recursive(self):
        return self.cg.recursive_components(self.reach)
