"""Per-body control-flow graph utilities: constant-branch pruning, dominators, post-dominators,
control dependence, natural loops, reachability."""
import collections


def const_value(o):
    """Integer value of a constant operand, or None."""
    if o.get('o') == 'const' and 'bits' in o:
        ty = o['ty']['t']; bits = int(o['bits'])
        if ty['k'] == 'int' and ty['s']:
            w = ty['bits']
            if bits >= (1 << (w - 1)): bits -= (1 << w)
        if ty['k'] == 'float':
            import struct
            return struct.unpack('<f', struct.pack('<I', bits))[0] if ty['bits'] == 32 else struct.unpack('<d', struct.pack('<Q', bits))[0]
        return bits
    return None


def raw_succs(t):
    k = t['t']
    if k == 'goto': return [t['to']]
    if k == 'switch':
        out = []
        for a in t['arms']:
            if a[1] not in out: out.append(a[1])
        if t['otherwise'] not in out: out.append(t['otherwise'])
        return out
    if k in ('call', 'drop', 'assert'):
        return [t['to']] if t.get('to') is not None else []
    if k == 'other':
        # FalseEdge / FalseUnwind / InlineAsm etc. do not survive to optimized MIR at level 0
        return []
    return []


# enum type (printed without generic arguments) -> number of variants; filled from the ADT facts on load
ENUM_VARIANTS = {'std::option::Option': 2, 'std::result::Result': 2, 'std::ops::ControlFlow': 2, 'std::cmp::Ordering': 3}


def _strip_generics(s):
    out = []; depth = 0
    for ch in s:
        if ch == '<': depth += 1
        elif ch == '>': depth -= 1
        elif depth == 0: out.append(ch)
    return ''.join(out)


def _exhaustive_discr_switch(blk, t):
    """switch on `discriminant(place)` (computed in the same block) whose arms cover every variant: `otherwise` is dead."""
    on = t['on']
    if on.get('o') not in ('move', 'copy') or on['p']['proj']:
        return False
    for s in reversed(blk['stmts']):
        if s['s'] == 'assign' and s['lhs']['l'] == on['p']['l'] and not s['lhs']['proj']:
            if s['rv']['r'] != 'discr':
                return False
            ty = _strip_generics(s['rv']['p']['ty']).lstrip('&').strip()
            if ty.startswith('mut '): ty = ty[4:]
            n = ENUM_VARIANTS.get(ty)
            if n is None:
                return False
            vals = {int(a[0]) for a in t['arms']}
            if ty == 'std::cmp::Ordering':
                return len(vals) >= 3
            return all(v in vals for v in range(n))
    return False


class CFG:
    def __init__(self, body, prune=True):
        self.body = body
        self.blocks = body['blocks']
        n = len(self.blocks)
        self.n = n
        self.succ = []
        for b in self.blocks:
            t = b['term']
            s = raw_succs(t)
            if prune and t['t'] == 'switch':
                on = t['on']
                if on.get('o') == 'const' and 'bits' in on:
                    v = int(on['bits'])
                    tgt = t['otherwise']
                    for val, to in t['arms']:
                        if int(val) == v:
                            tgt = to
                    s = [tgt]
                elif _exhaustive_discr_switch(b, t):
                    s = []
                    for a in t['arms']:
                        if a[1] not in s: s.append(a[1])
            self.succ.append(s)
        # reachability from entry
        self.reach = set(); st = [0]
        while st:
            x = st.pop()
            if x in self.reach: continue
            self.reach.add(x); st.extend(self.succ[x])
        self.pred = [[] for _ in range(n)]
        for i in self.reach:
            for j in self.succ[i]:
                self.pred[j].append(i)
        self._rpo = None; self._idom = None; self._ipdom = None; self._loops = None; self._cd = None

    # ---- orderings
    def rpo(self):
        if self._rpo is None:
            seen = set(); order = []
            st = [(0, iter(self.succ[0]))]; seen.add(0)
            while st:
                x, it = st[-1]
                adv = False
                for y in it:
                    if y not in seen:
                        seen.add(y); st.append((y, iter(self.succ[y]))); adv = True; break
                if not adv:
                    order.append(x); st.pop()
            self._rpo = order[::-1]
        return self._rpo

    # ---- dominators (Cooper-Harvey-Kennedy)
    def _dom_generic(self, entry_nodes, succ, pred, nodes):
        # virtual root -1
        order = []; seen = set()
        def dfs(root):
            st = [(root, iter(succ(root)))]; seen.add(root)
            while st:
                x, it = st[-1]; adv = False
                for y in it:
                    if y not in seen and y in nodes:
                        seen.add(y); st.append((y, iter(succ(y)))); adv = True; break
                if not adv:
                    order.append(x); st.pop()
        for e in entry_nodes:
            if e not in seen: dfs(e)
        rpo = order[::-1]
        num = {x: i for i, x in enumerate(rpo)}
        idom = {e: -1 for e in entry_nodes}
        def intersect(a, b):
            while a != b:
                while a != -1 and b != -1 and num[a] > num[b]: a = idom[a]
                while a != -1 and b != -1 and num[b] > num[a]: b = idom[b]
                if a == -1 or b == -1: return -1
            return a
        changed = True
        while changed:
            changed = False
            for x in rpo:
                if x in entry_nodes: continue
                ps = [p for p in pred(x) if p in idom]
                if not ps: continue
                new = ps[0]
                for p in ps[1:]: new = intersect(new, p)
                if idom.get(x, None) != new:
                    idom[x] = new; changed = True
        return idom

    def idom(self):
        if self._idom is None:
            self._idom = self._dom_generic([0], lambda x: self.succ[x], lambda x: self.pred[x], self.reach)
        return self._idom

    def dominates(self, a, b):
        """a dominates b (reflexive)."""
        idom = self.idom()
        x = b
        while x != -1 and x is not None:
            if x == a: return True
            x = idom.get(x, -1)
        return False

    def exits(self):
        return [i for i in self.reach if not self.succ[i]]

    def ipdom(self):
        if self._ipdom is None:
            ex = self.exits()
            self._ipdom = self._dom_generic(ex, lambda x: self.pred[x], lambda x: self.succ[x], self.reach)
        return self._ipdom

    def postdominates(self, a, b):
        ip = self.ipdom(); x = b
        while x != -1 and x is not None:
            if x == a: return True
            x = ip.get(x, -1)
        return False

    # ---- control dependence: block -> set of (branch block, successor taken)
    def control_deps(self):
        if self._cd is None:
            ip = self.ipdom()
            cd = collections.defaultdict(set)
            for a in self.reach:
                if len(self.succ[a]) < 2: continue
                for s in self.succ[a]:
                    # walk from s up the post-dominator tree until ipdom(a)
                    stop = ip.get(a, -1)
                    x = s
                    while x != stop and x != -1 and x is not None:
                        cd[x].add((a, s))
                        x = ip.get(x, -1)
            self._cd = cd
        return self._cd

    # ---- natural loops: header -> set(blocks)
    def loops(self):
        if self._loops is None:
            loops = {}
            for i in self.reach:
                for j in self.succ[i]:
                    if self.dominates(j, i):
                        body = loops.setdefault(j, {j})
                        st = [i]
                        while st:
                            x = st.pop()
                            if x in body: continue
                            body.add(x); st.extend(self.pred[x])
            self._loops = loops
        return self._loops

    def back_edges(self):
        return [(i, j) for i in self.reach for j in self.succ[i] if self.dominates(j, i)]

    def reachable_from(self, starts, avoid=()):
        seen = set(); st = list(starts)
        while st:
            x = st.pop()
            if x in seen or x in avoid: continue
            seen.add(x); st.extend(self.succ[x])
        return seen

    def reachable_from_after(self, bb):
        """blocks reachable from the successors of bb (bb itself only if on a cycle)."""
        return self.reachable_from(self.succ[bb])

    def can_reach(self, targets):
        """set of blocks from which some block in targets is reachable (including targets)."""
        seen = set(); st = list(targets)
        while st:
            x = st.pop()
            if x in seen: continue
            seen.add(x); st.extend(p for p in self.pred[x])
        return seen

    def term(self, bb):
        return self.blocks[bb]['term']

    def calls(self):
        for i in sorted(self.reach):
            t = self.blocks[i]['term']
            if t['t'] == 'call':
                yield i, t


_cfg_cache = {}


def cfg_of(body):
    k = id(body)
    c = _cfg_cache.get(k)
    if c is None or c.body is not body:
        c = CFG(body); _cfg_cache[k] = c
    return c
