"""Positive controls: the rules are run on a fixture crate of deliberately bad constructs (selftest/fixture) on every run;
a rule whose expected count on /repo is zero must still fire there, otherwise it is reported as broken."""
import os
from . import facts as factsmod
from .report import Check

_fx = {}


def fixture_facts():
    if 'f' not in _fx:
        d = os.path.join(factsmod.VERIF, 'selftest', 'fixture')
        raw = factsmod.dump(repo=d, crates=['vfixture'])
        _fx['f'] = factsmod.Facts(raw, crates=['vfixture'])
    return _fx['f']


def run_fixture(ck, pid, expected, fn):
    """expected: {rule: [substring of a violation key, ...]}"""
    try:
        F2 = fixture_facts()
    except factsmod.Unanalysable as e:
        ck.unanalysable('fixture crate', 'positive-control fixture could not be analysed: %s' % e)
        return
    sub = Check(pid + '-fixture', ck.tier)
    fn(sub, F2)
    keys = [(o['rule'], o['instance']) for o in sub.obligations if o['status'] == 'violation']
    for rule, subs in expected.items():
        for s in subs:
            hit = [k for (r, k) in keys if r == rule and s in k]
            if hit:
                ck.ok('positive-control', '%s fires on fixture construct %r (%d)' % (rule, s, len(hit)), nontrivial=False)
            else:
                ck.violation('positive-control', 'positive-control : %s : %s' % (rule, s), None,
                             'rule %s did not fire on the fixture construct %r: the rule (or the driver fact it relies on) is broken' % (rule, s))
    ck.count('fixture_violations_seen', len(keys))
