"""Termination argument (DESIGN.md 4.7): no recursion; every natural loop is (i) driven by a finite iterator, (ii) consumes
input on every cycle, or (iii) advances a counter towards a loop-invariant bound."""
import re
from .cfg import cfg_of, const_value
from .dataflow import defs_of, callee_is, strip_ref, expr_of, expr_str, const_item_of
from .callgraph import callgraph
from . import tables

RD = 'parser::reader::H263Reader::<R>::'
FINITE_NEXT = re.compile(r'^std::iter::range::<impl std::iter::Iterator for std::ops::Range<A>>::next$'
                         r'|^<std::iter::(Enumerate|Zip|Skip|Take|Map|Rev|Copied|Cloned)<.*> as std::iter::Iterator>::next$'
                         r'|^<std::slice::(Iter|IterMut|ChunksExact|ChunksExactMut|Chunks|ChunksMut)<.*> as std::iter::Iterator>::next$'
                         r'|^<std::collections::vec_deque::(Iter|IterMut)<.*> as std::iter::Iterator>::next$'
                         r'|^<std::vec::IntoIter<.*> as std::iter::Iterator>::next$'
                         r'|^<(core|std)::array::IntoIter<.*> as std::iter::Iterator>::next$')


def _is_err_def(F, d):
    """definition of the return slot that can only be an Err"""
    if d[0] == 'call':
        return callee_is(F, d[3], 'from_residual')
    if d[0] == 'assign':
        rv = d[3]['rv']
        return rv['r'] == 'agg' and rv['kind'].get('vname') == 'Err' and rv['kind'].get('path') == 'std::result::Result'
    return False


class Consumption:
    """which functions, when they return Ok (Ok(Some) for union transactions), have consumed at least one bit"""

    def __init__(self, F):
        self.F = F
        self.cg = callgraph(F)
        self.must = {}
        self.why = {}
        self.noncons = {}        # fn -> set of Ok-payload enum variants that may be returned without consuming ('*' = unknown)
        order = self.cg.topo_bottom_up(set(F.bodies))
        for name in order:
            b = F.bodies[name]
            if b['crate'] != 'h263_rs' or b['kind'] in ('Const', 'Static', 'Promoted'): continue
            self.must[name] = self._compute(name, b)

    # ---- call-site level
    def call_consumes(self, body, t):
        """does this call consume >= 1 bit whenever it returns Ok (Ok(Some))"""
        F = self.F
        if callee_is(F, t, RD + 'skip_bits', RD + 'read_bits', RD + 'read_signed_bits'):
            e = expr_of(F, body, t['args'][1])
            if e[0] == 'c' and e[1] >= 1: return True
            if e[0] == 'op' and e[1] == 'Add' and any(x[0] == 'c' and x[1] >= 1 for x in e[2:]) and body['locals'][0] is not None:
                # 17 + k with k unsigned
                return True
            return False
        if callee_is(F, t, RD + 'read_u8', RD + 'read_umv'): return True
        if callee_is(F, t, RD + 'read_vlc'):
            item = const_item_of(F, body, t['args'][1])
            if item is None: return False
            ents = tables.vlc_entries(F, body['crate'] + '::' + item)
            return bool(ents) and ents[0][0] == 'fork'
        if callee_is(F, t, RD + 'with_transaction', RD + 'with_transaction_union'):
            cl = t['f'].get('closures', [])
            return bool(cl) and self.must.get(body['crate'] + '::' + cl[0], False)
        if callee_is(F, t, RD + 'with_lookahead', RD + 'peek_bits', RD + 'peek_signed_bits', RD + 'recognize_start_code'):
            return False
        loc = F.local_callee(body['crate'], t)
        if loc: return self.must.get(loc, False)
        return False

    def consuming_edges(self, body):
        """CFG edges taken only when a consuming call returned Ok (and Some, for Option payloads of union transactions)"""
        F = self.F; g = cfg_of(body); D = defs_of(body)
        edges = set()
        calls = {}
        partial = {}
        for bb, t in g.calls():
            if self.call_consumes(body, t): calls[bb] = t
            else:
                nc = self._callee_noncons(body, t)
                if nc is not None and nc and '*' not in nc: partial[bb] = nc
        if not calls and not partial: return edges
        union_calls = {bb for bb, t in calls.items() if self._is_union(body, t)}
        for bb in g.reach:
            t = g.blocks[bb]['term']
            if t['t'] != 'switch' or t['on']['o'] == 'const': continue
            o = D.origin(t['on'])
            if not (o[0] == 'rv' and o[2]['rv']['r'] == 'discr'): continue
            po = D.origin_place(o[2]['rv']['p'])
            while po[0] == 'ref': po = po[1]
            src = None; sig = None; kind = None
            if po[0] == 'call':
                if callee_is(F, po[2], 'Try>::branch'):
                    ro = D.origin(po[2]['args'][0])
                    if ro[0] == 'call' and (ro[1] in calls or ro[1] in partial) and not ro[3]: src = ro[1]; sig = _sig(po[3]); kind = 'branch'
                elif po[1] in calls or po[1] in partial:
                    src = po[1]; sig = _sig(po[3]); kind = 'match'
            if src is None: continue
            arms = {int(v): to for v, to in t['arms']}
            if src in partial:
                # only some payload variants are known to imply consumption: the switch on the payload's discriminant
                if sig == (('as', 0), 0):
                    for v, to in arms.items():
                        if v not in partial[src] and to != t['otherwise']: edges.add((bb, to))
                continue
            if src in union_calls:
                # Ok(Some(_)): for `?` the Continue payload is the Option; for a match, ((r as Ok).0 as Some)
                if kind == 'match' and sig == (('as', 0), 0) and 1 in arms: edges.add((bb, arms[1]))
                if kind == 'branch' and sig == (('as', 0), 0) and 1 in arms: edges.add((bb, arms[1]))
            else:
                if sig == () and 0 in arms: edges.add((bb, arms[0]))
        return edges

    def _is_union(self, body, t):
        F = self.F
        if callee_is(F, t, RD + 'with_transaction_union'): return True
        loc = F.local_callee(body['crate'], t)
        if loc:
            lb = F.bodies[loc]
            for bb, t2 in cfg_of(lb).calls():
                if callee_is(F, t2, RD + 'with_transaction_union') and t2['dest']['l'] == 0: return True
        return False

    def _compute(self, name, b):
        F = self.F; g = cfg_of(b); D = defs_of(b)
        if not (b['ret']['s'].startswith('std::result::Result<')):
            return False
        # tail-call wrappers: `_0 = callee(..)` as the only non-error definition
        defs0 = [d for d in D.defs.get(0, []) if not (d[0] == 'assign' and d[3]['lhs']['proj'])]
        okdefs = [d for d in defs0 if not _is_err_def(F, d)]
        if not okdefs: return False
        edges = self.consuming_edges(b)
        # blocks reachable from entry without using a consuming edge
        seen = set(); st = [0]
        while st:
            x = st.pop()
            if x in seen: continue
            seen.add(x)
            for y in g.succ[x]:
                if (x, y) not in edges: st.append(y)
        res = True
        nc = set()
        for d in okdefs:
            bb = d[1]
            if d[0] == 'call' and self.call_consumes(b, d[3]):
                continue
            if d[0] == 'call':
                # a tail call: inherit the callee's per-variant knowledge
                inner = self._callee_noncons(b, d[3])
                if inner is not None and bb not in seen: continue
                if inner is not None:
                    nc |= inner; res = False
                    self.why[name] = 'tail call at bb%d may return Ok without consuming (variants %s)' % (bb, sorted(map(str, inner)))
                    continue
            if d[0] == 'assign' and self._is_ok_none(b, d):
                continue        # Ok(None) of a union transaction: rolled back, not a consuming success
            if bb in seen:
                self.why[name] = 'return value defined at bb%d is reachable without consuming' % bb
                v = self._ok_payload_variant(b, d)
                nc.add(v if v is not None else '*')
                res = False
        self.noncons[name] = nc
        return res

    def _callee_noncons(self, body, t):
        F = self.F
        if callee_is(F, t, RD + 'with_transaction', RD + 'with_transaction_union'):
            cl = t['f'].get('closures', [])
            if cl: return self.noncons.get(body['crate'] + '::' + cl[0])
            return None
        loc = F.local_callee(body['crate'], t)
        if loc: return self.noncons.get(loc)
        return None

    def _ok_payload_variant(self, b, d):
        if d[0] != 'assign': return None
        rv = d[3]['rv']
        if rv['r'] == 'agg' and rv['kind'].get('vname') == 'Ok' and rv['ops']:
            o = defs_of(b).origin(rv['ops'][0])
            if o[0] == 'rv' and o[2]['rv']['r'] == 'agg' and o[2]['rv']['kind']['a'] == 'adt' and not o[3]:
                return o[2]['rv']['kind']['variant']
        return None

    def _is_ok_none(self, b, d):
        rv = d[3]['rv']
        if rv['r'] == 'agg' and rv['kind'].get('vname') == 'Ok' and rv['ops']:
            e = expr_of(self.F, b, rv['ops'][0])
            return e[0] == 'agg' and e[1] == 'None'
        return False


def _sig(proj):
    out = []
    for e in proj:
        if e['p'] == 'deref': continue
        if e['p'] == 'downcast': out.append(('as', e['v']))
        elif e['p'] == 'field': out.append(e['i'])
        else: out.append(e['p'])
    return tuple(out)


def classify_loops(F, names, consumption=None):
    """returns list of dicts: fn, header, kind in {'iterator','consuming','counter','unclassified'}, detail"""
    out = []
    for name in sorted(names):
        b = F.bodies[name]
        if b['kind'] in ('Const', 'Static', 'Promoted'): continue
        g = cfg_of(b); D = defs_of(b)
        for h, body in sorted(g.loops().items()):
            rec = {'fn': name, 'header': h, 'line': _line(b, h), 'kind': 'unclassified', 'detail': ''}
            # (i) finite iterator: some exit of the loop is the None arm of a finite iterator's next(), and that switch is on every cycle
            it = _iterator_exit(F, b, g, D, h, body)
            if it:
                rec['kind'] = 'iterator'; rec['detail'] = it; out.append(rec); continue
            # (ii) input consuming
            if consumption is not None and b['crate'] == 'h263_rs':
                edges = consumption.consuming_edges(b)
                if edges and not _cycle_avoiding(g, h, body, edges):
                    calls = sorted({F.callee_name(g.blocks[bb]['term']).split('::')[-1] for bb in body if g.blocks[bb]['term']['t'] == 'call' and consumption.call_consumes(b, g.blocks[bb]['term'])})
                    rec['kind'] = 'consuming'; rec['detail'] = 'every cycle takes the Ok edge of one of: %s' % ', '.join(calls); out.append(rec); continue
                # (ii)+(iii): lexicographic - every cycle either consumes input or grows a vector whose length is tested
                # against a loop-invariant bound at an exit that is on every cycle
                if edges:
                    cv = _counted_vector_pushes(F, b, g, D, h, body)
                    if cv and not _cycle_avoiding(g, h, body, edges, cv[0]):
                        rec['kind'] = 'consuming+counter'
                        rec['detail'] = 'every cycle consumes input or pushes to the vector bounded by the exit test %s' % cv[1]; out.append(rec); continue
            # (iii) monotone counter
            c = _counter(F, b, g, D, h, body)
            if c:
                rec['kind'] = 'counter'; rec['detail'] = c; out.append(rec); continue
            out.append(rec)
    return out


def _line(b, bb):
    t = b['blocks'][bb]['term']
    if t.get('span'): return t['span']['line']
    st = b['blocks'][bb]['stmts']
    return st[0]['span']['line'] if st and 'span' in st[0] else b['span']['line']


def _cycle_avoiding(g, h, body, removed_edges, removed_blocks=()):
    """is there a cycle through h inside the loop that avoids the removed edges / blocks?"""
    seen = set(); st = [y for y in g.succ[h] if y in body and (h, y) not in removed_edges]
    if h in removed_blocks: return False
    while st:
        x = st.pop()
        if x == h: return True
        if x in seen or x in removed_blocks: continue
        seen.add(x)
        for y in g.succ[x]:
            if y in body and (x, y) not in removed_edges: st.append(y)
    return False


def _counted_vector_pushes(F, b, g, D, h, body):
    """(push blocks, description) for a vector v such that the loop has an exit `len(v) >= bound` (bound loop-invariant) on every cycle"""
    for bb in body:
        t = g.blocks[bb]['term']
        if t['t'] != 'switch' or t['on']['o'] == 'const': continue
        if not [s_ for s_ in g.succ[bb] if s_ not in body]: continue
        if _cycle_avoiding(g, h, body, set(), {bb}): continue
        o = D.origin(t['on'])
        if not (o[0] == 'rv' and o[2]['rv']['r'] == 'bin' and o[2]['rv']['op'] in ('Ge', 'Gt', 'Lt', 'Le', 'Eq')): continue
        rv = o[2]['rv']
        arms = {int(v): to for v, to in t['arms']}
        for len_op, bound_op, exit_when_true in ((rv['a'], rv['b'], rv['op'] in ('Ge', 'Gt', 'Eq')), (rv['b'], rv['a'], rv['op'] in ('Le', 'Lt', 'Eq'))):
            lo = D.origin(len_op)
            if not (lo[0] == 'call' and callee_is(F, lo[2], 'Vec::<T, A>::len')): continue
            vo = strip_ref(D.origin(lo[2]['args'][0]))
            vl = vo[1] if vo[0] == 'multi' else (vo[2]['dest']['l'] if vo[0] == 'call' else None)
            if vl is None: continue
            exit_edge = t['otherwise'] if exit_when_true else arms.get(0)
            if exit_edge in body: continue
            pushes = set()
            for pb in body:
                pt = g.blocks[pb]['term']
                if pt['t'] == 'call' and callee_is(F, pt, 'Vec::<T, A>::push'):
                    po = strip_ref(D.origin(pt['args'][0]))
                    pl = po[1] if po[0] == 'multi' else (po[2]['dest']['l'] if po[0] == 'call' else None)
                    if pl == vl: pushes.add(pb)
            if pushes:
                return pushes, '%s(len(_%d), %s)' % (rv['op'], vl, expr_str(expr_of(F, b, bound_op))[:60])
    return None


def _iterator_exit(F, b, g, D, h, body):
    for bb in body:
        t = g.blocks[bb]['term']
        if t['t'] != 'switch' or t['on']['o'] == 'const': continue
        exits = [s for s in g.succ[bb] if s not in body]
        if not exits: continue
        o = D.origin(t['on'])
        if not (o[0] == 'rv' and o[2]['rv']['r'] == 'discr'): continue
        po = D.origin_place(o[2]['rv']['p'])
        if po[0] != 'call' or po[3]: continue
        ct = po[2]
        name = F.callee_name(ct)
        if name.startswith('bytemuck::core::'): name = name[len('bytemuck::'):]
        if not FINITE_NEXT.search(name): continue
        arms = {int(v): to for v, to in t['arms']}
        if arms.get(0) not in exits: continue
        # the next() call is on every cycle
        if _cycle_avoiding(g, h, body, set(), {po[1]}): continue
        # a Range iterator: the end bound is a field nobody writes (next only advances start) - finite by construction
        return '%s at line %s' % (name.split(' as ')[0].lstrip('<')[-60:], ct['span']['line'])
    return None


def _counter(F, b, g, D, h, body):
    for bb in body:
        t = g.blocks[bb]['term']
        if t['t'] != 'switch' or t['on']['o'] == 'const': continue
        exits = [s for s in g.succ[bb] if s not in body]
        if not exits: continue
        if _cycle_avoiding(g, h, body, set(), {bb}): continue
        o = D.origin(t['on'])
        if not (o[0] == 'rv' and o[2]['rv']['r'] == 'bin' and o[2]['rv']['op'] in ('Lt', 'Le', 'Gt', 'Ge', 'Ne')): continue
        rv = o[2]['rv']
        for ctr_op, bound_op, ops_up, down in ((rv['a'], rv['b'], ('Lt', 'Le', 'Ne'), False), (rv['b'], rv['a'], ('Gt', 'Ge', 'Ne'), False),
                                               (rv['a'], rv['b'], ('Gt', 'Ge'), True), (rv['b'], rv['a'], ('Lt', 'Le'), True)):
            if rv['op'] not in ops_up: continue
            # the loop continues on the arm where the comparison holds (`while ctr < bound` / `while ctr > bound`)
            arms_ = {int(v): to for v, to in t['arms']}
            if arms_.get(0) in body and t['otherwise'] not in body: continue      # continues when the comparison is false: not this direction
            co = D.origin(ctr_op)
            if co[0] != 'multi':
                # `L + c <= bound`
                ce = expr_of(F, b, ctr_op)
                if ce[0] == 'op' and ce[1] == 'Add' and ce[2][0] == 'multi' and ce[3][0] == 'c' and ce[3][1] >= 0: co = ce[2]
                else: continue
            L = co[1]
            steps = [d for d in D.defs.get(L, []) if d[1] in body]
            if not steps: continue
            good = True
            for d in steps:
                if d[0] != 'assign': good = False; break
                e = expr_of(F, b, {'o': 'copy', 'p': d[3]['lhs']}) if False else None
                from .dataflow import _expr_rv
                e = _expr_rv(F, b, d[3]['rv'], 0, {})
                if down: ok = (e[0] == 'op' and e[1] == 'Sub' and e[2] == ('multi', L) and e[3][0] == 'c' and isinstance(e[3][1], int) and e[3][1] >= 1)
                else: ok = (e[0] == 'op' and e[1] in ('Add', 'Shl') and ((e[2] == ('multi', L) and e[3][0] == 'c' and e[3][1] >= 1)))
                if not ok: good = False; break
            if not good: continue
            # the bound is loop invariant: no local it reads is assigned in the loop
            be = expr_of(F, b, bound_op)
            mods = {d_[0] for l_, ds in D.defs.items() for d_ in [(l_,)] if any(x[1] in body for x in ds)}
            def reads_modified(e):
                if isinstance(e, tuple):
                    if e and e[0] == 'multi' and e[1] in mods: return True
                    return any(reads_modified(x) for x in e[1:] if isinstance(x, tuple))
                return False
            if reads_modified(be): continue
            # every cycle performs a step
            if _cycle_avoiding(g, h, body, set(), {d[1] for d in steps}): continue
            return 'counter _%d steps %s by a positive constant towards %s' % (L, 'down' if down else 'up', expr_str(be)[:80])
    return None
