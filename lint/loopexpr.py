"""Structural expressions with loop indices made explicit (used by the clause checks C02/C03/C08/C10/C13).

`Norm(T)` rewrites the def-use expressions of a bitslice.Table (which stops at every local that is mutated through `&mut`,
so iterator locals and scratch arrays keep their identity) into terms

    ('c', v)                      constant
    ('v', name)                   a parameter / field of a parameter / mutated local, by source name
    ('ix', L)                     the index variable of counted loop L (L = the iterator local; bounds in .loops[L])
    ('el', array, index)          an element:  array[index]   (from `arr[i]`, `for x in arr.iter()`, `.iter().enumerate()`, ...)
    ('chunk', array, size, ix)    the ix-th `size`-element chunk of array (`chunks_exact`)
    ('+', a, b, ...) ('*', a, b, ...)    flattened, constants folded, operands sorted (integer and power-of-two float factors commute exactly)
    ('f', name, args...)          other operators: Sub Div clamp signum trunc(float->int) min max ...
    ('agg', tag, ...) ('fld', x, path)

Two index styles, `for i in 0..n { a[i] }` and `for (i, x) in a.iter().take(n).enumerate()`, normalise to the same term.
"""
import math
from . import dataflow
from .facts import Unanalysable

CALL_OPS = [
    ('as std::ops::Mul', 'Mul'), ('as std::ops::Add', 'Add'), ('as std::ops::Sub', 'Sub'), ('as std::ops::Div', 'Div'),
    ('::signum', 'signum'), ('Ord>::clamp', 'clamp'), ('Ord for i16>::clamp', 'clamp'), ('Ord for isize>::clamp', 'clamp'), ('::clamp', 'clamp'),
    ('std::cmp::Ord::min', 'min'), ('std::cmp::Ord::max', 'max'), ('std::cmp::min', 'min'), ('std::cmp::max', 'max'), ('::min', 'min'), ('::max', 'max'),
    ('::div_ceil', 'divceil'), ('f32>::ceil', 'ceil'), ('f32>::floor', 'floor'), ('::ceil', 'ceil'), ('::floor', 'floor'),
    ('core::slice::<impl [T]>::len', 'len'), ('Vec::<T, A>::len', 'len'), ('Vec::<T>::len', 'len'),
    ('::saturating_sub', 'satsub'), ('::abs', 'abs'),
]
IDENTITY_CALLS = ('<I as std::iter::IntoIterator>::into_iter', 'as std::convert::Into<U>>::into', 'std::convert::From<', '::deref', '::deref_mut', '::as_slice', '::as_mut_slice',
                  'as std::ops::Index<I>>::index', 'as std::ops::IndexMut<I>>::index_mut', '::as_ref', '::as_mut', 'std::borrow::Borrow', '::clone', '::as_array_ref', '::iter_mut', '::iter',
                  'Option::<&T>::copied', 'Option::<&T>::cloned', 'Option::<&mut T>::copied')


def call_op(name):
    n = name.split('#')[0]
    for suf, op in CALL_OPS:
        if suf in n: return op
    return None


class Loop:
    def __init__(self, L, kind, lo, hi, array=None, chunk=None, note=None):
        self.L = L; self.kind = kind; self.lo = lo; self.hi = hi; self.array = array; self.chunk = chunk; self.note = note

    def __repr__(self):
        return 'Loop(%s %s %s..%s%s)' % (self.L, self.kind, show(self.lo), show(self.hi), ' over ' + show(self.array) if self.array else '')


class Norm:
    def __init__(self, T):
        self.T = T
        self.loops = {}
        self._it = {}

    # ---- iterators
    def iterator(self, L):
        """description of iterator local L from its initial definition:  ('range', lo, hi) | ('seq', array, bound, enumerated, chunk)"""
        if L in self._it: return self._it[L]
        self._it[L] = None
        defs = self.T.local_defs(L)
        if len(defs) != 1: return None
        e = defs[0][2]
        r = self._iter_expr(e)
        self._it[L] = r
        return r

    def _iter_expr(self, e):
        """iterator descriptor: ('range', lo, hi, step) | ('seq', array, chunk) | ('enum', d) | ('take', d, n) | ('zip', d1, d2)"""
        e = strip(e)
        if e[0] == 'call':
            n = e[1].split('#')[0]
            if n.endswith('IntoIterator>::into_iter') and len(e) == 3: return self._iter_expr(e[2])
            if n.endswith('Iterator::enumerate') and len(e) == 3:
                r = self._iter_expr(e[2])
                return ('enum', r) if r else None
            if n.endswith('Iterator::take') and len(e) == 4:
                r = self._iter_expr(e[2])
                return ('take', r, self.n(e[3])) if r else None
            if (n.endswith('::iter') or n.endswith('::iter_mut')) and len(e) == 3:
                return ('seq', self.n(e[2]), None)
            if (n.endswith('::chunks_exact') or n.endswith('::chunks_exact_mut') or n.endswith('::chunks') or n.endswith('::chunks_mut')) and len(e) == 4:
                return ('seq', self.n(e[2]), (self.n(e[3]), 'exact' if 'exact' in n else 'ragged'))
            if n.endswith('Iterator::zip') and len(e) == 4:
                a, b = self._iter_expr(e[2]), self._iter_expr(e[3])
                return ('zip', a, b) if a and b else None
            if n.endswith('Iterator::step_by') and len(e) == 4:
                r = self._iter_expr(e[2])
                if r and r[0] == 'range': return ('range', r[1], r[2], self.n(e[3]))
                return None
        if e[0] == 'agg' and e[1] == 'Range' and len(e) == 4:
            return ('range', self.n(e[2]), self.n(e[3]), ('c', 1))
        if e[0] in ('multi', 'param', 'fld', 'opq'):
            return ('seq', self.n(e), None)          # `for x in &array` / `for x in slice`
        return None

    def _length(self, d):
        if d[0] == 'range': return mk_sub(d[2], d[1]) if d[3] == ('c', 1) else ('f', 'divceil', mk_sub(d[2], d[1]), d[3])
        if d[0] == 'seq': return ('f', 'len', d[1]) if d[2] is None else ('f', 'Div', ('f', 'len', d[1]), d[2][0])
        if d[0] == 'enum': return self._length(d[1])
        if d[0] == 'take':
            inner = self._length(d[1])
            # `take(n)` of a fixed-size scratch array: the bound that matters is n (the rules that care compare n with the array size themselves)
            return d[2] if d[1][0] == 'seq' else ('f', 'min', inner, d[2])
        if d[0] == 'zip': return ('f', 'min', self._length(d[1]), self._length(d[2]))
        return ('f', '?len')

    def item(self, L, rest):
        """the value produced by `next()` of iterator L, projected by `rest`"""
        it = self.iterator(L)
        if it is None:
            return wrap(('f', 'item', ('v', self.T.names.get(str(L), '_%d' % L) + '#%d' % L)), self.npath(rest))
        return self._item(it, L, tuple(rest), it[0] != 'range')

    def _item(self, d, L, rest, counted):
        """counted: the loop index ('ix', L) counts from 0 (anything but a bare range)"""
        ix = ('ix', L)
        if d[0] == 'range':
            if counted:
                if L not in self.loops: self.loops[L] = Loop(L, 'count', ('c', 0), self._length(d))
                return wrap(mk_add([d[1], ix if d[3] == ('c', 1) else mk_mul([ix, d[3]])]), self.npath(rest))
            self.loops[L] = Loop(L, 'range', d[1], d[2], note=d[3] if d[3] != ('c', 1) else None)
            return wrap(ix, self.npath(rest))
        if d[0] == 'seq':
            if L not in self.loops: self.loops[L] = Loop(L, 'seq', ('c', 0), self._length(d), array=d[1], chunk=d[2])
            elem = ('chunk', d[1], d[2][0], ix) if d[2] is not None else ('el', d[1], ix)
            return wrap(elem, self.npath(rest))
        if d[0] == 'take':
            if L not in self.loops:
                self.loops[L] = Loop(L, 'seq' if d[1][0] == 'seq' else 'count', ('c', 0), self._length(d), array=d[1][1] if d[1][0] == 'seq' else None)
            return self._item(d[1], L, rest, True)
        if d[0] == 'enum':
            if L not in self.loops:
                inner = d[1]
                self.loops[L] = Loop(L, 'seq' if inner[0] in ('seq',) or (inner[0] == 'take' and inner[1][0] == 'seq') else 'count', ('c', 0), self._length(d),
                                     array=inner[1] if inner[0] == 'seq' else (inner[1][1] if inner[0] == 'take' and inner[1][0] == 'seq' else None))
            if rest[:1] == (0,): return wrap(ix, self.npath(rest[1:]))
            if rest[:1] == (1,): return self._item(d[1], L, rest[1:], True)
            return wrap(('agg', 'tuple', ix, self._item(d[1], L, (), True)), self.npath(rest))
        if d[0] == 'zip':
            if L not in self.loops: self.loops[L] = Loop(L, 'count', ('c', 0), self._length(d))
            if rest[:1] == (0,): return self._item(d[1], L, rest[1:], True)
            if rest[:1] == (1,): return self._item(d[2], L, rest[1:], True)
            return wrap(('agg', 'tuple', self._item(d[1], L, (), True), self._item(d[2], L, (), True)), self.npath(rest))
        return wrap(('f', 'item', ('v', '_%d' % L)), self.npath(rest))

    # ---- terms
    def npath(self, path):
        out = []
        for x in path:
            if isinstance(x, tuple) and x and x[0] == 'idx': out.append(('idx', self.n(x[1])))
            else: out.append(x)
        return tuple(out)

    def n(self, e):
        if not isinstance(e, tuple) or not e: return ('c', e)
        k = e[0]
        if k == 'c': return ('c', e[1])
        if k == 'cast':
            inner = self.n(e[2])
            kind = e[3] if len(e) > 3 else ''
            if kind == 'FloatToInt': return ('f', 'trunc', inner)
            if kind == 'IntToInt' and len(e) > 4 and not value_preserving(e[4], e[1]):
                if inner[0] == 'c' and isinstance(inner[1], int) and not isinstance(inner[1], bool): return ('c', wrap_int(inner[1], e[1]))
                if inner[0] == 'f' and inner[1] == 'clamp' and len(inner) == 5 and all(x[0] == 'c' and isinstance(x[1], int) and wrap_int(x[1], e[1]) == x[1] for x in inner[3:5]):
                    return inner                            # clamp(x, lo, hi) with constant bounds inside the target type: the cast cannot change the value
                if inner[0] == 'f' and inner[1] == 'Rem' and inner[3][0] == 'c' and isinstance(inner[3][1], int) and 0 < inner[3][1] <= 127 and e[4] in INT_TYPES and not INT_TYPES[e[4]][1]:
                    return inner                            # x % c of an unsigned x lies in 0..c-1
                return ('f', 'as_' + e[1], inner)          # narrowing / sign-changing cast: part of the value computed, kept
            return inner
        if k == 'param':
            base = ('v', self.T.show(('param', e[1], ())))
            return wrap(base, self.npath(self._upvar(e)))
        if k in ('multi', 'opq', 'fs'):
            base = ('v', self.T.names.get(str(e[1]), '_%d' % e[1]))
            return wrap(base, self.npath(e[2] if len(e) > 2 else ()))
        if k == 'fld':
            base = e[1]
            path = tuple(e[2])
            if base[0] == 'call' and base[1].split('#')[0].endswith('Iterator>::next') or base[0] == 'call' and base[1].split('#')[0].endswith('::next'):
                arg = strip(base[2]) if len(base) > 2 else None
                if arg is not None and arg[0] in ('multi', 'opq') and path[:1] == (('as', 1),) and path[1:2] == (0,):
                    return self.item(arg[1], path[2:])
            if base[0] == 'call' and base[1].split('#')[0].endswith('Try>::branch') and path[:2] == (('as', 0), 0) and len(base) == 3:
                return wrap(('f', 'try', self.n(base[2])), self.npath(path[2:]))          # `x?`
            if base[0] == 'call' and base[1].split('#')[0].endswith('core::slice::<impl [T]>::get') and len(base) == 4 and path[:2] == (('as', 1), 0):
                # the Some payload of `slice.get(i)` is element i (the None case is a guard, seen as such by the path conditions)
                return wrap(('el', self.n(base[2]), self.n(base[3])), self.npath(path[2:]))
            return wrap(self.n(base), self.npath(path))
        if k == 'op':
            a, b = self.n(e[2]), self.n(e[3])
            return self.op(e[1], a, b)
        if k == 'un':
            return ('f', e[1], self.n(e[2]))
        if k == 'len': return ('f', 'len', self.n(e[1]))
        if k == 'call':
            n = e[1].split('#')[0]
            args = [self.n(x) for x in e[2:]]
            op = call_op(n)
            if op in ('Mul', 'Add', 'Sub', 'Div') and len(args) == 2: return self.op(op, args[0], args[1])
            if op == 'min' and len(args) == 2:
                # a.saturating_sub(b).min(c) with a constant c >= 0 is (a - b).clamp(0, c)
                for p_, q_ in ((args[0], args[1]), (args[1], args[0])):
                    if p_[0] == 'f' and p_[1] == 'satsub' and len(p_) == 4 and q_[0] == 'c' and isinstance(q_[1], int) and not isinstance(q_[1], bool) and q_[1] >= 0:
                        return ('f', 'clamp', mk_sub(p_[2], p_[3]), ('c', 0), q_)
            if op in ('min', 'max') and len(args) == 2:
                # x.max(lo).min(hi) / x.min(hi).max(lo) with constant lo <= hi is x.clamp(lo, hi)
                other = 'max' if op == 'min' else 'min'
                for p_, q_ in ((args[0], args[1]), (args[1], args[0])):
                    if q_[0] == 'c' and not isinstance(q_[1], bool) and isinstance(q_[1], (int, float)) and p_[0] == 'f' and p_[1] == other and len(p_) == 4:
                        for x_, c_ in ((p_[2], p_[3]), (p_[3], p_[2])):
                            if c_[0] == 'c' and isinstance(c_[1], (int, float)) and not isinstance(c_[1], bool):
                                lo, hi = (c_, q_) if op == 'min' else (q_, c_)
                                if lo[1] <= hi[1]: return ('f', 'clamp', x_, lo, hi)
            if op is not None: return ('f', op) + tuple(args)
            if ('ops::Index<' in n and n.endswith('::index') or 'ops::IndexMut<' in n and n.endswith('::index_mut')) and len(args) == 2:
                return ('slice', args[0], args[1])
            if any(s in n for s in IDENTITY_CALLS) and len(args) >= 1:
                return args[0]
            short = n.split('>::')[-1] if '>::' in n else n.split('::')[-1]
            return ('f', short) + tuple(args)
        if k == 'agg': return ('agg', e[1]) + tuple(self.n(x) for x in e[2:])
        if k == 'item': return ('v', 'const ' + str(e[1]).split('::')[-1])
        if k == 'repeat': return ('f', 'repeat', self.n(e[1]), ('c', e[2]))
        if k == 'discr': return ('f', 'discr', self.n(e[1]))
        if k == 'ref': return self.n(e[1])
        return ('f', '?' + str(k))

    def _upvar(self, e):
        proj = tuple(e[2])
        up = self.T.b.get('upvars') or {}
        if e[1] == 1 and proj and isinstance(proj[0], int) and str(proj[0]) in up: return proj     # show() names it
        return proj

    def op(self, name, a, b):
        if name in ('Add', 'AddUnchecked', 'AddWithOverflow'):
            # x / c + (x % c != 0) as _   ==  div_ceil(x, c)
            for p, q in ((a, b), (b, a)):
                if p[0] == 'f' and p[1] == 'Div' and p[3][0] == 'c' and isinstance(p[3][1], int):
                    x, c = p[2], p[3]
                    ne = ('f', 'Ne', *sorted((('f', 'Rem', x, c), ('c', 0)), key=repr))
                    if q == ne or q == ('f', 'from', ne) or q == ('f', 'as_usize', ne) or q == ('f', 'Gt', ('f', 'Rem', x, c), ('c', 0)):
                        return ('f', 'divceil', x, c)
            return mk_add([a, b])
        if name in ('Mul', 'MulUnchecked', 'MulWithOverflow'): return mk_mul([a, b])
        if name in ('Sub', 'SubUnchecked', 'SubWithOverflow'):
            return mk_add([a, mk_mul([('c', -1), b])])          # a - b as a sum (polynomial normal form; overflow is the panic inventory's business)
        if name == 'Div':
            if b[0] == 'c' and isinstance(b[1], float) and b[1] != 0 and is_pow2(b[1]): return mk_mul([a, ('c', 1.0 / b[1])])
            if b[0] == 'c' and isinstance(b[1], int) and not isinstance(b[1], bool) and b[1] > 0:
                # exact integer division of a monomial whose constant factor is a multiple of the divisor
                k, m = _mono(a) if a[0] in ('*',) else ((a[1], ()) if a[0] == 'c' and isinstance(a[1], int) else (1, (a,)))
                if isinstance(k, int) and not isinstance(k, bool) and k % b[1] == 0 and a[0] != '+':
                    return mk_mul(list(m) + [('c', k // b[1])])
                if a[0] == 'f' and a[1] == 'Div' and a[3][0] == 'c' and isinstance(a[3][1], int) and a[3][1] > 0:
                    return self.op('Div', a[2], ('c', a[3][1] * b[1]))          # (x / c) / d = x / (c d) for unsigned x
            return ('f', 'Div', a, b)
        if name == 'Shl' and b[0] == 'c' and isinstance(b[1], int): return mk_mul([a, ('c', 1 << b[1])])
        if name == 'Shr' and b[0] == 'c' and isinstance(b[1], int): return ('f', 'Div', a, ('c', 1 << b[1]))      # operands here are unsigned sizes / indices
        if name == 'BitAnd':
            for x, y in ((a, b), (b, a)):
                if y[0] == 'c' and isinstance(y[1], int) and y[1] > 0 and (y[1] & (y[1] + 1)) == 0: return ('f', 'Rem', x, ('c', y[1] + 1))
        if name in ('BitOr', 'BitAnd', 'BitXor', 'Eq', 'Ne'):
            x, y = sorted((a, b), key=repr)
            return ('f', name, x, y)
        return ('f', name, a, b)


INT_TYPES = {'i8': (8, True), 'i16': (16, True), 'i32': (32, True), 'i64': (64, True), 'isize': (64, True), 'i128': (128, True),
             'u8': (8, False), 'u16': (16, False), 'u32': (32, False), 'u64': (64, False), 'usize': (64, False), 'u128': (128, False)}


def value_preserving(src, dst):
    """an integer `as` cast that cannot change the value: widening with the same signedness, unsigned to a wider signed type, and usize -> isize
    (sizes and indices stay below 2^63: the MEM_BOUND assumption).  Everything else (narrowing, signed -> unsigned, u8 -> i8, ...) can."""
    if src not in INT_TYPES or dst not in INT_TYPES: return True          # bool / char / pointer-ish casts: not arithmetic
    sb, ss = INT_TYPES[src]; db, ds = INT_TYPES[dst]
    if ss == ds: return db >= sb
    if not ss and ds: return db > sb or (src == 'usize' and dst == 'isize')
    return False


def wrap_int(v, ty):
    bits, signed = INT_TYPES[ty]
    v &= (1 << bits) - 1
    if signed and v >= 1 << (bits - 1): v -= 1 << bits
    return v


def is_pow2(x):
    if x == 0: return False
    m, _ = math.frexp(abs(x))
    return m == 0.5


def strip(e):
    while isinstance(e, tuple) and e and e[0] in ('cast', 'ref'):
        e = e[2] if e[0] == 'cast' else e[1]
    return e


def wrap(base, path):
    """apply a projection path to a term: indices become ('el', ...), fields stay as ('fld', ...)"""
    cur = base
    pend = []
    for x in path:
        if isinstance(x, tuple) and x and x[0] == 'idx':
            if pend: cur = ('fld', cur, tuple(pend)); pend = []
            cur = ('el', cur, x[1])
        elif isinstance(x, tuple) and x and x[0] == 'cidx':
            if pend: cur = ('fld', cur, tuple(pend)); pend = []
            cur = ('el', cur, ('c', x[1]))
        else:
            pend.append(x)
    if pend:
        if cur[0] == 'agg' and isinstance(pend[0], int) and pend[0] < len(cur) - 2:
            return wrap(cur[2 + pend[0]], tuple(pend[1:]))
        cur = ('fld', cur, tuple(pend))
    return cur


def _mono(a):
    """(coefficient, monomial key) of a summand"""
    if a[0] == '*':
        cs = [x for x in a[1:] if x[0] == 'c' and isinstance(x[1], (int, float)) and not isinstance(x[1], bool)]
        rest = tuple(x for x in a[1:] if x not in cs)
        c = 1
        for x in cs: c = c * x[1]
        return c, rest
    return 1, (a,)


def mk_add(args):
    flat = []
    c = 0
    for a in args:
        if a[0] == '+': flat.extend(a[1:])
        else: flat.append(a)
    monos = {}
    order = []
    for a in flat:
        if a[0] == 'c' and isinstance(a[1], (int, float)) and not isinstance(a[1], bool): c += a[1]; continue
        k, m = _mono(a)
        if m not in monos: monos[m] = 0; order.append(m)
        monos[m] += k
    out = []
    for m in order:
        k = monos[m]
        if k == 0: continue
        if k == 1: out.append(m[0] if len(m) == 1 else ('*',) + tuple(sorted(m, key=repr)))
        else: out.append(('*',) + tuple(sorted(m, key=repr)) + (('c', k),))
    out.sort(key=repr)
    if c != 0 or not out: out.append(('c', c))
    return out[0] if len(out) == 1 else ('+',) + tuple(out)


def mk_mul(args):
    flat = []
    for a in args:
        if a[0] == '*': flat.extend(a[1:])
        else: flat.append(a)
    # distribute over sums: polynomials become sums of monomials
    for i, a in enumerate(flat):
        if a[0] == '+':
            rest = flat[:i] + flat[i + 1:]
            return mk_add([mk_mul([x] + rest) for x in a[1:]])
    ci = 1; cf = 1.0; isf = False; out = []
    for a in flat:
        if a[0] == 'c' and isinstance(a[1], int) and not isinstance(a[1], bool): ci *= a[1]
        elif a[0] == 'c' and isinstance(a[1], float) and is_pow2(a[1]): cf *= a[1]; isf = True
        else: out.append(a)
    out.sort(key=repr)
    if isf:
        c = cf * ci
        if c != 1.0 or not out: out.append(('c', c))
    elif ci == 0:
        return ('c', 0)
    elif ci != 1 or not out:
        out.append(('c', ci))
    return out[0] if len(out) == 1 else ('*',) + tuple(out)


def mk_sub(a, b):
    return mk_add([a, mk_mul([('c', -1), b])])


def show(t):
    if not isinstance(t, tuple) or not t: return str(t)
    k = t[0]
    if k == 'c': return repr(t[1]) if isinstance(t[1], float) else str(t[1])
    if k == 'v': return t[1]
    if k == 'ix': return 'i%d' % t[1]
    if k == 'el': return '%s[%s]' % (show(t[1]), show(t[2]))
    if k == 'chunk': return '%s.chunk%s[%s]' % (show(t[1]), show(t[2]), show(t[3]))
    if k == 'slice': return '%s[%s]' % (show(t[1]), show(t[2]))
    if k == '+': return '(' + ' + '.join(show(x) for x in t[1:]) + ')'
    if k == '*': return '*'.join(show(x) if x[0] != '+' else show(x) for x in t[1:])
    if k == 'f': return '%s(%s)' % (t[1], ', '.join(show(x) for x in t[2:]))
    if k == 'agg': return '%s(%s)' % (t[1], ', '.join(show(x) for x in t[2:]))
    if k == 'fld': return '%s%s' % (show(t[1]), ''.join('.%s' % dataflow._fs(x) for x in t[2]))
    return str(t)


def subst(t, mapping):
    if t in mapping: return mapping[t]
    if not isinstance(t, tuple): return t
    return tuple(subst(x, mapping) if isinstance(x, tuple) else x for x in t)


def find(t, pred, acc=None):
    if acc is None: acc = []
    if isinstance(t, tuple):
        if pred(t): acc.append(t)
        for x in t:
            if isinstance(x, tuple): find(x, pred, acc)
    return acc


# ---------------------------------------------------------------------------------------------------
# tabulating closed forms
def f32_exact(r):
    """r has at most 24 significant bits (is an f32 value, so the f32 operation producing it did not round)"""
    m, e = math.frexp(r)
    return m * (1 << 24) == int(m * (1 << 24)) and abs(r) < 2.0 ** 120


class NotExact(Exception):
    pass


def _tdiv(a, b):
    """Rust integer division: truncation toward zero (Python's // floors)"""
    q = abs(a) // abs(b)
    return q if (a >= 0) == (b >= 0) else -q


def ev(t, env):
    """value of a normalised term on concrete numbers (a finite table of a closed form; nothing of /repo is executed).
    Floats model f32: every intermediate must be exactly representable (integers or halves below 2^24), else NotExact."""
    k = t[0]
    if k == 'c': return t[1]
    if t in env: return env[t]
    if k == '+': return sum(ev(x, env) for x in t[1:])
    if k == '*':
        r = 1
        for x in t[1:]: r = r * ev(x, env)
        if isinstance(r, float) and not f32_exact(r): raise NotExact(show(t))
        return r
    if k == 'f':
        a = [ev(x, env) for x in t[2:]]
        n = t[1]
        if n.startswith('as_') and n[3:] in INT_TYPES: return wrap_int(int(a[0]), n[3:])
        if n == 'ceil': return float(math.ceil(a[0]))
        if n == 'floor': return float(math.floor(a[0]))
        if n == 'trunc': return int(a[0])
        if n == 'divceil': return -((-a[0]) // a[1])
        if n == 'Div':
            if isinstance(a[0], float) or isinstance(a[1], float):
                r = a[0] / a[1]
                if not f32_exact(r): raise NotExact(show(t))
                return r
            return _tdiv(a[0], a[1])
        if n == 'Rem':
            if isinstance(a[0], float) or isinstance(a[1], float): return math.fmod(a[0], a[1])
            return a[0] - a[1] * _tdiv(a[0], a[1])
        if n == 'Shr': return a[0] >> a[1]
        if n == 'BitAnd': return a[0] & a[1]
        if n == 'Sub': return a[0] - a[1]
        if n == 'satsub': return max(0, a[0] - a[1])
        if n in ('Gt', 'Ge', 'Lt', 'Le', 'Eq', 'Ne'):
            return int({'Gt': a[0] > a[1], 'Ge': a[0] >= a[1], 'Lt': a[0] < a[1], 'Le': a[0] <= a[1], 'Eq': a[0] == a[1], 'Ne': a[0] != a[1]}[n])
        if n == 'from': return a[0]
        if n == 'len' and t in env: return env[t]
        if n == 'min': return min(a)
        if n == 'max': return max(a)
    raise Unanalysable('cannot tabulate %s' % show(t))



# ---------------------------------------------------------------------------------------------------
# guards: the switch decisions a block is (transitively) control dependent on
def guards(T, bb):
    """{(switch block, successor)} over the transitive control dependence of bb, switch terminators only"""
    cd = T.g.control_deps()
    out = set(); seen = set(); st = [bb]
    while st:
        x = st.pop()
        if x in seen: continue
        seen.add(x)
        for (a, s) in cd.get(x, ()):
            if T.g.blocks[a]['term']['t'] == 'switch':
                out.add((a, s))
            st.append(a)
    return out


def guard_term(T, N, a, s):
    """(normalised operand of the switch at block a, values selecting successor s, is the successor the `otherwise` arm)"""
    t = T.g.blocks[a]['term']
    vals = [int(v) for v, to in t['arms'] if to == s]
    return N.n(T.ex(t['on'])), vals, (s == t['otherwise'] and not vals), [int(v) for v, _ in t['arms']]


def truth_of(term, vals, is_other, all_vals):
    """for a boolean switch operand: (atom term, truth) with negations and `== false` folded; None if not boolean"""
    if not set(all_vals) <= {0, 1}: return None
    if vals == [0] or (is_other and all_vals == [1]): truth = False
    elif vals == [1] or (is_other and all_vals == [0]): truth = True
    else: return None
    while True:
        if term[0] == 'f' and term[1] == 'Not': term = term[2]; truth = not truth; continue
        if term[0] == 'f' and term[1] in ('Eq', 'Ne') and ('c', 0) in term[2:] and False: pass
        break
    NEG = {'Eq': 'Ne', 'Ne': 'Eq', 'Lt': 'Ge', 'Ge': 'Lt', 'Gt': 'Le', 'Le': 'Gt'}
    if not truth and term[0] == 'f' and term[1] in NEG:
        term = ('f', NEG[term[1]]) + term[2:]; truth = True
    return term, truth


def place_term(T, N, place):
    """normalised term of an assignment target / read place"""
    return N.n(T.ex({'o': 'copy', 'p': place}))


def stores(T, N, pred=None):
    """[(bb, stmt, target term, value term)] of the assignments through a reference / into an indexed place"""
    out = []
    for bb in sorted(T.g.reach):
        for s in T.g.blocks[bb]['stmts']:
            if s['s'] != 'assign': continue
            proj = s['lhs']['proj']
            if not any(e['p'] in ('deref', 'index', 'cindex') for e in proj): continue
            if pred is not None and not pred(s): continue
            out.append((bb, s, place_term(T, N, s['lhs']), N.n(T.ex_rv(s['rv']))))
    return out
