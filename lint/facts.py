"""Fact loading: runs the `mirfacts` rustc driver over /repo and exposes the dumped MIR facts.

Nothing in here (or anywhere in lint/) executes code of /repo: the driver stops after
analysis (`cargo check`), and the python side only reads the JSON it wrote.
"""
import json, os, shutil, subprocess, sys, tempfile, time

VERIF = os.path.dirname(os.path.dirname(os.path.abspath(__file__)))
REPO = os.environ.get('VERIF_REPO', '/repo')
DRIVER = os.path.join(VERIF, 'driver', 'target', 'debug', 'mirfacts')
CRATES = ['h263_rs', 'h263_rs_yuv', 'h263_rs_deblock']


class Unanalysable(Exception):
    """Raised when an anchor / fact the rules rely on is missing: checks fail closed."""


def _sysroot():
    return subprocess.check_output(['rustc', '+nightly', '--print', 'sysroot'], text=True).strip()


def ensure_driver():
    if os.path.exists(DRIVER):
        src = os.path.join(VERIF, 'driver', 'src', 'main.rs')
        if os.path.getmtime(src) <= os.path.getmtime(DRIVER):
            return
    env = dict(os.environ, CARGO_NET_OFFLINE='true')
    r = subprocess.run(['cargo', 'build', '--offline'], cwd=os.path.join(VERIF, 'driver'), env=env,
                       stdout=subprocess.PIPE, stderr=subprocess.STDOUT, text=True)
    if r.returncode != 0 or not os.path.exists(DRIVER):
        raise Unanalysable('driver build failed:\n' + r.stdout[-3000:])


def dump(debug_assertions=False, tests=False, keep=None, repo=None, crates=None):
    """Run the driver over /repo's working tree with a fresh target dir; return {crate: json}."""
    ensure_driver()
    repo = repo or REPO; crates = crates or CRATES
    tmp = tempfile.mkdtemp(prefix='mirfacts-')
    try:
        out = os.path.join(tmp, 'facts'); os.makedirs(out)
        env = dict(os.environ)
        env.update({
            'LD_LIBRARY_PATH': _sysroot() + '/lib',
            'RUSTFLAGS': '-Zmir-opt-level=0 -Awarnings -Coverflow-checks=on -Cdebug-assertions=%s' % ('on' if debug_assertions else 'off'),
            'RUSTC_WORKSPACE_WRAPPER': DRIVER,
            'MIRFACTS_OUT': out,
            'MIRFACTS_CRATES': ','.join(crates),
            'CARGO_TARGET_DIR': os.path.join(tmp, 'target'),
            'CARGO_NET_OFFLINE': 'true',
        })
        cmd = ['cargo', '+nightly', 'check', '--offline', '--workspace']
        if tests:
            cmd.append('--all-targets')
        r = subprocess.run(cmd, cwd=repo, env=env, stdout=subprocess.PIPE, stderr=subprocess.STDOUT, text=True)
        if r.returncode != 0:
            raise Unanalysable('cargo check of %s failed (the tree does not compile?):\n%s' % (repo, r.stdout[-4000:]))
        res = {}
        for c in crates:
            p = os.path.join(out, c + '.json')
            if not os.path.exists(p):
                raise Unanalysable('fact file for crate %s was not produced (driver skipped?)' % c)
            d = json.load(open(p))
            if d.get('crate') != c:
                raise Unanalysable('fact file %s carries crate name %r' % (p, d.get('crate')))
            res[c] = d
            if tests:
                pt = os.path.join(out, c + '-test.json')
                if os.path.exists(pt):
                    res[c + '-test'] = json.load(open(pt))
        if keep:
            shutil.copytree(out, keep, dirs_exist_ok=True)
        return res
    finally:
        shutil.rmtree(tmp, ignore_errors=True)


class Facts:
    """All bodies of the three crates, keyed `crate::path`."""

    def __init__(self, raw, crates=None):
        self.raw = raw
        CRATES = crates or globals()['CRATES']
        self.bodies = {}
        self.adts = {}
        self.statics = []
        self.unsafe = []
        self.crate_of = {}
        for c in CRATES:
            d = raw[c]
            for b in d['bodies']:
                name = c + '::' + b['fn']
                b['name'] = name; b['crate'] = c
                if name in self.bodies:
                    # bitflags generates several `_` consts with identical paths; keep them apart
                    k = 2
                    while '%s#%d' % (name, k) in self.bodies: k += 1
                    name = '%s#%d' % (name, k); b['name'] = name
                self.bodies[name] = b
            for a in d['adts']:
                self.adts[c + '::' + a['path']] = a
                if a['kind'] == 'enum':
                    from . import cfg as _cfg
                    ds = [int(v['discr']) for v in a['variants']]
                    if ds == list(range(len(ds))):
                        _cfg.ENUM_VARIANTS[a['path']] = len(ds)
            for s in d['statics']:
                s = dict(s); s['crate'] = c; self.statics.append(s)
            for u in d['unsafe']:
                u = dict(u); u['crate'] = c; self.unsafe.append(u)

    # ---- lookups (fail closed)
    def body(self, name):
        b = self.bodies.get(name)
        if b is None:
            raise Unanalysable('anchor function not found in MIR facts: %s' % name)
        return b

    def has(self, name):
        return name in self.bodies

    def find(self, suffix, crate=None):
        hits = [n for n in self.bodies if n.endswith(suffix) and (crate is None or n.startswith(crate + '::'))]
        if len(hits) != 1:
            raise Unanalysable('expected exactly one body matching *%s, found %d: %s' % (suffix, len(hits), hits[:5]))
        return self.bodies[hits[0]]

    def adt(self, name):
        a = self.adts.get(name)
        if a is None:
            raise Unanalysable('ADT not found in facts: %s' % name)
        return a

    def local_callee(self, crate, term):
        """Name (in self.bodies) of the local function a call terminator resolves to, or None."""
        f = term['f']
        if f.get('o') != 'const' or 'fn' not in f:
            return None
        for cand in (f.get('resolved'), f.get('fn')):
            if cand and (crate + '::' + cand) in self.bodies:
                return crate + '::' + cand
        return None

    def callee_name(self, term):
        f = term['f']
        if f.get('o') != 'const' or 'fn' not in f:
            return '<indirect>'
        return f.get('resolved') or f['fn']


_cache = {}


def load(debug_assertions=False, tests=False):
    key = (debug_assertions, tests)
    if key not in _cache:
        pre = os.environ.get('VERIF_FACTS_DIR')   # developer shortcut only; never set by MANIFEST commands
        if pre and not debug_assertions and not tests:
            raw = {c: json.load(open(os.path.join(pre, c + '.json'))) for c in CRATES}
        else:
            raw = dump(debug_assertions, tests)
        from . import canonnames
        fn_renames = canonnames.rename_functions(raw, CRATES) if not tests else []      # a renamed private function gets its reviewed path back
        F = Facts(raw)
        F.fn_renamed = fn_renames
        F.debug_assertions = bool(debug_assertions)
        canonnames.apply(F)      # renamed variables get the names of the reviewed tree back (tables/known_locals.json)
        canonnames.rename_fields(F)
        canonnames.normalize_int_conversions(F)
        from . import inline
        inline.apply(F)          # new private helpers (not in tables/known_functions.json) are spliced into their callers
        _cache[key] = F
    return _cache[key]


def is_test_fn(name):
    return '::tests::' in name or '::test::' in name or name.split('::')[-1].startswith('test_')


def is_generated(name):
    """bitflags / derive generated bodies (analysed when reached, but not part of hand-written inventories)."""
    return 'InternalBitFlags' in name or '::_::' in name or '__bitflags' in name or 'all_named' in name
