"""Def-use helpers over one MIR body: definitions of locals, tracing an operand back through copies to its origin."""
import collections
from .cfg import cfg_of, const_value


class Defs:
    def __init__(self, body):
        self.body = body
        self.g = cfg_of(body)
        self.defs = collections.defaultdict(list)      # local -> [(kind, bb, idx, payload)]
        for bb in sorted(self.g.reach):
            blk = self.g.blocks[bb]
            for i, s in enumerate(blk['stmts']):
                if s['s'] == 'assign':
                    if any(e['p'] == 'deref' for e in s['lhs']['proj']):
                        continue      # a store through a reference defines the pointee, not the local
                    self.defs[s['lhs']['l']].append(('assign', bb, i, s))
                elif s['s'] == 'setdiscr':
                    self.defs[s['p']['l']].append(('setdiscr', bb, i, s))
            t = blk['term']
            if t['t'] == 'call' and not any(e['p'] == 'deref' for e in t['dest']['proj']):
                self.defs[t['dest']['l']].append(('call', bb, None, t))

    def whole_defs(self, l):
        """definitions that assign the whole local (no projection on the lhs)."""
        out = []
        for d in self.defs.get(l, []):
            if d[0] == 'assign' and not d[3]['lhs']['proj']: out.append(d)
            elif d[0] == 'call' and not d[3]['dest']['proj']: out.append(d)
        return out

    def single_def(self, l):
        ds = self.defs.get(l, [])
        # drop-flag style const re-initialisations do not matter for non-bool locals
        if len(ds) == 1:
            return ds[0]
        return None

    def origin(self, o, through_refs=True, depth=0):
        """Follow copies/moves (and, optionally, `&place` / deref) of single-definition locals.
        Returns one of
          ('const', value, operand) ('param', k, proj) ('call', bb, term, proj) ('rv', bb, stmt, proj) ('multi', local, proj) ('fn', name)
        where proj is the residual projection (list of MIR projection elems) applied on top of the origin."""
        if o['o'] == 'const':
            if 'fn' in o: return ('fn', o.get('resolved') or o['fn'])
            return ('const', const_value(o), o)
        return self.origin_place(o['p'], through_refs, depth)

    def origin_place(self, p, through_refs=True, depth=0):
        l = p['l']; proj = list(p['proj'])
        if depth > 40:
            return ('multi', l, proj)
        if 1 <= l <= self.body['argc']:
            ds = self.defs.get(l, [])
            if not ds:
                return ('param', l, proj)
            return ('multi', l, proj)      # a parameter that is also assigned: the entry value is one more definition
        d = self.single_def(l)
        if d is None:
            return ('multi', l, proj)
        if d[0] == 'call':
            if d[3]['dest']['proj']: return ('multi', l, proj)
            return ('call', d[1], d[3], proj)
        if d[0] != 'assign' or d[3]['lhs']['proj']:
            return ('multi', l, proj)
        rv = d[3]['rv']
        if rv['r'] == 'use' and rv['a']['o'] in ('copy', 'move'):
            q = rv['a']['p']
            return self.origin_place({'l': q['l'], 'proj': list(q['proj']) + proj}, through_refs, depth + 1)
        if rv['r'] == 'use' and rv['a']['o'] == 'const':
            if proj: return ('rv', d[1], d[3], proj)
            return self.origin(rv['a'])
        if through_refs and rv['r'] in ('ref', 'rawptr'):
            # &place followed by a deref cancels
            if proj and proj[0]['p'] == 'deref':
                q = rv['p']
                return self.origin_place({'l': q['l'], 'proj': list(q['proj']) + proj[1:]}, through_refs, depth + 1)
            if not proj:
                q = rv['p']
                r = self.origin_place({'l': q['l'], 'proj': list(q['proj'])}, through_refs, depth + 1)
                return ('ref',) + (r,)
        return ('rv', d[1], d[3], proj)


def strip_ref(o):
    while isinstance(o, tuple) and o and o[0] == 'ref':
        o = o[1]
    return o


def fields_of(proj):
    return tuple(e['i'] for e in proj if e['p'] == 'field')


def callee_is(facts, term, *suffixes):
    n = facts.callee_name(term)
    f = term['f']
    names = [n]
    if f.get('o') == 'const' and 'fn' in f:
        names.append(f['fn'])
    for s in suffixes:
        for x in names:
            if x == s or x.endswith(s):
                return True
    return False


_defs_cache = {}


def defs_of(body):
    k = id(body)
    d = _defs_cache.get(k)
    if d is None or d.body is not body:
        d = Defs(body); _defs_cache[k] = d
    return d


def const_item_of(facts, body, operand, depth=0):
    """Name of the `const` item an operand (a reference / slice of it) ultimately refers to, or None.
    Follows copies, `&`/deref, `Index::index(.., RangeFull)`, unsizing casts and promoted constants."""
    D = defs_of(body)
    if depth > 20:
        return None
    if operand['o'] == 'const':
        if 'uneval' in operand:
            if 'promoted' in operand:
                pn = '%s::%s::promoted[%d]' % (body['crate'], operand['uneval'], operand['promoted'])
                pb = facts.bodies.get(pn)
                if pb is None:
                    return None
                # promoted body: _1 = const ITEM; _0 = &_1   (possibly with an index / cast)
                for d in defs_of(pb).defs.get(0, []):
                    if d[0] == 'assign':
                        rv = d[3]['rv']
                        if rv['r'] == 'ref':
                            return const_item_of(facts, pb, {'o': 'copy', 'p': rv['p']}, depth + 1)
                        if rv['r'] in ('use', 'cast'):
                            return const_item_of(facts, pb, rv['a'], depth + 1)
                return None
            return operand['uneval']
        return None
    o = D.origin(operand)
    o = strip_ref(o)
    if o[0] == 'const':
        return const_item_of(facts, body, o[2], depth + 1) if o[2].get('uneval') else None
    if o[0] == 'call':
        t = o[2]
        if callee_is(facts, t, '>::index', '::index', 'as_ref', 'as_slice', '::deref') and t['args']:
            return const_item_of(facts, body, t['args'][0], depth + 1)
        return None
    if o[0] == 'rv':
        rv = o[2]['rv']
        if rv['r'] in ('cast', 'use'):
            return const_item_of(facts, body, rv['a'], depth + 1)
        if rv['r'] == 'ref':
            return const_item_of(facts, body, {'o': 'copy', 'p': rv['p']}, depth + 1)
    return None


CAST_KINDS = False        # optional: cast expressions carry the MIR cast kind as a 4th element (IntToFloat, FloatToInt, ...)
NORM_UNSIGNED = False    # optional (site fingerprints): on unsigned operands x >> k reads as x / 2^k and x & (2^k - 1) as x % 2^k
CALL_TAGGER = None       # optional hook: (callee name, block, terminator) -> name used in expressions (to keep call sites apart)


# ---------------------------------------------------------------------------------------------------
# Structural expressions of operands (value numbering over single-definition chains; no paths, no loops)
def expr_of(facts, body, operand, depth=0, memo=None):
    """Nested-tuple expression of an operand:
       ('c', value) ('param', k, fields) ('op', name, e1, e2) ('un', name, e) ('cast', to, e) ('call', callee, e...)
       ('fld', e, fields) ('len', e) ('multi', local) ('agg', tag, e...) ('ref', e)
    Checked arithmetic `(XWithOverflow(a,b)).0` is read as X(a,b)."""
    D = defs_of(body)
    if memo is None: memo = {}
    if depth > 60:
        return ('deep',)
    if operand['o'] == 'const':
        if 'fn' in operand: return ('fn', operand.get('resolved') or operand['fn'])
        if 'uneval' in operand and 'promoted' not in operand and operand.get('ty', {}).get('t', {}).get('k') == 'adt':
            return ('item', operand['uneval'])      # a named constant of a struct type (bitflags): keep the name
        v = const_value(operand)
        if v is not None: return ('c', v)
        if 'uneval' in operand:
            it = const_item_of(facts, body, operand)
            if it is None and 'promoted' in operand:
                pv = _promoted_value(facts, body, operand)
                if pv is not None: return ('k', pv)
            return ('item', it or operand['uneval'])
        if 'static' in operand: return ('static', operand['static'])
        return ('k', operand.get('txt'))
    return expr_of_place(facts, body, operand['p'], depth, memo)


def _promoted_value(facts, body, operand):
    """printable value of a promoted constant that is not a named item (e.g. the `Some(1)` of `x == Some(1)`), folded from its MIR"""
    pn = '%s::%s::promoted[%d]' % (body['crate'], operand['uneval'], operand['promoted'])
    if pn not in facts.bodies: return None
    try:
        from . import tables
        v = tables.plain(tables.fold_const(facts, pn))
    except Exception:
        return None
    def r(x):
        if isinstance(x, tuple) and len(x) == 3 and isinstance(x[0], str) and isinstance(x[2], list):
            nm = {('Option', 0): 'None', ('Option', 1): 'Some'}.get((x[0], x[1]), '%s#%s' % (x[0], x[1]))
            return nm + ('(%s)' % ', '.join(r(y) for y in x[2]) if x[2] else '')
        if isinstance(x, (list, tuple)): return '[%s]' % ', '.join(r(y) for y in x)
        return str(x)
    return r(v)


def _proj_key(proj, resolve=None):
    out = []
    for e in proj:
        k = e['p']
        if k == 'deref': continue
        if k == 'field': out.append(e['i'])
        elif k == 'downcast': out.append(('as', e['v']))
        elif k == 'index': out.append(('idx', resolve(e['l']) if resolve else e['l']))
        elif k == 'cindex': out.append(('cidx', e['off'], e['end']))
        else: out.append((k,))
    return tuple(out)


def expr_of_place(facts, body, p, depth=0, memo=None):
    D = defs_of(body)
    if memo is None: memo = {}
    o = D.origin_place(p)
    refs = 0
    while o[0] == 'ref':
        o = o[1]; refs += 1
    k = o[0]
    _pk = globals()['_proj_key']
    def _proj_key(proj, _pk=_pk):
        return _pk(proj, lambda l: expr_of_place(facts, body, {'l': l, 'proj': []}, depth + 1, memo))
    if k == 'param':
        return ('param', o[1], _proj_key(o[2]))
    if k == 'multi':
        pk = _proj_key(o[2])
        return ('multi', o[1], pk) if pk else ('multi', o[1])
    if k == 'const':
        if o[1] is not None: return ('c', o[1])
        return expr_of(facts, body, o[2], depth + 1, memo)
    if k == 'fn':
        return ('fn', o[1])
    if k == 'call':
        t = o[2]; proj = o[3]
        key = ('call', id(t))
        if key not in memo:
            memo[key] = ('pending',)
            name = facts.callee_name(t)
            if CALL_TAGGER is not None:
                name = CALL_TAGGER(name, o[1], t)
            memo[key] = ('call', name) + tuple(expr_of(facts, body, a, depth + 1, memo) for a in t['args'])
        e = memo[key]
        pk = _proj_key(proj)
        return ('fld', e, pk) if pk else e
    if k == 'rv':
        s = o[2]; proj = o[3]
        key = ('rv', id(s))
        if key not in memo:
            memo[key] = ('pending',)
            memo[key] = _expr_rv(facts, body, s['rv'], depth + 1, memo)
        e = memo[key]
        pk = _proj_key(proj)
        if pk and e[0] == 'op' and e[1].endswith('WithOverflow'):
            if pk == (0,): return ('op', e[1][:-len('WithOverflow')], e[2], e[3])
            if pk == (1,): return ('ovf', e)
        if pk and e[0] == 'agg' and isinstance(pk[0], int) and pk[0] < len(e) - 2:
            sub = e[2 + pk[0]]
            return ('fld', sub, pk[1:]) if pk[1:] else sub
        if pk and e[0] == 'agg' and isinstance(pk[0], tuple) and pk[0][0] == 'as' and len(pk) > 1 and isinstance(pk[1], int) and pk[1] < len(e) - 2:
            sub = e[2 + pk[1]]
            return ('fld', sub, pk[2:]) if pk[2:] else sub
        return ('fld', e, pk) if pk else e
    return ('?', k)


def _expr_rv(facts, body, rv, depth, memo):
    k = rv['r']
    if k == 'use': return expr_of(facts, body, rv['a'], depth, memo)
    if k == 'bin':
        ea, eb = expr_of(facts, body, rv['a'], depth, memo), expr_of(facts, body, rv['b'], depth, memo)
        if NORM_UNSIGNED and rv['op'] in ('Shr', 'BitAnd'):
            a = rv['a']
            ty = a['p'].get('ty') if a.get('o') in ('copy', 'move') else (a.get('ty', {}).get('s') if isinstance(a.get('ty'), dict) else None)
            if isinstance(ty, str) and ty in ('u8', 'u16', 'u32', 'u64', 'u128', 'usize'):
                if rv['op'] == 'Shr' and eb[0] == 'c' and isinstance(eb[1], int) and 0 <= eb[1] < 64: return ('op', 'Div', ea, ('c', 1 << eb[1]))
                if rv['op'] == 'BitAnd':
                    for x, m in ((ea, eb), (eb, ea)):
                        if m[0] == 'c' and isinstance(m[1], int) and m[1] > 0 and (m[1] & (m[1] + 1)) == 0: return ('op', 'Rem', x, ('c', m[1] + 1))
        return ('op', rv['op'], ea, eb)
    if k == 'un':
        if rv['op'] == 'PtrMetadata': return ('len', expr_of(facts, body, rv['a'], depth, memo))
        return ('un', rv['op'], expr_of(facts, body, rv['a'], depth, memo))
    if k == 'cast':
        if CAST_KINDS:
            a = rv['a']
            src = a['p'].get('ty') if a.get('o') in ('copy', 'move') else (a.get('ty', {}).get('s') if isinstance(a.get('ty'), dict) else None)
            return ('cast', rv['to']['s'], expr_of(facts, body, rv['a'], depth, memo), rv.get('k', ''), src)
        return ('cast', rv['to']['s'], expr_of(facts, body, rv['a'], depth, memo))
    if k in ('ref', 'rawptr'): return expr_of_place(facts, body, rv['p'], depth, memo)
    if k == 'discr': return ('discr', expr_of_place(facts, body, rv['p'], depth, memo))
    if k == 'agg':
        kd = rv['kind']
        tag = kd.get('vname') or kd['a']
        if kd['a'] == 'closure' and kd.get('path'): tag = kd['path'].split('::')[-1]      # {closure#N}: which closure it is
        return ('agg', tag) + tuple(expr_of(facts, body, o, depth, memo) for o in rv['ops'])
    if k == 'repeat': return ('repeat', expr_of(facts, body, rv['a'], depth, memo), rv['n'])
    return ('rv?', k)


def strip_casts(e):
    while isinstance(e, tuple) and e and e[0] == 'cast':
        e = e[2]
    return e


def expr_str(e, names=None):
    """names: optional {local number (str): source name}; loop-carried locals are then printed by name (stable under renumbering)"""
    if not isinstance(e, tuple): return str(e)
    if not e: return '()'
    k = e[0]
    S = lambda x: expr_str(x, names)
    if k == 'c': return str(e[1])
    if k == 'param': return 'arg%d%s' % (e[1], ''.join('.%s' % (x,) for x in e[2]))
    if k == 'multi':
        nm = ('$' + names.get(str(e[1]), 'tmp')) if names is not None else '_%d' % e[1]
        return '%s%s' % (nm, ''.join('.%s' % (x,) for x in (e[2] if len(e) > 2 else ())))
    if k == 'op': return '%s(%s, %s)' % (e[1], S(e[2]), S(e[3]))
    if k == 'un': return '%s(%s)' % (e[1], S(e[2]))
    if k == 'cast': return '(%s as %s)' % (S(e[2]), e[1])
    if k == 'call': return '%s(%s)' % (e[1].split('::')[-1] if '>::' not in e[1] else e[1].split('>::')[-1], ', '.join(S(x) for x in e[2:]))
    if k == 'fld': return '%s%s' % (S(e[1]), ''.join('.%s' % (_fs(x),) for x in e[2]))
    if k == 'len': return 'len(%s)' % S(e[1])
    if k == 'agg': return '%s(%s)' % (e[1], ', '.join(S(x) for x in e[2:]))
    if k == 'repeat': return '[%s; %s]' % (S(e[1]), e[2])
    if k == 'item': return 'const %s' % (e[1],)
    if k == 'discr': return 'discr(%s)' % S(e[1])
    if k in ('pending', 'deep'): return '..'
    return '%s(%s)' % (k, ', '.join(S(x) if isinstance(x, tuple) else str(x) for x in e[1:]))


def _fs(x):
    if isinstance(x, tuple) and x and x[0] == 'as': return 'as%d' % x[1]
    if isinstance(x, tuple) and x and x[0] == 'idx':
        return '[%s]' % (expr_str(x[1]) if isinstance(x[1], tuple) else '_')
    if isinstance(x, tuple): return '[%s]' % ','.join(map(str, x[1:]))
    return str(x)


# ---------------------------------------------------------------------------------------------------
# Pattern matching on structural expressions
COMMUTATIVE = {'Add', 'Mul', 'BitOr', 'BitAnd', 'BitXor', 'Eq', 'Ne'}


def ematch(pat, e, env=None, strip=True):
    """Match expression e against pattern pat.  Pattern atoms: ('?', name) captures (same name = same sub-expression),
    ('*',) matches anything, ('callp', suffix, args...) matches a call whose callee ends with suffix.  Casts are skipped when strip."""
    if env is None: env = {}
    if strip:
        while isinstance(e, tuple) and e and e[0] == 'cast' and not (isinstance(pat, tuple) and pat and pat[0] == 'cast'):
            e = e[2]
    if isinstance(pat, tuple) and pat:
        if pat[0] == '?':
            if pat[1] in env:
                return env if _eq_mod_casts(env[pat[1]], e) else None
            env = dict(env); env[pat[1]] = e
            return env
        if pat[0] == '*':
            return env
        if pat[0] == 'alt':
            for alt in pat[1:]:
                r = ematch(alt, e, env, strip)
                if r is not None: return r
            return None
        if pat[0] == 'callp':
            if not (isinstance(e, tuple) and e and e[0] == 'call' and e[1].endswith(pat[1])): return None
            if len(pat) - 2 != len(e) - 2: return None
            for p, x in zip(pat[2:], e[2:]):
                env = ematch(p, x, env, strip)
                if env is None: return None
            return env
        if not isinstance(e, tuple) or len(e) != len(pat) or e[0] != pat[0]:
            return None
        if pat[0] == 'op' and pat[1] == e[1] and pat[1] in COMMUTATIVE:
            for a, b in ((e[2], e[3]), (e[3], e[2])):
                env1 = ematch(pat[2], a, env, strip)
                if env1 is not None:
                    env2 = ematch(pat[3], b, env1, strip)
                    if env2 is not None: return env2
            return None
        for p, x in zip(pat[1:], e[1:]):
            env = ematch(p, x, env, strip)
            if env is None: return None
        return env
    return env if pat == e else None


def _eq_mod_casts(a, b):
    a = strip_casts(a); b = strip_casts(b)
    if isinstance(a, tuple) and isinstance(b, tuple):
        if len(a) != len(b): return False
        return all(_eq_mod_casts(x, y) for x, y in zip(a, b))
    return a == b


def V(name):
    return ('?', name)


ANY = ('*',)


def LEN(x):
    """length of a slice, however obtained (`Len`/PtrMetadata or a call to len())"""
    return ('alt', ('len', x), ('callp', '::len', x))
