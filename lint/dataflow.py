"""Def-use helpers over one MIR body: definitions of locals, tracing an operand back through copies to its origin."""
import collections
from .cfg import cfg_of, const_value


class Defs:
    def __init__(self, body):
        self.body = body
        self.g = cfg_of(body)
        self.defs = collections.defaultdict(list)      # local -> [(kind, bb, idx, payload)]
        for bb in sorted(self.g.reach):
            blk = self.g.blocks[bb]
            for i, s in enumerate(blk['stmts']):
                if s['s'] == 'assign':
                    if any(e['p'] == 'deref' for e in s['lhs']['proj']):
                        continue      # a store through a reference defines the pointee, not the local
                    self.defs[s['lhs']['l']].append(('assign', bb, i, s))
                elif s['s'] == 'setdiscr':
                    self.defs[s['p']['l']].append(('setdiscr', bb, i, s))
            t = blk['term']
            if t['t'] == 'call' and not any(e['p'] == 'deref' for e in t['dest']['proj']):
                self.defs[t['dest']['l']].append(('call', bb, None, t))

    def whole_defs(self, l):
        """definitions that assign the whole local (no projection on the lhs)."""
        out = []
        for d in self.defs.get(l, []):
            if d[0] == 'assign' and not d[3]['lhs']['proj']: out.append(d)
            elif d[0] == 'call' and not d[3]['dest']['proj']: out.append(d)
        return out

    def single_def(self, l):
        ds = self.defs.get(l, [])
        # drop-flag style const re-initialisations do not matter for non-bool locals
        if len(ds) == 1:
            return ds[0]
        return None

    def origin(self, o, through_refs=True, depth=0):
        """Follow copies/moves (and, optionally, `&place` / deref) of single-definition locals.
        Returns one of
          ('const', value, operand) ('param', k, proj) ('call', bb, term, proj) ('rv', bb, stmt, proj) ('multi', local, proj) ('fn', name)
        where proj is the residual projection (list of MIR projection elems) applied on top of the origin."""
        if o['o'] == 'const':
            if 'fn' in o: return ('fn', o.get('resolved') or o['fn'])
            return ('const', const_value(o), o)
        return self.origin_place(o['p'], through_refs, depth)

    def origin_place(self, p, through_refs=True, depth=0):
        l = p['l']; proj = list(p['proj'])
        if depth > 40:
            return ('multi', l, proj)
        if 1 <= l <= self.body['argc']:
            ds = self.defs.get(l, [])
            if not ds:
                return ('param', l, proj)
        d = self.single_def(l)
        if d is None:
            return ('multi', l, proj)
        if d[0] == 'call':
            if d[3]['dest']['proj']: return ('multi', l, proj)
            return ('call', d[1], d[3], proj)
        if d[0] != 'assign' or d[3]['lhs']['proj']:
            return ('multi', l, proj)
        rv = d[3]['rv']
        if rv['r'] == 'use' and rv['a']['o'] in ('copy', 'move'):
            q = rv['a']['p']
            return self.origin_place({'l': q['l'], 'proj': list(q['proj']) + proj}, through_refs, depth + 1)
        if rv['r'] == 'use' and rv['a']['o'] == 'const':
            if proj: return ('rv', d[1], d[3], proj)
            return self.origin(rv['a'])
        if through_refs and rv['r'] == 'ref':
            # &place followed by a deref cancels
            if proj and proj[0]['p'] == 'deref':
                q = rv['p']
                return self.origin_place({'l': q['l'], 'proj': list(q['proj']) + proj[1:]}, through_refs, depth + 1)
            if not proj:
                q = rv['p']
                r = self.origin_place({'l': q['l'], 'proj': list(q['proj'])}, through_refs, depth + 1)
                return ('ref',) + (r,)
        return ('rv', d[1], d[3], proj)


def strip_ref(o):
    while isinstance(o, tuple) and o and o[0] == 'ref':
        o = o[1]
    return o


def fields_of(proj):
    return tuple(e['i'] for e in proj if e['p'] == 'field')


def callee_is(facts, term, *suffixes):
    n = facts.callee_name(term)
    f = term['f']
    names = [n]
    if f.get('o') == 'const' and 'fn' in f:
        names.append(f['fn'])
    for s in suffixes:
        for x in names:
            if x == s or x.endswith(s):
                return True
    return False


_defs_cache = {}


def defs_of(body):
    k = id(body)
    d = _defs_cache.get(k)
    if d is None or d.body is not body:
        d = Defs(body); _defs_cache[k] = d
    return d


def const_item_of(facts, body, operand, depth=0):
    """Name of the `const` item an operand (a reference / slice of it) ultimately refers to, or None.
    Follows copies, `&`/deref, `Index::index(.., RangeFull)`, unsizing casts and promoted constants."""
    D = defs_of(body)
    if depth > 20:
        return None
    if operand['o'] == 'const':
        if 'uneval' in operand:
            if 'promoted' in operand:
                pn = '%s::%s::promoted[%d]' % (body['crate'], operand['uneval'], operand['promoted'])
                pb = facts.bodies.get(pn)
                if pb is None:
                    return None
                # promoted body: _1 = const ITEM; _0 = &_1   (possibly with an index / cast)
                for d in defs_of(pb).defs.get(0, []):
                    if d[0] == 'assign':
                        rv = d[3]['rv']
                        if rv['r'] == 'ref':
                            return const_item_of(facts, pb, {'o': 'copy', 'p': rv['p']}, depth + 1)
                        if rv['r'] in ('use', 'cast'):
                            return const_item_of(facts, pb, rv['a'], depth + 1)
                return None
            return operand['uneval']
        return None
    o = D.origin(operand)
    o = strip_ref(o)
    if o[0] == 'const':
        return const_item_of(facts, body, o[2], depth + 1) if o[2].get('uneval') else None
    if o[0] == 'call':
        t = o[2]
        if callee_is(facts, t, '>::index', '::index', 'as_ref', 'as_slice', '::deref') and t['args']:
            return const_item_of(facts, body, t['args'][0], depth + 1)
        return None
    if o[0] == 'rv':
        rv = o[2]['rv']
        if rv['r'] in ('cast', 'use'):
            return const_item_of(facts, body, rv['a'], depth + 1)
        if rv['r'] == 'ref':
            return const_item_of(facts, body, {'o': 'copy', 'p': rv['p']}, depth + 1)
    return None
