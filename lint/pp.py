"""Pretty printer for dumped MIR (debugging aid and used in violation reports)."""


def place(p, dbg=None):
    s = '_%d' % p['l']
    if dbg and str(p['l']) in dbg:
        s = '%s{%s}' % (s, dbg[str(p['l'])])
    for e in p['proj']:
        k = e['p']
        if k == 'deref': s = '(*%s)' % s
        elif k == 'field': s = '%s.%d' % (s, e['i'])
        elif k == 'index': s = '%s[_%d]' % (s, e['l'])
        elif k == 'cindex': s = '%s[%s%d]' % (s, '-' if e['end'] else '', e['off'])
        elif k == 'subslice': s = '%s[%d..%s%d]' % (s, e['from'], '-' if e['end'] else '', e['to'])
        elif k == 'downcast': s = '(%s as %s)' % (s, e['name'] or e['v'])
        else: s = '%s.?' % s
    return s


def operand(o, dbg=None):
    if o['o'] == 'const':
        if 'fn' in o: return 'fn ' + (o.get('resolved') or o['fn'])
        return 'const ' + o['txt']
    if o['o'] in ('copy', 'move'):
        return ('move ' if o['o'] == 'move' else '') + place(o['p'], dbg)
    return '?'


def rvalue(r, dbg=None):
    k = r['r']
    if k == 'use': return operand(r['a'], dbg)
    if k == 'bin': return '%s(%s, %s)' % (r['op'], operand(r['a'], dbg), operand(r['b'], dbg))
    if k == 'un': return '%s(%s)' % (r['op'], operand(r['a'], dbg))
    if k == 'cast': return '%s as %s [%s]' % (operand(r['a'], dbg), r['to']['s'], r['k'])
    if k == 'ref': return '&%s %s' % (r['bk'], place(r['p'], dbg))
    if k == 'rawptr': return '&raw %s' % place(r['p'], dbg)
    if k == 'discr': return 'discriminant(%s)' % place(r['p'], dbg)
    if k == 'agg':
        kd = r['kind']
        tag = kd.get('path', kd['a'])
        if kd.get('vname'): tag += '::' + kd['vname']
        return '%s(%s)' % (tag, ', '.join(operand(o, dbg) for o in r['ops']))
    if k == 'repeat': return '[%s; %s]' % (operand(r['a'], dbg), r['n'])
    return r.get('txt', '?')


def term(t, dbg=None):
    k = t['t']
    if k == 'goto': return 'goto -> bb%d' % t['to']
    if k == 'switch':
        return 'switchInt(%s) -> [%s, otherwise: bb%d]' % (operand(t['on'], dbg), ', '.join('%s: bb%d' % (a[0], a[1]) for a in t['arms']), t['otherwise'])
    if k == 'return': return 'return'
    if k == 'unreachable': return 'unreachable'
    if k == 'drop': return 'drop(%s) -> bb%d' % (place(t['p'], dbg), t['to'])
    if k == 'call':
        return '%s = %s(%s) -> %s' % (place(t['dest'], dbg), operand(t['f'], dbg), ', '.join(operand(a, dbg) for a in t['args']), 'bb%d' % t['to'] if t['to'] is not None else '!')
    if k == 'assert':
        return 'assert(%s%s, %s %s) -> bb%d' % ('' if t['expected'] else '!', operand(t['cond'], dbg), t['kind'], [operand(o, dbg) for o in t['ops']], t['to'])
    return t.get('txt', '?')


def body(b, names=True):
    dbg = b.get('debug') if names else None
    out = ['fn %s  [%s:%d] argc=%d' % (b.get('name', b['fn']), b['span']['file'], b['span']['line'], b['argc'])]
    for i, l in enumerate(b['locals']):
        out.append('    let _%d: %s%s' % (i, l['s'], ('  // ' + b['debug'][str(i)]) if str(i) in b.get('debug', {}) else ''))
    for i, blk in enumerate(b['blocks']):
        out.append('  bb%d:' % i)
        for s in blk['stmts']:
            if s['s'] == 'assign':
                out.append('    %s = %s   // L%d' % (place(s['lhs'], dbg), rvalue(s['rv'], dbg), s['span']['line']))
            elif s['s'] == 'setdiscr':
                out.append('    discriminant(%s) = %d' % (place(s['p'], dbg), s['v']))
            else:
                out.append('    ' + s.get('txt', '?'))
        t = blk['term']
        sp = t.get('span')
        out.append('    %s%s' % (term(t, dbg), ('   // L%d' % sp['line']) if sp else ''))
    return '\n'.join(out)


if __name__ == '__main__':
    import sys, os
    sys.path.insert(0, os.path.dirname(os.path.dirname(os.path.abspath(__file__))))
    from lint import facts
    F = facts.load()
    for n in sorted(F.bodies):
        if any(a in n for a in sys.argv[1:]):
            print(body(F.bodies[n])); print()
