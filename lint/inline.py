"""MIR-level inlining of *newly introduced* private helper functions.

The rules of this framework anchor on the functions that exist in the tree they were written for (tables/known_functions.json).
A maintainer who extracts a private helper out of one of those functions does not change behaviour; to keep the analyses looking at
the same computation, every call to a local function that is NOT in that table (and is small, non-recursive, closure-free and not
part of the public API) is spliced into its caller on the JSON facts before any analysis runs: callee locals and blocks are renumbered
and appended, parameters become assignments from the arguments, `return` becomes "dest = _0; goto continuation".
Functions of the table are never inlined, so every anchor keeps its name.  What was inlined is recorded in Facts.inlined (evidence).
"""
import copy, json, os

VERIF = os.path.dirname(os.path.dirname(os.path.abspath(__file__)))
MAX_BLOCKS = 120


def known_functions():
    p = os.path.join(VERIF, 'tables', 'known_functions.json')
    if not os.path.exists(p): return None
    return set(json.load(open(p))['functions'])


def _shift_place(p, dl):
    p['l'] += dl
    for e in p.get('proj', []):
        if e.get('p') == 'index' and 'l' in e: e['l'] += dl


def _shift_operand(o, dl):
    if isinstance(o, dict) and o.get('o') in ('copy', 'move') and 'p' in o: _shift_place(o['p'], dl)


def _shift_rv(rv, dl):
    for k in ('a', 'b'):
        if k in rv and isinstance(rv[k], dict): _shift_operand(rv[k], dl)
    if 'p' in rv and isinstance(rv['p'], dict) and 'l' in rv['p']: _shift_place(rv['p'], dl)
    for o in rv.get('ops', []) or []: _shift_operand(o, dl)


def _shift_block(blk, dl, db):
    for s in blk['stmts']:
        if s['s'] == 'assign':
            _shift_place(s['lhs'], dl); _shift_rv(s['rv'], dl)
        elif s['s'] == 'setdiscr':
            _shift_place(s['p'], dl)
    t = blk['term']
    k = t['t']
    if k == 'goto': t['to'] += db
    elif k == 'switch':
        _shift_operand(t['on'], dl)
        t['arms'] = [[v, to + db] for v, to in t['arms']]; t['otherwise'] += db
    elif k == 'assert':
        _shift_operand(t['cond'], dl)
        for o in t.get('ops', []): _shift_operand(o, dl)
        t['to'] += db
    elif k == 'call':
        _shift_operand(t['f'], dl)
        for a in t['args']: _shift_operand(a, dl)
        _shift_place(t['dest'], dl)
        if t.get('to') is not None: t['to'] += db
    elif k == 'drop':
        if 'p' in t and isinstance(t['p'], dict): _shift_place(t['p'], dl)
        if t.get('to') is not None: t['to'] += db
    # return / unreachable: nothing


def _has_closure(F, name):
    return any(n.startswith(name + '::{closure') for n in F.bodies)


def candidates(F, known):
    out = set()
    for n, b in F.bodies.items():
        if b.get('kind') not in ('Fn', 'AssocFn'): continue
        if n in known: continue
        if b.get('vis', '') == 'Public' and b.get('reachable'): continue          # new public API is not a refactoring helper
        if len(b['blocks']) > MAX_BLOCKS: continue
        if _has_closure(F, n): continue
        if '::tests::' in n or '::test::' in n: continue
        out.add(n)
    return out


def _calls(F, b):
    for bi, blk in enumerate(b['blocks']):
        t = blk['term']
        if t['t'] == 'call':
            cn = F.local_callee(b['crate'], t)
            if cn is not None: yield bi, cn


def apply(F):
    known = known_functions()
    F.inlined = []
    if known is None: return
    cand = candidates(F, known)
    if not cand: return
    # drop (mutually) recursive candidates
    def reaches(a, seen):
        for _, cn in _calls(F, F.bodies[a]):
            if cn in cand and cn not in seen:
                seen.add(cn); reaches(cn, seen)
        return seen
    cand = {c for c in cand if c not in reaches(c, set())}
    changed = True; rounds = 0
    while changed and rounds < 6:
        changed = False; rounds += 1
        for name, b in list(F.bodies.items()):
            if name in cand and rounds == 1: pass
            for bi, cn in list(_calls(F, b)):
                if cn not in cand or cn == name: continue
                _inline_call(F, b, bi, F.bodies[cn])
                F.inlined.append((name, cn)); changed = True
    # helpers that no longer have callers disappear from the inventory of bodies
    still = {cn for n, b in F.bodies.items() if n not in cand for _, cn in _calls(F, b)}
    for c in cand:
        if c not in still and any(x[1] == c for x in F.inlined):
            F.bodies.pop(c, None)


def _inline_call(F, caller, bi, callee):
    K = copy.deepcopy(callee)
    dl = len(caller['locals']); db = len(caller['blocks'])
    t = caller['blocks'][bi]['term']
    cont = t.get('to')
    for blk in K['blocks']:
        _shift_block(blk, dl, db)
    # parameters := arguments
    for k, a in enumerate(t['args']):
        pl = dl + k + 1
        caller['blocks'][bi]['stmts'].append({'s': 'assign', 'lhs': {'l': pl, 'proj': [], 'ty': K['locals'][k + 1]['s']}, 'rv': {'r': 'use', 'a': a}, 'span': t['span']})
    # returns
    for blk in K['blocks']:
        if blk['term']['t'] == 'return':
            blk['stmts'].append({'s': 'assign', 'lhs': copy.deepcopy(t['dest']), 'rv': {'r': 'use', 'a': {'o': 'move', 'p': {'l': dl, 'proj': [], 'ty': K['locals'][0]['s']}}}, 'span': t['span']})
            blk['term'] = {'t': 'goto', 'to': cont} if cont is not None else {'t': 'unreachable'}
    caller['locals'].extend(K['locals'])
    caller['blocks'].extend(K['blocks'])
    for l, nm in K.get('debug', {}).items():
        caller.setdefault('debug', {})[str(int(l) + dl)] = nm
    caller['blocks'][bi]['term'] = {'t': 'goto', 'to': db}
