"""MIR-level inlining of *newly introduced* private helper functions.

The rules of this framework anchor on the functions that exist in the tree they were written for (tables/known_functions.json).
A maintainer who extracts a private helper out of one of those functions does not change behaviour; to keep the analyses looking at
the same computation, every call to a local function that is NOT in that table (and is small, non-recursive, closure-free and not
part of the public API) is spliced into its caller on the JSON facts before any analysis runs: callee locals and blocks are renumbered
and appended, parameters become assignments from the arguments, `return` becomes "dest = _0; goto continuation".
Functions of the table are never inlined, so every anchor keeps its name.  What was inlined is recorded in Facts.inlined (evidence).
"""
import re, copy, json, os

VERIF = os.path.dirname(os.path.dirname(os.path.abspath(__file__)))
MAX_BLOCKS = 120
OPTION_COMBINATORS = {'std::option::Option::<T>::and_then': 'and_then', 'std::option::Option::<T>::map': 'map'}
FROM_FN = ('std::array::from_fn', 'core::array::from_fn')
CLOSURE_CALLS = ('std::ops::FnOnce::call_once', 'std::ops::Fn::call', 'std::ops::FnMut::call_mut')


def known_functions():
    p = os.path.join(VERIF, 'tables', 'known_functions.json')
    if not os.path.exists(p): return None
    return set(json.load(open(p))['functions'])


def _shift_place(p, dl):
    p['l'] += dl
    for e in p.get('proj', []):
        if e.get('p') == 'index' and 'l' in e: e['l'] += dl


def _shift_operand(o, dl):
    if isinstance(o, dict) and o.get('o') in ('copy', 'move') and 'p' in o: _shift_place(o['p'], dl)


def _shift_rv(rv, dl):
    for k in ('a', 'b'):
        if k in rv and isinstance(rv[k], dict): _shift_operand(rv[k], dl)
    if 'p' in rv and isinstance(rv['p'], dict) and 'l' in rv['p']: _shift_place(rv['p'], dl)
    for o in rv.get('ops', []) or []: _shift_operand(o, dl)


def _shift_block(blk, dl, db):
    for s in blk['stmts']:
        if s['s'] == 'assign':
            _shift_place(s['lhs'], dl); _shift_rv(s['rv'], dl)
        elif s['s'] == 'setdiscr':
            _shift_place(s['p'], dl)
    t = blk['term']
    k = t['t']
    if k == 'goto': t['to'] += db
    elif k == 'switch':
        _shift_operand(t['on'], dl)
        t['arms'] = [[v, to + db] for v, to in t['arms']]; t['otherwise'] += db
    elif k == 'assert':
        _shift_operand(t['cond'], dl)
        for o in t.get('ops', []): _shift_operand(o, dl)
        t['to'] += db
    elif k == 'call':
        _shift_operand(t['f'], dl)
        for a in t['args']: _shift_operand(a, dl)
        _shift_place(t['dest'], dl)
        if t.get('to') is not None: t['to'] += db
    elif k == 'drop':
        if 'p' in t and isinstance(t['p'], dict): _shift_place(t['p'], dl)
        if t.get('to') is not None: t['to'] += db
    # return / unreachable: nothing


def _has_closure(F, name):
    return any(n.startswith(name + '::{closure') for n in F.bodies)


def candidates(F, known):
    out = set()
    for n, b in F.bodies.items():
        if b.get('kind') not in ('Fn', 'AssocFn'): continue
        if n in known: continue
        if b.get('vis', '') == 'Public' and b.get('reachable'): continue          # new public API is not a refactoring helper
        if len(b['blocks']) > MAX_BLOCKS: continue
        if _has_closure(F, n): continue
        if '::tests::' in n or '::test::' in n: continue
        out.add(n)
    return out


def _calls(F, b):
    for bi, blk in enumerate(b['blocks']):
        t = blk['term']
        if t['t'] == 'call':
            cn = F.local_callee(b['crate'], t)
            if cn is not None: yield bi, cn


def apply(F):
    known = known_functions()
    F.inlined = []
    if known is None: return
    cand = candidates(F, known)
    # drop (mutually) recursive candidates
    def reaches(a, seen):
        for _, cn in _calls(F, F.bodies[a]):
            if cn in cand and cn not in seen:
                seen.add(cn); reaches(cn, seen)
        return seen
    cand = {c for c in cand if c not in reaches(c, set())}
    changed = True; rounds = 0
    while changed and rounds < 6:
        changed = False; rounds += 1
        for name, b in list(F.bodies.items()):
            if name in cand and rounds == 1: pass
            for bi, cn in list(_calls(F, b)):
                if cn not in cand or cn == name: continue
                _inline_call(F, b, bi, F.bodies[cn])
                F.inlined.append((name, cn)); changed = True
    # closures handed to an inlined helper (`self.helper(f, |r| r.is_err())`): once the helper is spliced in, the closure value is a
    # local aggregate and its call is `FnOnce::call_once(move _p, (args,))`; splice the (new) closure body in as well
    touched = {x[0] for x in F.inlined}
    # Option::and_then / Option::map given a NEW closure (one the reviewed tree does not have): expanded to the `match` they abbreviate,
    # with the closure body spliced in, so `opt.and_then(|x| f(x))` and `match opt { Some(x) => f(x), None => None }` present the same MIR
    for name, b in list(F.bodies.items()):
        if name in cand: continue
        for _ in range(8):
            did = False
            for bi, blk in enumerate(b['blocks']):
                t = blk['term']
                if t['t'] != 'call' or t['f'].get('o') != 'const' or t['f'].get('fn') not in OPTION_COMBINATORS or len(t['args']) != 2: continue
                path = _closure_of(b, t['args'][1])
                if path is None: continue
                cn = b['crate'] + '::' + path
                K = F.bodies.get(cn)
                if K is None or cn in known or len(K['blocks']) > MAX_BLOCKS or K.get('argc') != 2: continue
                if _expand_option_combinator(F, b, bi, K, OPTION_COMBINATORS[t['f']['fn']]):
                    F.inlined.append((name, cn)); touched.add(name); did = True; break
            if not did: break
    # core::array::from_fn::<T, N, F>(closure) given a NEW closure, N <= 16: expanded to `[clo(0), clo(1), .., clo(N-1)]` with the closure
    # body spliced in N times, so `from_fn(|r| a[r][0])` and `[a[0][0], a[1][0], ..]` present the same MIR
    for name, b in list(F.bodies.items()):
        if name in cand: continue
        for _ in range(4):
            did = False
            for bi, blk in enumerate(b['blocks']):
                t = blk['term']
                if t['t'] != 'call' or t['f'].get('o') != 'const' or t['f'].get('fn') not in FROM_FN or len(t['args']) != 1: continue
                path = _closure_of(b, t['args'][0])
                if path is None: continue
                cn = b['crate'] + '::' + path
                K = F.bodies.get(cn)
                if K is None or cn in known or len(K['blocks']) > MAX_BLOCKS or K.get('argc') != 2: continue
                n = _expand_from_fn(F, b, bi, K)
                if n:
                    F.inlined.extend([(name, cn)] * n); touched.add(name); did = True; break
            if not did: break
    for name in sorted(touched):
        b = F.bodies.get(name)
        if b is None: continue
        for _ in range(8):
            did = False
            for bi, blk in enumerate(b['blocks']):
                t = blk['term']
                if t['t'] != 'call' or t['f'].get('o') != 'const' or t['f'].get('fn') not in CLOSURE_CALLS or len(t['args']) != 2: continue
                path = _closure_of(b, t['args'][0])
                if path is None: continue
                cn = b['crate'] + '::' + path
                K = F.bodies.get(cn)
                if K is None or cn in known or len(K['blocks']) > MAX_BLOCKS or cn == name: continue
                if _inline_closure_call(F, b, bi, K):
                    F.inlined.append((name, cn)); did = True; break
            if not did: break
    # a spliced-in predicate such as `|_| true` leaves `switch` terminators on a constant: fold them (touched bodies only)
    for name in sorted(touched):
        b = F.bodies.get(name)
        if b is not None:
            _thread_jumps(b); _fold_const_switches(b)
    # helpers that no longer have callers disappear from the inventory of bodies
    still = {cn for n, b in F.bodies.items() if n not in cand for _, cn in _calls(F, b)}
    for c in cand:
        if c not in still and any(x[1] == c for x in F.inlined):
            F.bodies.pop(c, None)
    # likewise a spliced-in NEW closure that no remaining call can reach (every place its value went to was expanded)
    for c in sorted({x[1] for x in F.inlined if '{closure#' in x[1]}):
        K = F.bodies.get(c)
        if K is None or c in known: continue
        path = c.split('::', 1)[1]
        used = False
        for n, b in F.bodies.items():
            if n == c: continue
            for blk in b['blocks']:
                t = blk['term']
                if t['t'] != 'call': continue
                if path in (t['f'].get('closures') or []) or any(_closure_of(b, a) == path for a in t['args'] if isinstance(a, dict)):
                    used = True; break
            if used: break
        if not used:
            F.bodies.pop(c, None)


def _inline_call(F, caller, bi, callee):
    K = copy.deepcopy(callee)
    dl = len(caller['locals']); db = len(caller['blocks'])
    t = caller['blocks'][bi]['term']
    cont = t.get('to')
    for blk in K['blocks']:
        _shift_block(blk, dl, db)
    # parameters := arguments
    for k, a in enumerate(t['args']):
        pl = dl + k + 1
        caller['blocks'][bi]['stmts'].append({'s': 'assign', 'lhs': {'l': pl, 'proj': [], 'ty': K['locals'][k + 1]['s']}, 'rv': {'r': 'use', 'a': a}, 'span': t['span']})
    # returns
    for blk in K['blocks']:
        if blk['term']['t'] == 'return':
            blk['stmts'].append({'s': 'assign', 'lhs': copy.deepcopy(t['dest']), 'rv': {'r': 'use', 'a': {'o': 'move', 'p': {'l': dl, 'proj': [], 'ty': K['locals'][0]['s']}}}, 'span': t['span']})
            blk['term'] = {'t': 'goto', 'to': cont} if cont is not None else {'t': 'unreachable'}
    caller['locals'].extend(K['locals'])
    caller['blocks'].extend(K['blocks'])
    for l, nm in K.get('debug', {}).items():
        caller.setdefault('debug', {})[str(int(l) + dl)] = nm
    caller['blocks'][bi]['term'] = {'t': 'goto', 'to': db}


def _closure_of(b, operand):
    """path of the closure whose value `operand` holds, if that is decided by a single-definition chain inside the body"""
    for _ in range(24):
        if operand.get('o') not in ('copy', 'move'): return None
        p = operand['p']
        if any(e['p'] != 'deref' for e in p.get('proj', [])): return None
        l = p['l']
        if any(blk['term']['t'] == 'call' and blk['term']['dest']['l'] == l for blk in b['blocks']): return None
        defs = [s for blk in b['blocks'] for s in blk['stmts'] if s['s'] == 'assign' and s['lhs']['l'] == l]
        if len(defs) != 1 or defs[0]['lhs'].get('proj'): return None
        rv = defs[0]['rv']
        if rv['r'] == 'agg' and rv['kind'].get('a') == 'closure' and rv['kind'].get('path'): return rv['kind']['path']
        if rv['r'] == 'use': operand = rv['a']
        elif rv['r'] == 'ref': operand = {'o': 'copy', 'p': rv['p']}
        else: return None
    return None


def _inline_closure_call(F, caller, bi, callee):
    """`call_once(closure, (a, b))` -> the closure body with _1 := closure (or &closure), _2 := a, _3 := b"""
    t = caller['blocks'][bi]['term']
    env, tup = t['args']
    argc = callee.get('argc', 1)
    if argc > 1 and tup.get('o') not in ('copy', 'move'): return False
    K = copy.deepcopy(callee)
    dl = len(caller['locals']); db = len(caller['blocks'])
    cont = t.get('to')
    for blk in K['blocks']:
        _shift_block(blk, dl, db)
    st = caller['blocks'][bi]['stmts']
    env_ty = K['locals'][1]
    env_is_ref = env_ty.get('t', {}).get('k') == 'ref'
    arg_is_ref = isinstance(env.get('p', {}).get('ty'), str) and env['p']['ty'].startswith('&')
    if env_is_ref and not arg_is_ref and env.get('o') in ('copy', 'move'):
        rv = {'r': 'ref', 'bk': 'Shared', 'p': copy.deepcopy(env['p'])}
    else:
        rv = {'r': 'use', 'a': env}
    st.append({'s': 'assign', 'lhs': {'l': dl + 1, 'proj': [], 'ty': env_ty['s']}, 'rv': rv, 'span': t['span']})
    # the argument tuple: when it is built by a single aggregate assignment in the same block, hand its components over directly
    tdef = None
    if argc > 1 and not tup['p'].get('proj'):
        ds = [s_ for blk in caller['blocks'] for s_ in blk['stmts'] if s_['s'] == 'assign' and s_['lhs']['l'] == tup['p']['l']]
        if len(ds) == 1 and ds[0] in st and ds[0]['rv']['r'] == 'agg' and ds[0]['rv']['kind'].get('a') == 'tuple' and len(ds[0]['rv']['ops']) == argc - 1:
            tdef = ds[0]['rv']['ops']
    for k in range(argc - 1):
        if tdef is not None:
            a_ = copy.deepcopy(tdef[k])
        else:
            src = copy.deepcopy(tup['p']); src['proj'] = list(src.get('proj', [])) + [{'p': 'field', 'i': k}]; src['ty'] = K['locals'][k + 2]['s']
            a_ = {'o': 'move', 'p': src}
        st.append({'s': 'assign', 'lhs': {'l': dl + k + 2, 'proj': [], 'ty': K['locals'][k + 2]['s']}, 'rv': {'r': 'use', 'a': a_}, 'span': t['span']})
    # captured variables: when the environment is an aggregate built in the caller, `env.i` / `(*env).i` in the body is the captured operand itself
    caps = _closure_captures(caller, env)
    if caps:
        def sub(p):
            if p.get('l') != dl + 1: return
            pr = p.get('proj', [])
            k = 1 if pr and pr[0].get('p') == 'deref' else 0
            if len(pr) > k and pr[k].get('p') == 'field' and pr[k]['i'] < len(caps) and caps[pr[k]['i']] is not None:
                src = caps[pr[k]['i']]
                p['l'] = src['l']; p['proj'] = copy.deepcopy(src.get('proj', [])) + pr[k + 1:]
        for blk in K['blocks']: _map_places(blk, sub)
    for blk in K['blocks']:
        if blk['term']['t'] == 'return':
            blk['stmts'].append({'s': 'assign', 'lhs': copy.deepcopy(t['dest']), 'rv': {'r': 'use', 'a': {'o': 'move', 'p': {'l': dl, 'proj': [], 'ty': K['locals'][0]['s']}}}, 'span': t['span']})
            blk['term'] = {'t': 'goto', 'to': cont} if cont is not None else {'t': 'unreachable'}
    caller['locals'].extend(K['locals'])
    caller['blocks'].extend(K['blocks'])
    for l, nm in K.get('debug', {}).items():
        caller.setdefault('debug', {})[str(int(l) + dl)] = nm
    caller['blocks'][bi]['term'] = {'t': 'goto', 'to': db}
    return True


def _closure_captures(b, operand):
    """places captured by the closure value `operand` (None where the capture is not a plain place), if it is built by one aggregate in b"""
    for _ in range(24):
        if operand.get('o') not in ('copy', 'move'): return None
        p = operand['p']
        if any(e['p'] != 'deref' for e in p.get('proj', [])): return None
        defs = [s for blk in b['blocks'] for s in blk['stmts'] if s['s'] == 'assign' and s['lhs']['l'] == p['l']]
        if len(defs) != 1 or defs[0]['lhs'].get('proj'): return None
        rv = defs[0]['rv']
        if rv['r'] == 'agg' and rv['kind'].get('a') == 'closure':
            return [(o['p'] if o.get('o') in ('copy', 'move') else None) for o in rv['ops']]
        if rv['r'] == 'use': operand = rv['a']
        elif rv['r'] == 'ref': operand = {'o': 'copy', 'p': rv['p']}
        else: return None
    return None


def _map_places(blk, fn):
    def op(o):
        if isinstance(o, dict) and o.get('o') in ('copy', 'move') and 'p' in o: fn(o['p'])
    for s in blk['stmts']:
        if s['s'] == 'assign':
            fn(s['lhs']); rv = s['rv']
            for k in ('a', 'b'):
                if k in rv and isinstance(rv[k], dict): op(rv[k])
            if 'p' in rv and isinstance(rv['p'], dict) and 'l' in rv['p']: fn(rv['p'])
            for o in rv.get('ops', []) or []: op(o)
        elif s['s'] == 'setdiscr': fn(s['p'])
    t = blk['term']
    if t['t'] == 'switch': op(t['on'])
    elif t['t'] == 'assert':
        op(t['cond'])
        for o in t.get('ops', []): op(o)
    elif t['t'] == 'call':
        op(t['f'])
        for a in t['args']: op(a)
        fn(t['dest'])
    elif t['t'] == 'drop' and isinstance(t.get('p'), dict): fn(t['p'])


def _const_of(b, operand):
    for _ in range(24):
        if operand.get('o') == 'const':
            return operand.get('bits')
        if operand.get('o') not in ('copy', 'move') or operand['p'].get('proj'): return None
        l = operand['p']['l']
        if any(blk['term']['t'] == 'call' and blk['term']['dest']['l'] == l for blk in b['blocks']): return None
        defs = [s for blk in b['blocks'] for s in blk['stmts'] if s['s'] == 'assign' and s['lhs']['l'] == l]
        if len(defs) != 1 or defs[0]['lhs'].get('proj') or defs[0]['rv']['r'] != 'use': return None
        operand = defs[0]['rv']['a']
    return None


def _fold_const_switches(b):
    if b.get('argc') is None: return
    for blk in b['blocks']:
        t = blk['term']
        if t['t'] != 'switch': continue
        if t['on'].get('o') in ('copy', 'move') and t['on']['p']['l'] <= b['argc']: continue
        c = _const_of(b, t['on'])
        if c is None: continue
        try: v = int(c)
        except (TypeError, ValueError): continue
        to = {int(x): y for x, y in t['arms']}.get(v, t['otherwise'])
        blk['term'] = {'t': 'goto', 'to': to}


def _thread_jumps(b):
    """`matches!(..)` in a spliced-in predicate materialises a bool (`_r = const true; goto J` / `_r = const false; goto J`) that the caller
    then switches on.  Jump threading: a block that reaches a `switch` through a chain of gotos, and along which the switch operand is a
    known constant, gets the chain's statements appended and jumps to the selected arm directly (semantics preserving)."""
    for _round in range(4):
        did = False
        for A in b['blocks']:
            if A['term']['t'] != 'goto': continue
            chain = []; cur = A['term']['to']; S = None
            for _ in range(6):
                blk = b['blocks'][cur]
                if blk is A: break
                if blk['term']['t'] == 'goto': chain.append(blk); cur = blk['term']['to']; continue
                if blk['term']['t'] == 'switch': S = blk
                break
            if S is None: continue
            env = {}
            for st in A['stmts'] + [x for c in chain for x in c['stmts']] + S['stmts']:
                if st['s'] != 'assign': continue
                l = st['lhs']['l']
                if st['lhs'].get('proj'): env.pop(l, None); continue
                rv = st['rv']; v = None
                if rv['r'] == 'use':
                    a = rv['a']
                    if a.get('o') == 'const' and a.get('bits') is not None: v = a['bits']
                    elif a.get('o') in ('copy', 'move') and not a['p'].get('proj'): v = env.get(a['p']['l'])
                if v is None: env.pop(l, None)
                else: env[l] = v
            on = S['term']['on']
            if on.get('o') not in ('copy', 'move') or on['p'].get('proj') or on['p']['l'] not in env: continue
            try: v = int(env[on['p']['l']])
            except (TypeError, ValueError): continue
            to = {int(x): y for x, y in S['term']['arms']}.get(v, S['term']['otherwise'])
            A['stmts'] = A['stmts'] + copy.deepcopy([x for c in chain for x in c['stmts']] + S['stmts'])
            A['term'] = {'t': 'goto', 'to': to}
            did = True
        if not did: break


def _expand_option_combinator(F, caller, bi, closure, kind):
    """`dest = opt.and_then(clo)` / `opt.map(clo)`  ->  switch discriminant(opt) { None: dest = None; Some: dest = [Some](clo(payload)) }"""
    t = caller['blocks'][bi]['term']
    opt, clo = t['args']
    if opt.get('o') not in ('copy', 'move') or opt['p'].get('proj'): return False
    cont = t.get('to')
    if cont is None: return False
    span = t['span']
    oty = opt['p'].get('ty', '')
    dest = t['dest']
    nl = len(caller['locals'])
    # new locals: discriminant, payload, argument tuple, closure result (for map)
    pay_ty = closure['locals'][2]
    caller['locals'].append({'s': 'isize', 't': {'k': 'int', 's': True, 'bits': 64}})   # nl: discriminant
    caller['locals'].append(copy.deepcopy(pay_ty))                                   # nl+1: payload
    caller['locals'].append({'s': '(%s,)' % pay_ty['s'], 't': {'k': 'tuple', 'of': [copy.deepcopy(pay_ty)]}})       # nl+2: argument tuple
    caller['locals'].append(copy.deepcopy(closure['locals'][0]))                     # nl+3: closure result
    nb = len(caller['blocks'])
    b_none, b_some, b_after = nb, nb + 1, nb + 2
    blk = caller['blocks'][bi]
    blk['stmts'].append({'s': 'assign', 'lhs': {'l': nl, 'proj': [], 'ty': 'isize'}, 'rv': {'r': 'discr', 'p': copy.deepcopy(opt['p'])}, 'span': span})
    blk['term'] = {'t': 'switch', 'on': {'o': 'move', 'p': {'l': nl, 'proj': [], 'ty': 'isize'}}, 'arms': [['0', b_none]], 'otherwise': b_some, 'span': span}
    none_agg = {'r': 'agg', 'kind': {'a': 'adt', 'path': 'std::option::Option', 'variant': 0, 'vname': 'None', 'ufield': None}, 'ops': []}
    caller['blocks'].append({'stmts': [{'s': 'assign', 'lhs': copy.deepcopy(dest), 'rv': none_agg, 'span': span}], 'term': {'t': 'goto', 'to': cont}})
    pay = copy.deepcopy(opt['p']); pay['proj'] = [{'p': 'downcast', 'v': 1, 'name': 'Some'}, {'p': 'field', 'i': 0}]; pay['ty'] = pay_ty['s']
    some_stmts = [{'s': 'assign', 'lhs': {'l': nl + 1, 'proj': [], 'ty': pay_ty['s']}, 'rv': {'r': 'use', 'a': {'o': 'move', 'p': pay}}, 'span': span},
                  {'s': 'assign', 'lhs': {'l': nl + 2, 'proj': [], 'ty': '(%s,)' % pay_ty['s']},
                   'rv': {'r': 'agg', 'kind': {'a': 'tuple'}, 'ops': [{'o': 'move', 'p': {'l': nl + 1, 'proj': [], 'ty': pay_ty['s']}}]}, 'span': span}]
    res = {'l': nl + 3, 'proj': [], 'ty': closure['locals'][0]['s']}
    call_dest = copy.deepcopy(dest) if kind == 'and_then' else res
    fake = {'t': 'call', 'f': {'o': 'const', 'fn': 'std::ops::FnOnce::call_once'}, 'args': [clo, {'o': 'move', 'p': {'l': nl + 2, 'proj': [], 'ty': '(%s,)' % pay_ty['s']}}],
            'dest': call_dest, 'to': b_after, 'span': span}
    caller['blocks'].append({'stmts': some_stmts, 'term': fake})
    after_stmts = []
    if kind == 'map':
        after_stmts.append({'s': 'assign', 'lhs': copy.deepcopy(dest),
                            'rv': {'r': 'agg', 'kind': {'a': 'adt', 'path': 'std::option::Option', 'variant': 1, 'vname': 'Some', 'ufield': None}, 'ops': [{'o': 'move', 'p': res}]}, 'span': span})
    caller['blocks'].append({'stmts': after_stmts, 'term': {'t': 'goto', 'to': cont}})
    return _inline_closure_call(F, caller, b_some, closure)


def _expand_from_fn(F, caller, bi, closure):
    """`dest = array::from_fn::<T, N, _>(clo)`  ->  r_k = clo(k) for k in 0..N (closure body spliced in); dest = [r_0, .., r_{N-1}]"""
    t = caller['blocks'][bi]['term']
    clo = t['args'][0]
    cont = t.get('to')
    if cont is None or clo.get('o') not in ('copy', 'move'): return 0
    m = re.match(r'^\[(.+); (\d+)\]$', t['dest'].get('ty') or '')
    if not m or not (1 <= int(m.group(2)) <= 16): return 0
    n = int(m.group(2))
    span = t['span']; dest = t['dest']
    idx_ty = closure['locals'][2]
    if idx_ty.get('s') != 'usize': return 0
    res_ty = closure['locals'][0]
    nl = len(caller['locals']); nb = len(caller['blocks'])
    for k in range(n):
        caller['locals'].append({'s': '(usize,)', 't': {'k': 'tuple', 'of': [copy.deepcopy(idx_ty)]}})     # nl + 2k: argument tuple
        caller['locals'].append(copy.deepcopy(res_ty))                                                    # nl + 2k + 1: element
    env = copy.deepcopy(clo); env['o'] = 'copy'
    for k in range(n):
        const = {'o': 'const', 'ty': {'s': 'usize', 't': {'k': 'int', 's': False, 'bits': 64}}, 'txt': '%d_usize' % k, 'bits': str(k), 'size': 8}
        tup = {'l': nl + 2 * k, 'proj': [], 'ty': '(usize,)'}
        stmts = [{'s': 'assign', 'lhs': copy.deepcopy(tup), 'rv': {'r': 'agg', 'kind': {'a': 'tuple'}, 'ops': [const]}, 'span': span}]
        fake = {'t': 'call', 'f': {'o': 'const', 'fn': 'std::ops::FnMut::call_mut'}, 'args': [copy.deepcopy(env), {'o': 'move', 'p': tup}],
                'dest': {'l': nl + 2 * k + 1, 'proj': [], 'ty': res_ty['s']}, 'to': nb + k + 1, 'span': span}
        caller['blocks'].append({'stmts': stmts, 'term': fake})
    ops = [{'o': 'move', 'p': {'l': nl + 2 * k + 1, 'proj': [], 'ty': res_ty['s']}} for k in range(n)]
    caller['blocks'].append({'stmts': [{'s': 'assign', 'lhs': copy.deepcopy(dest), 'rv': {'r': 'agg', 'kind': {'a': 'array'}, 'ops': ops}, 'span': span}],
                             'term': {'t': 'goto', 'to': cont}})
    caller['blocks'][bi]['term'] = {'t': 'goto', 'to': nb}
    done = 0
    for k in range(n):
        if _inline_closure_call(F, caller, nb + k, closure): done += 1
    return done
