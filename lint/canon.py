"""If-conversion of loop-free MIR bodies into expression trees, and canonical forms (DESIGN.md 2.3-1).

`fn_tree` turns a loop-free function (after constant-branch pruning) into one expression per observable result:
the return value and every store through a reference parameter.  Branches become `ite(cond, then, else)`
nodes (tree expansion of the acyclic CFG, bounded); local loop-free callees are inlined the same way; external
callees become operators through the small model table below (`abs`, `signum`, `max`, `min`, `clamp`,
`wide` lane operators, ...).  Nothing is evaluated on concrete inputs here.

`canon` brings integer expressions into a normal form: linear combinations are flattened (exact integer
coefficients), commutative operators sorted, `min(max(x,a),b)` = `clamp(x,a,b)`, value-preserving integer casts
dropped.  Truncating division `divt`, arithmetic shift `shra` and logical shift are DIFFERENT operators.
Two computations are "the same" iff their canonical forms are structurally equal.
"""
import sys
from fractions import Fraction
from .cfg import cfg_of, const_value
from .facts import Unanalysable

sys.setrecursionlimit(100000)


class TooComplex(Unanalysable):
    pass


# ------------------------------------------------------------------------------------------ expression trees
# ('c', v) ('in', name...) ('op', name, a, b) ('un', name, a) ('cast', ty, a) ('call', name, args...) ('ite', c, a, b)
# ('agg', tag, fields...) ('fld', e, i) ('idx', e, i) ('ref', e) ('unk', why)

EXT_OPS = [
    ('::abs', 'abs'), ('::signum', 'sgn'), ('std::cmp::Ord::max', 'max'), ('std::cmp::Ord::min', 'min'), ('std::cmp::max', 'max'), ('std::cmp::min', 'min'),
    ('>::clamp', 'clamp'), ('Ord::clamp', 'clamp'), ('::saturating_sub', 'satsub'), ('::saturating_add', 'satadd'), ('::div_ceil', 'divceil'),
    ('wide::i16x8::abs', 'abs'), ('wide::i16x8::max', 'max'), ('wide::i16x8::min', 'min'), ('wide::i32x4::max', 'max'), ('wide::i32x4::min', 'min'),
    ('as std::ops::Sub>::sub', 'Sub'), ('as std::ops::Add>::add', 'Add'), ('as std::ops::Mul>::mul', 'Mul'), ('std::ops::Mul<wide::i16x8> for i16>::mul', 'Mul'),
    ('std::ops::Mul<wide::i32x4> for i32>::mul', 'Mul'),
    ('as std::ops::Shr<i32>>::shr', 'Shra'), ('as std::ops::Shl<i32>>::shl', 'Shl'), ('as std::ops::BitOr>::bitor', 'BitOr'), ('as std::ops::BitAnd>::bitand', 'BitAnd'),
    ('std::ops::Neg for wide::i16x8>::neg', 'Neg'), ('::splat', 'splat'), ('as wide::CmpLt>::cmp_lt', 'vlt'), ('as wide::CmpGt>::cmp_gt', 'vgt'),
    ('as wide::CmpEq>::cmp_eq', 'veq'),
    ('std::convert::From<[i32; 4]> for wide::i32x4>::from', 'vec'), ('From<[i16; 8]> for wide::i16x8>::from', 'vec'),
    ('::as_array_ref', 'id'), ('bytemuck::cast', 'bytecast'), ('<T as std::convert::Into<U>>::into', 'id'), ('std::convert::From<', 'id'),
    ('f32>::floor', 'floor'), ('f32>::ceil', 'ceil'), ('f64>::ceil', 'ceil'), ('PartialOrd::gt', 'Gt'), ('PartialOrd::lt', 'Lt'), ('PartialOrd::ge', 'Ge'), ('PartialOrd::le', 'Le'),
    ('PartialEq::eq', 'Eq'), ('PartialEq::ne', 'Ne'), ('Ord for i16>::cmp', 'cmp3'), ('std::cmp::Ord::cmp', 'cmp3'),
    ('RangeInclusive::<Idx>::new', 'rangeincl'), ('::contains', 'contains'),
]


def ext_op(name):
    for pat, op in EXT_OPS:
        if pat in name: return op
    return None


def default_opaque(name):
    """callees that are never inlined: the bit reader primitives (their effect on the stream is the subject of C14)"""
    return 'parser::reader::H263Reader' in name


class TreeBuilder:
    def __init__(self, F, max_paths=4096, max_depth=6, opaque=default_opaque):
        self.F = F; self.max_paths = max_paths; self.max_depth = max_depth
        self.paths = 0; self.opaque = opaque

    def function(self, name, args=None, depth=0):
        """returns (ret_expr, stores) where stores = list of (target expr, value expr); both may contain ite nodes"""
        b = self.F.body(name)
        g = cfg_of(b)
        self.steps = getattr(self, 'steps', 0)
        env = {}
        for k in range(1, b['argc'] + 1):
            env[k] = args[k - 1] if args is not None else ('in', 'arg%d' % k)
        res = self._run(b, g, 0, env, [], None, depth)
        if res[0] != 'ret': raise TooComplex('no return reached in %s' % name)
        return res[1], res[2]

    def _run(self, b, g, bb, env, stores, stop, depth):
        """structured if-conversion: evaluate from bb until `stop` (the immediate post-dominator of the enclosing branch) or a return.
        returns ('ret', value, stores) or ('at', env, stores)"""
        blocks = b['blocks']
        while True:
            if bb == stop:
                return ('at', env, stores)
            self.steps += 1
            if self.steps > 400000: raise TooComplex('step budget exceeded in %s (a loop that does not unroll?)' % b['name'])
            blk = blocks[bb]
            for s in blk['stmts']:
                if s['s'] == 'assign':
                    val = self._rvalue(b, env, s['rv'])
                    self._write(b, env, stores, s['lhs'], val)
            t = blk['term']; k = t['t']
            if k == 'return':
                self.paths += 1
                return ('ret', self._export(env, env.get(0, ('c', ())), 0), [(self._export(env, t_, 0), self._export(env, v_, 0)) for t_, v_ in stores])
            if k in ('goto', 'drop', 'assert'):
                bb = t['to']; continue
            if k == 'unreachable':
                return ('ret', ('unreachable',), list(stores))
            if k == 'call':
                val = self._call(b, env, stores, t, depth)
                self._write(b, env, stores, t['dest'], val)
                if t['to'] is None:
                    return ('ret', ('diverge', self.F.callee_name(t)), list(stores))
                bb = t['to']; continue
            if k != 'switch':
                raise TooComplex('terminator %s' % k)
            succ = g.succ[bb]
            if len(succ) == 1:
                bb = succ[0]; continue
            cond = self._operand(b, env, t['on'])
            if cond[0] == 'c' and isinstance(cond[1], (int, bool)):
                tgt = t['otherwise']
                for val, to in t['arms']:
                    if int(val) == int(cond[1]): tgt = to
                bb = tgt; continue
            J = g.ipdom().get(bb, -1)
            if J == -1: J = None
            arms = []          # (condition or None for otherwise, target)
            seen_t = set()
            for v, to in t['arms']:
                if to in succ: arms.append((('op', 'Eq', cond, ('c', int(v))), to))
            if t['otherwise'] in succ: arms.append((None, t['otherwise']))
            else:
                # exhaustive switch: the last arm plays the role of `otherwise`
                c_last, to_last = arms[-1]; arms[-1] = (None, to_last)
            results = []
            for c, to in arms:
                self.paths += 0
                r = self._run(b, g, to, dict(env), list(stores), J, depth)
                results.append((c, r))
            self.paths += len(arms) - 1
            if self.paths > self.max_paths: raise TooComplex('more than %d paths in %s' % (self.max_paths, b['name']))
            ats = [(c, r) for c, r in results if r[0] == 'at']
            tail = None
            if ats:
                # merge the environments that reach the join
                menv, mst = ats[-1][1][1], ats[-1][1][2]
                for c, r in reversed(ats[:-1]):
                    cc = c if c is not None else None
                    if cc is None:
                        # `otherwise` is not last among the joining arms: express the others relative to it
                        cc = ('un', 'Not', _disj([x for x, _ in results if x is not None]))
                    menv = merge_env(cc, r[1], menv); mst = merge_stores(cc, r[2], mst)
                if ats[-1][0] is not None and any(c is None for c, r in ats[:-1]):
                    pass
                if J is None:
                    raise TooComplex('join without a post-dominator in %s' % b['name'])
                tail = self._run(b, g, J, menv, mst, stop, depth)
            # arms that returned before the join
            rets = [(c, r) for c, r in results if r[0] == 'ret']
            if tail is None:
                # all arms returned
                cur = rets[-1][1]
                val, st = cur[1], cur[2]
                for c, r in reversed(rets[:-1]):
                    cc = c if c is not None else ('un', 'Not', _disj([x for x, _ in results if x is not None]))
                    val = ite(cc, r[1], val); st = merge_stores(cc, r[2], st)
                return ('ret', val, st)
            if tail[0] == 'at':
                if rets: raise TooComplex('early return inside a nested region of %s' % b['name'])
                return tail
            val, st = tail[1], tail[2]
            for c, r in reversed(rets):
                cc = c if c is not None else ('un', 'Not', _disj([x for x, _ in results if x is not None]))
                val = ite(cc, r[1], val); st = merge_stores(cc, r[2], st)
            return ('ret', val, st)

    def _export(self, env, v, d):
        """a value leaving the function must not refer to the function's own locals: replace references to locals by references to their values"""
        if not isinstance(v, tuple) or d > 50: return v
        if v and v[0] == 'ref' and isinstance(v[1], tuple) and v[1] and v[1][0] == 'local':
            return ('ref', self._export(env, self._resolve_local(env, v[1]), d + 1))
        if v and v[0] == 'local':
            return self._export(env, self._resolve_local(env, v), d + 1)
        return tuple(self._export(env, x, d + 1) if isinstance(x, tuple) else x for x in v)

    def _merge(self, cond, branches, other):
        """switch -> ite(cond == v1, r1, ite(cond == v2, r2, ... otherwise))"""
        if other is None:
            (v0, cur_r, cur_s) = branches[-1]
            rest = branches[:-1]
        else:
            cur_r, cur_s = other
            rest = branches
        for v, r, st in reversed(rest):
            c = ('op', 'Eq', cond, ('c', v))
            cur_r = ite(c, r, cur_r); cur_s = merge_stores(c, st, cur_s)
        return cur_r, cur_s

    # ---- places / operands
    def _operand(self, b, env, o):
        if o['o'] == 'const':
            v = const_value(o)
            ty = o['ty']['t']
            if v is not None and ty['k'] in ('int', 'float'): return ('c', v)
            if v is not None and ty['k'] == 'bool': return ('c', int(v != 0))
            if 'uneval' in o and 'promoted' not in o:
                # small constant items (HalfPel::STANDARD_RANGE, i16x8::ZERO ...)
                cn = b['crate'] + '::' + o['uneval']
                if cn in self.F.bodies:
                    from . import tables
                    try:
                        return _from_folded(tables.fold_const(self.F, cn))
                    except Exception:
                        pass
                return ('item', o['uneval'])
            if 'uneval' in o and 'promoted' in o:
                pn = '%s::%s::promoted[%d]' % (b['crate'], o['uneval'], o['promoted'])
                if pn in self.F.bodies:
                    r, _ = TreeBuilder(self.F).function(pn)
                    return r
            if 'fn' in o: return ('fn', o.get('resolved') or o['fn'])
            if ty['k'] == 'tuple' and not ty['of']: return ('c', ())
            return ('k', o.get('txt'))
        return self._read(b, env, o['p'])

    def _read(self, b, env, p, resolve=True):
        v = env.get(p['l'], ('unk', 'uninit _%d' % p['l']))
        for e in p['proj']:
            v = project(v, e, lambda l: env.get(l, ('unk', 'idx')))
        if resolve and v[0] == 'local' and p['proj']: v = self._resolve_local(env, v)
        if resolve and v[0] == 'cell': v = self._cell_value(v)
        return v

    def _cell_value(self, c):
        cv = getattr(self, 'cellvals', {})
        return cv.get(c[1], c[2])

    def _resolve_local(self, env, v):
        """value currently stored at ('local', l, path)"""
        cur = env.get(v[1], ('unk', 'uninit _%d' % v[1]))
        for el in v[2]:
            if isinstance(el, int): cur = project(cur, {'p': 'field', 'i': el}, None)
            elif isinstance(el, tuple) and el[0] == 'i': cur = index(cur, el[1])
        if cur[0] == 'call' and cur[1] in ('vec', 'splat') or (cur[0] == 'call' and cur[1] in ELEMENTWISE):
            return cur
        return cur

    def _write(self, b, env, stores, lhs, val):
        if not lhs['proj']:
            env[lhs['l']] = val; return
        base = env.get(lhs['l'])
        # a store through a reference parameter / into an input array: observable effect
        deref = any(e['p'] == 'deref' for e in lhs['proj'])
        if deref or (base is not None and base[0] in ('in', 'ref')):
            tgt = base if base is not None else ('unk', 'base')
            for e in lhs['proj']:
                tgt = project(tgt, e, lambda l: env.get(l, ('unk', 'idx')), for_store=True)
            if tgt[0] == 'local':
                # store through a reference to a local: update the local
                self._update_local(env, tgt, val)
            elif tgt[0] == 'cell':
                if not hasattr(self, 'cellvals'): self.cellvals = {}
                self.cellvals[tgt[1]] = val
                stores[:] = [(t_, v_) for (t_, v_) in stores if not (t_[0] == 'cell' and t_[1] == tgt[1])]
                stores.append((('cell', tgt[1]), val))
            else:
                stores.append((tgt, val))
            return
        # field / index update of a local aggregate
        env[lhs['l']] = update(base if base is not None else ('unk', 'uninit'), lhs['proj'], val, lambda l: env.get(l, ('unk', 'idx')))

    def _update_local(self, env, tgt, val):
        # tgt = ('local', l, path...)
        l = tgt[1]; path = tgt[2]
        if not path: env[l] = val
        else: env[l] = update(env.get(l, ('unk', 'uninit')), [{'p': 'field', 'i': i} if isinstance(i, int) else {'p': 'cidx', 'v': i[1]} for i in path], val, None)

    def _rvalue(self, b, env, rv):
        k = rv['r']
        if k == 'use': return self._operand(b, env, rv['a'])
        if k == 'bin':
            a = self._operand(b, env, rv['a']); c = self._operand(b, env, rv['b'])
            op = rv['op']
            if op.endswith('WithOverflow'):
                return ('agg', 'checked', ('op', op[:-len('WithOverflow')], a, c), ('c', 0))
            return ('op', op.replace('Unchecked', ''), a, c)
        if k == 'un':
            return ('un', rv['op'], self._operand(b, env, rv['a']))
        if k == 'cast':
            return ('cast', rv['to']['s'], self._operand(b, env, rv['a']))
        if k in ('ref', 'rawptr'):
            p = rv['p']
            if not p['proj']: return ('ref', ('local', p['l'], ()))
            v = self._read(b, env, p, resolve=False)
            return ('ref', v)
        if k == 'agg':
            kd = rv['kind']
            tag = kd.get('vname') or kd['a']
            if kd['a'] == 'adt': tag = '%s::%s' % (kd['path'].split('::')[-1], kd['vname'])
            return ('agg', tag) + tuple(self._operand(b, env, o) for o in rv['ops'])
        if k == 'discr':
            v = self._read(b, env, rv['p'])
            if v[0] == 'agg' and v[1] in ('Option::None', 'Result::Ok', 'ControlFlow::Continue'): return ('c', 0)
            if v[0] == 'agg' and v[1] in ('Option::Some', 'Result::Err', 'ControlFlow::Break'): return ('c', 1)
            return ('discr', v)
        if k == 'repeat':
            return ('repeat', self._operand(b, env, rv['a']), rv['n'])
        return ('unk', k)

    def _call(self, b, env, stores, t, depth):
        F = self.F
        args = [self._operand(b, env, a) for a in t['args']]
        # dereference references to locals passed as arguments (value semantics for small Copy types)
        callee = F.local_callee(b['crate'], t)
        name = F.callee_name(t)
        if callee and depth < self.max_depth and not self.opaque(callee):
            try:
                sub = TreeBuilder(F, self.max_paths, self.max_depth, self.opaque)
                sub.paths = 0; sub.steps = self.steps
                rargs = [self._to_cells(env, a) for a in args]
                r, st = sub.function(callee, rargs, depth + 1)
                self.paths += sub.paths; self.steps = sub.steps
                for (tg, v) in st:
                    if tg[0] == 'cell' and tg[1][0] == id(self):
                        loc = ('local', tg[1][1], tg[1][2])
                        cur = self._resolve_local(env, loc)
                        self._update_local(env, loc, self._subst_old(v, tg, cur))
                    else:
                        stores.append((tg, v))
                return self._from_cells(env, r)
            except TooComplex:
                return ('call', name) + tuple(args)
        if name.endswith('IntoIterator>::into_iter') and args and args[0][0] == 'agg' and args[0][1].startswith('Range'):
            return args[0]
        if 'Iterator for std::ops::Range<A>>::next' in name and args and args[0][0] == 'ref' and args[0][1][0] == 'local':
            l = args[0][1][1]
            cur = env.get(l)
            if cur and cur[0] == 'agg' and cur[1].startswith('Range') and cur[2][0] == 'c' and cur[3][0] == 'c':
                lo, hi = cur[2][1], cur[3][1]
                if lo < hi:
                    env[l] = ('agg', cur[1], ('c', lo + 1), cur[3])
                    return ('agg', 'Option::Some', ('c', lo))
                return ('agg', 'Option::None')
            raise TooComplex('Range loop with non-constant bounds in %s' % b['name'])
        if name.endswith('copy_from_slice') and len(args) == 2:
            dst = args[0]
            while dst[0] == 'cast' and (dst[1].startswith('&') or dst[1].startswith('*')): dst = dst[2]
            if dst[0] == 'ref': dst = dst[1]
            stores.append((dst, self._deref_val(env, args[1])))
            return ('c', ())
        op = ext_op(name)
        if op == 'id': return args[0]
        if op: return ('call', op) + tuple(self._deref_val(env, a) for a in args)
        return ('call', name) + tuple(args)

    def _deref_arg(self, env, a):
        return a

    def _to_cells(self, env, a):
        """references to this frame's locals become cells (location id + snapshot of the value) when handed to an inlined callee"""
        if not isinstance(a, tuple): return a
        if a and a[0] == 'ref' and isinstance(a[1], tuple) and a[1] and a[1][0] == 'local':
            loc = a[1]
            return ('ref', ('cell', (id(self), loc[1], loc[2]), self._to_cells(env, self._resolve_local(env, loc))))
        return tuple(self._to_cells(env, x) if isinstance(x, tuple) else x for x in a)

    def _from_cells(self, env, v):
        """a value returned by an inlined callee: cells of this frame become references to the locals again"""
        if not isinstance(v, tuple): return v
        if v and v[0] == 'cell' and v[1][0] == id(self):
            return ('local', v[1][1], v[1][2])
        return tuple(self._from_cells(env, x) if isinstance(x, tuple) else x for x in v)

    def _subst_old(self, v, tg, cur):
        if not isinstance(v, tuple): return v
        if v and v[0] == 'old' and v[1] == tg: return cur
        return tuple(self._subst_old(x, tg, cur) if isinstance(x, tuple) else x for x in v)

    def _deref_val(self, env, a):
        while a[0] == 'cast' and (a[1].startswith('&') or a[1].startswith('*')): a = a[2]
        if a[0] == 'ref' and a[1][0] == 'local':
            return self._resolve_local(env, a[1])
        if a[0] == 'ref' and a[1][0] == 'cell':
            return self._cell_value(a[1])
        if a[0] == 'ref':
            inner = a[1]
            if inner[0] == 'local':
                v = env.get(inner[1], ('unk', 'ref to uninit'))
                for i in inner[2]: v = project(v, {'p': 'field', 'i': i}, None)
                return v
            return inner
        return a


def _from_folded(v):
    k = v[0]
    if k in ('int', 'float'): return ('c', v[1])
    if k == 'bool': return ('c', int(v[1]))
    if k == 'array': return ('agg', 'array') + tuple(_from_folded(x) for x in v[1])
    if k == 'tuple': return ('agg', 'tuple') + tuple(_from_folded(x) for x in v[1])
    if k == 'enum': return ('agg', '%s::v%d' % (v[1].split('::')[-1], v[2])) + tuple(_from_folded(x) for x in v[3])
    if k == 'ref': return ('ref', _from_folded(v[1]))
    if k == 'unit': return ('c', ())
    raise TooComplex('unfoldable const')


def ite(c, a, b):
    if a == b: return a
    return ('ite', c, a, b)


def _disj(cs):
    cur = cs[0]
    for c in cs[1:]: cur = ('op', 'BitOr', cur, c)
    return cur


def merge_env(c, ea, eb):
    """environment after a join: ite(c, value on the c-branch, value on the other)"""
    out = {}
    for k in set(ea) | set(eb):
        va = ea.get(k); vb = eb.get(k)
        if va is None or vb is None:
            continue          # defined on one side only: dead after the join (MIR temporaries)
        out[k] = va if va == vb else ite(c, va, vb)
    return out


def merge_stores(c, sa, sb):
    """stores of the two branches -> conditional stores"""
    out = []
    ta = {repr(t): (t, v) for t, v in sa}; tb = {repr(t): (t, v) for t, v in sb}
    for k in list(ta) + [k for k in tb if k not in ta]:
        if k in ta and k in tb:
            out.append((ta[k][0], ite(c, ta[k][1], tb[k][1])))
        elif k in ta:
            out.append((ta[k][0], ite(c, ta[k][1], ('old', ta[k][0]))))
        else:
            out.append((tb[k][0], ite(c, ('old', tb[k][0]), tb[k][1])))
    return out


def project(v, e, getlocal, for_store=False):
    k = e['p']
    if k == 'deref':
        if v[0] == 'ref': return v[1]
        return v
    if k == 'field' and v[0] == 'cell':
        return ('cell', (v[1][0], v[1][1], v[1][2] + (e['i'],)), project(v[2], e, getlocal) if len(v) > 2 else ('unk', 'cell'))
    if k == 'field':
        i = e['i']
        if v[0] == 'agg':
            if v[1] == 'checked': return v[2] if i == 0 else v[3]
            if i + 2 < len(v) + 0 and len(v) > i + 2 - 0:
                return v[2 + i] if 2 + i < len(v) else ('unk', 'field')
        if v[0] == 'local': return ('local', v[1], v[2] + (i,))
        if v[0] == 'ite' and not for_store: return ite(v[1], project(v[2], e, getlocal), project(v[3], e, getlocal))
        return ('fld', v, i)
    if k == 'downcast':
        if v[0] == 'ite' and not for_store: return ite(v[1], project(v[2], e, getlocal), project(v[3], e, getlocal))
        return ('as', v, e['v']) if v[0] != 'agg' else v
    if k == 'cindex':
        return index(v, ('c', e['off']))
    if k == 'index':
        return index(v, getlocal(e['l']) if getlocal else ('unk', 'idx'))
    if k == 'subslice':
        return ('subslice', v, e['from'], e['to'], e['end'])
    return ('proj?', v, k)


def index(v, i):
    if v[0] == 'agg' and v[1] in ('array', 'tuple') and i[0] == 'c' and isinstance(i[1], int) and 0 <= i[1] < len(v) - 2:
        return v[2 + i[1]]
    if v[0] == 'call' and i[0] == 'c' and isinstance(i[1], int) and (v[1] in ('vec', 'splat', 'Shra', 'Shl', 'bytecast') or v[1] in ELEMENTWISE):
        return lane(v, i[1])
    if v[0] == 'repeat': return v[1]
    if v[0] == 'local': return ('local', v[1], v[2] + (('i', i),))
    return ('idx', v, i)


def update(base, proj, val, getlocal):
    if not proj: return val
    e = proj[0]
    if e['p'] == 'field':
        i = e['i']
        if base[0] == 'agg' and base[1] != 'checked' and 2 + i < len(base):
            lst = list(base); lst[2 + i] = update(base[2 + i], proj[1:], val, getlocal); return tuple(lst)
        if base[0] == 'unk':
            fields = [('unk', 'uninit')] * (i + 1); fields[i] = update(('unk', 'uninit'), proj[1:], val, getlocal)
            return ('agg', 'tuple') + tuple(fields)
        return ('upd', base, ('f', i), update(('fld', base, i), proj[1:], val, getlocal))
    if e['p'] in ('index', 'cindex', 'cidx'):
        i = ('c', e.get('off', e.get('v'))) if e['p'] != 'index' else (getlocal(e['l']) if getlocal else ('unk', 'idx'))
        if base[0] == 'agg' and base[1] == 'array' and i[0] == 'c' and isinstance(i[1], int) and 2 + i[1] < len(base):
            lst = list(base); lst[2 + i[1]] = update(base[2 + i[1]], proj[1:], val, getlocal); return tuple(lst)
        if base[0] == 'repeat' and i[0] == 'c':
            try:
                n = int(str(base[2]).split('_')[0])
                arr = ('agg', 'array') + tuple(base[1] for _ in range(n))
                return update(arr, proj, val, getlocal)
            except Exception:
                pass
        return ('upd', base, ('i', i), update(('idx', base, i), proj[1:], val, getlocal))
    if e['p'] == 'deref':
        return update(base, proj[1:], val, getlocal)
    return ('upd', base, ('?', e['p']), val)


# ------------------------------------------------------------------------------------------ lanes of wide vectors
ELEMENTWISE = {'Add', 'Sub', 'Mul', 'BitOr', 'BitAnd', 'Neg', 'abs', 'max', 'min', 'clamp', 'sgn', 'vlt', 'vgt', 'veq'}


def lane(e, k):
    """k-th lane of a vector-valued expression (scalars broadcast)"""
    t = e[0]
    if t == 'call':
        op = e[1]
        if op == 'vec':
            a = e[2]
            if a[0] == 'agg' and a[1] == 'array': return a[2 + k]
            return ('idx', a, ('c', k))
        if op == 'splat': return e[2]
        if op in ELEMENTWISE: return ('call', op) + tuple(lane(x, k) for x in e[2:])
        if op in ('Shra', 'Shl'): return ('call', op, lane(e[2], k), e[3])
        if op == 'bytecast': return ('call', 'bytecast', e[2], ('c', k))
        return ('lane', e, k)
    if t == 'item':
        if e[1].endswith('::ZERO'): return ('c', 0)
        if e[1].endswith('::ONE'): return ('c', 1)
        return ('lane', e, k)
    if t == 'ite': return ite(e[1], lane(e[2], k), lane(e[3], k))
    if t == 'ref': return lane(e[1], k)
    if t == 'agg' and e[1] == 'array': return e[2 + k]
    if t in ('c', 'in', 'cast', 'op', 'un', 'idx', 'fld'): return e
    return ('lane', e, k)


# ------------------------------------------------------------------------------------------ canonical forms
def is_lin(x):
    return isinstance(x, tuple) and x and x[0] == 'lin'


def lin(terms, c):
    d = {}
    for a, k in terms:
        if k != 0: d[a] = d.get(a, 0) + k
    items = tuple(sorted(((a, k) for a, k in d.items() if k != 0), key=lambda t: repr(t[0])))
    return ('lin', items, c)


def lin_const(x):
    return x[2] if is_lin(x) and not x[1] else None


def lin_add(a, b, sign=1):
    return lin(list(a[1]) + [(t, sign * k) for t, k in b[1]], a[2] + sign * b[2])


def lin_scale(a, k):
    return lin([(t, c * k) for t, c in a[1]], a[2] * k)


def atom(a):
    return lin([(a, 1)], 0)


INT_TYPES = ('u8', 'u16', 'u32', 'u64', 'usize', 'i8', 'i16', 'i32', 'i64', 'isize', 'u128', 'i128')


def canon(e, opts=None):
    """canonical form of an expression tree"""
    opts = opts or {}
    memo = {}

    def C(e):
        k = id(e)
        # (tuples are immutable: memo by identity is safe within one call)
        if k in memo: return memo[k]
        r = C_(e); memo[k] = r
        return r

    def C_(e):
        t = e[0]
        if t == 'c':
            v = e[1]
            if isinstance(v, bool): v = int(v)
            if isinstance(v, float):
                return ('lin', (), Fraction(v)) if v == int(v) and abs(v) < 2**53 else atom(('fc', v))
            if isinstance(v, int): return ('lin', (), v)
            return atom(('k', repr(v)))
        if t == 'in': return atom(e)
        if t == 'cast':
            inner = C(e[2])
            if e[1] in INT_TYPES and not _floaty(e[2]):
                return inner          # integer-to-integer: value-preserving wherever the interval reading shows no truncation
            if e[1] in ('f32', 'f64'): return inner if not opts.get('keep_float_casts') else atom(('tofloat', e[1], inner))
            return atom(('cast', e[1], inner))
        if t == 'op' or (t == 'call' and e[1] in ('Add', 'Sub', 'Mul', 'BitOr', 'BitAnd', 'Shra', 'Shl', 'Neg', 'Gt', 'Lt', 'Ge', 'Le', 'Eq', 'Ne')):
            op = e[1]; args = [C(x) for x in e[2:]]
            if op == 'Neg': return lin_scale(args[0], -1)
            a, b = args[0], args[1]
            ca_, cb_ = lin_const(a), lin_const(b)
            if ca_ is not None and cb_ is not None and isinstance(ca_, int) and isinstance(cb_, int):
                # constant folding (mathematical integers; the interval reading rules out wrap-around separately)
                f = {'Shl': lambda x, y: x << y if 0 <= y < 128 else None, 'Shr': lambda x, y: x >> y if 0 <= y < 128 else None,
                     'Shra': lambda x, y: x >> y if 0 <= y < 128 else None, 'BitAnd': lambda x, y: x & y, 'BitOr': lambda x, y: x | y, 'BitXor': lambda x, y: x ^ y,
                     'Div': lambda x, y: (abs(x) // abs(y)) * (1 if (x >= 0) == (y >= 0) else -1) if y != 0 else None,
                     'Rem': lambda x, y: (abs(x) % abs(y)) * (1 if x >= 0 else -1) if y != 0 else None}.get(op)
                if f is not None:
                    v = f(ca_, cb_)
                    if v is not None: return ('lin', (), v)
            if op == 'Add': return lin_add(a, b, 1)
            if op == 'Sub': return lin_add(a, b, -1)
            if op == 'Mul':
                ca, cb = lin_const(a), lin_const(b)
                if ca is not None: return lin_scale(b, ca)
                if cb is not None: return lin_scale(a, cb)
                return atom(('mul',) + tuple(sorted((a, b), key=repr)))
            if op == 'Div':
                return atom(('divt', a, b))
            if op == 'Rem': return atom(('remt', a, b))
            if op in ('Shr', 'Shra'):
                # the truncating-division idiom  (x + ((x >> (w-1)) & (2^k - 1))) >> k  ==  divt(x, 2^k)
                kk = lin_const(b)
                if kk is not None and is_lin(a):
                    for (t2, c2) in a[1]:
                        if c2 == 1 and t2[0] == 'and' and len(t2) == 3:
                            rest = lin([(t_, c_) for (t_, c_) in a[1] if t_ is not t2], a[2])
                            consts = [lin_const(x) for x in t2[1:]]
                            other = [x for x in t2[1:] if lin_const(x) is None]
                            if (2 ** kk - 1) in consts and len(other) == 1 and is_lin(other[0]) and len(other[0][1]) == 1 and other[0][2] == 0 and other[0][1][0][1] == 1:
                                sh = other[0][1][0][0]
                                if sh[0] in ('shra', 'shr') and lin_const(sh[2]) in (7, 15, 31, 63) and sh[1] == rest:
                                    return atom(('divt', rest, ('lin', (), 2 ** kk)))
                return atom(('shra' if op == 'Shra' else 'shr', a, b))
            if op == 'Shl':
                kk = lin_const(b)
                if kk is not None and opts.get('shl_as_mul'): return lin_scale(a, 2 ** kk)
                return atom(('shl', a, b))
            if op == 'BitOr': return atom(('or',) + tuple(sorted(_flat('or', [a, b]), key=repr)))
            if op == 'BitAnd': return atom(('and',) + tuple(sorted(_flat('and', [a, b]), key=repr)))
            if op == 'BitXor': return atom(('xor',) + tuple(sorted([a, b], key=repr)))
            if op in ('Eq', 'Ne', 'Lt', 'Le', 'Gt', 'Ge'):
                return cmp_canon(op, a, b)
            return atom((op.lower(), a, b))
        if t == 'un':
            a = C(e[2])
            if e[1] == 'Neg': return lin_scale(a, -1)
            if e[1] == 'Not':
                if is_lin(a) and len(a[1]) == 1 and a[2] == 0 and a[1][0][1] == 1 and a[1][0][0][0] == 'cmp':
                    c = a[1][0][0]
                    return atom(('cmp', {'eq': 'ne', 'ne': 'eq', 'lt': 'ge', 'ge': 'lt', 'le': 'gt', 'gt': 'le'}[c[1]], c[2]))
                return atom(('not', a))
            return atom((e[1].lower(), a))
        if t == 'call':
            op = e[1]; args = [C(x) for x in e[2:]]
            if op == 'abs': return atom(('abs', args[0]))
            if op == 'sgn': return atom(('sgn', args[0]))
            if op == 'max': return _minmax('max', args)
            if op == 'min': return _minmax('min', args)
            if op == 'clamp': return _minmax('min', [_minmax('max', [args[0], args[1]]), args[2]])
            if op in ('vlt', 'vgt'):
                return atom((op, lin_add(args[0], args[1], -1)))
            if op in ('floor', 'ceil'): return atom((op, args[0]))
            if op == 'satadd' and opts.get('satadd_is_add'): return lin_add(args[0], args[1], 1)
            if op == 'satsub': return _minmax('max', [lin_add(args[0], args[1], -1), ('lin', (), 0)]) if opts.get('unsigned_satsub', True) else atom(('satsub',) + tuple(args))
            return atom(('call', op) + tuple(args))
        if t == 'ite':
            c = C(e[1]); a = C(e[2]); b = C(e[3])
            cc = lin_const(c)
            if cc is not None: return a if cc != 0 else b
            if a == b: return a
            # canonical polarity of the condition: eq / lt / le (flip ne, ge, gt by swapping the branches)
            if is_lin(c) and len(c[1]) == 1 and c[2] == 0 and c[1][0][1] == 1 and c[1][0][0][0] == 'cmp' and c[1][0][0][1] in ('ne', 'ge', 'gt'):
                cc_ = c[1][0][0]
                c = atom(('cmp', {'ne': 'eq', 'ge': 'lt', 'gt': 'le'}[cc_[1]], cc_[2])); a, b = b, a
            return atom(('ite', c, a, b))
        if t == 'agg':
            return atom(('agg', e[1]) + tuple(C(x) for x in e[2:]))
        if t in ('fld', 'idx', 'as', 'ref', 'discr', 'old'):
            return atom((t,) + tuple(C(x) if isinstance(x, tuple) and x and isinstance(x[0], str) and x[0] in KNOWN_HEADS else x for x in e[1:]))
        return atom(('raw', repr(e)[:200]))

    r = C(e)
    return post(r)


KNOWN_HEADS = {'c', 'in', 'op', 'un', 'cast', 'call', 'ite', 'agg', 'fld', 'idx', 'as', 'ref', 'discr', 'old', 'item', 'repeat', 'local', 'lane'}


def _floaty(e):
    if not isinstance(e, tuple): return False
    if e[0] == 'c' and isinstance(e[1], float): return True
    if e[0] == 'cast' and e[1] in ('f32', 'f64'): return True
    if e[0] == 'call' and e[1] in ('floor', 'ceil'): return True
    return any(_floaty(x) for x in e[1:] if isinstance(x, tuple))


def _flat(op, args):
    out = []
    for a in args:
        if is_lin(a) and len(a[1]) == 1 and a[2] == 0 and a[1][0][1] == 1 and a[1][0][0][0] == op:
            out += list(a[1][0][0][1:])
        else: out.append(a)
    return out


def _minmax(op, args):
    flat = _flat(op, args)
    consts = [lin_const(x) for x in flat if lin_const(x) is not None]
    rest = [x for x in flat if lin_const(x) is None]
    if consts:
        c = max(consts) if op == 'max' else min(consts)
        rest.append(('lin', (), c))
    uniq = []
    for x in rest:
        if x not in uniq: uniq.append(x)
    if len(uniq) == 1: return uniq[0]
    # max(min(x, b), a) with constants a <= b  ==  min(max(x, a), b)   (canonical clamp orientation)
    if op == 'max' and len(uniq) == 2:
        cs = [x for x in uniq if lin_const(x) is not None]; nc = [x for x in uniq if lin_const(x) is None]
        if len(cs) == 1 and len(nc) == 1 and is_lin(nc[0]) and len(nc[0][1]) == 1 and nc[0][2] == 0 and nc[0][1][0][1] == 1 and nc[0][1][0][0][0] == 'min':
            inner = list(nc[0][1][0][0][1:])
            ics = [lin_const(x) for x in inner if lin_const(x) is not None]
            if len(ics) == 1 and lin_const(cs[0]) <= ics[0]:
                rest = [x for x in inner if lin_const(x) is None]
                return _minmax('min', [_minmax('max', rest + [cs[0]]), ('lin', (), ics[0])])
    return atom((op,) + tuple(sorted(uniq, key=repr)))


def cmp_canon(op, a, b):
    """comparison as `lin OP 0` with a normalised sign"""
    d = lin_add(a, b, -1)
    ops = {'Eq': 'eq', 'Ne': 'ne', 'Lt': 'lt', 'Le': 'le', 'Gt': 'gt', 'Ge': 'ge'}
    o = ops[op]
    c = lin_const(d)
    if c is not None:
        r = {'eq': c == 0, 'ne': c != 0, 'lt': c < 0, 'le': c <= 0, 'gt': c > 0, 'ge': c >= 0}[o]
        return ('lin', (), int(r))
    # normalise sign: first coefficient positive
    if d[1] and d[1][0][1] < 0:
        d = lin_scale(d, -1)
        o = {'eq': 'eq', 'ne': 'ne', 'lt': 'gt', 'le': 'ge', 'gt': 'lt', 'ge': 'le'}[o]
    # `b == 0` where b is itself a comparison: negation
    if o in ('eq', 'ne') and len(d[1]) == 1 and d[1][0][1] == 1 and d[1][0][0][0] == 'cmp' and d[2] in (0, -1):
        inner = d[1][0][0]
        truth = (o == 'eq') == (d[2] == -1)      # inner == 1  /  inner != 0  -> inner itself
        if truth: return atom(inner)
        return atom(('cmp', {'eq': 'ne', 'ne': 'eq', 'lt': 'ge', 'ge': 'lt', 'le': 'gt', 'gt': 'le'}[inner[1]], inner[2]))
    return atom(('cmp', o, d))


def post(r):
    """rewrites on the finished form: sgn from the SIMD comparison idiom"""
    if not is_lin(r): return r
    terms = dict(r[1])
    changed = True
    while changed:
        changed = False
        for a, k in list(terms.items()):
            if a[0] == 'vlt' and k != 0:
                g = ('vgt', a[1])
                if terms.get(g, 0) == -k:
                    terms.pop(a); terms.pop(g)
                    s = ('sgn', a[1])
                    terms[s] = terms.get(s, 0) + k
                    changed = True; break
    # recurse into atoms
    out = []
    for a, k in terms.items():
        out.append((post_atom(a), k))
    return lin(out, r[2])


def post_atom(a):
    if not isinstance(a, tuple): return a
    if a and a[0] == 'mul':
        return ('mul',) + tuple(sorted((post(x) for x in a[1:]), key=repr))
    return tuple(post(x) if is_lin(x) else (post_atom(x) if isinstance(x, tuple) else x) for x in a)


def show(r, depth=0):
    """compact rendering of a canonical form"""
    if is_lin(r):
        parts = []
        for a, k in r[1]:
            s = show_atom(a, depth)
            parts.append(s if k == 1 else ('-%s' % s if k == -1 else '%s*%s' % (k, s)))
        if r[2] != 0 or not parts: parts.append(str(r[2]))
        return parts[0] if len(parts) == 1 else '(' + ' + '.join(parts) + ')'
    return show_atom(r, depth)


def show_atom(a, depth=0):
    if not isinstance(a, tuple): return str(a)
    if a[0] == 'in': return '.'.join(str(x) for x in a[1:])
    if a[0] == 'cmp': return '%s %s 0' % (show(a[2]), {'eq': '==', 'ne': '!=', 'lt': '<', 'le': '<=', 'gt': '>', 'ge': '>='}[a[1]])
    if a[0] == 'idx': return '%s[%s]' % (show(a[1]) if is_lin(a[1]) else show_atom(a[1]), show(a[2]) if is_lin(a[2]) else show_atom(a[2]))
    return '%s(%s)' % (a[0], ', '.join(show(x, depth + 1) if is_lin(x) else (show_atom(x, depth + 1) if isinstance(x, tuple) else str(x)) for x in a[1:]))


# ------------------------------------------------------------------------------------------ from def-use expressions (lint.dataflow.expr_of)
def from_expr(F, body, e, depth=0):
    """convert a def-use expression (dataflow.expr_of) into a tree of this module; two-definition locals whose definitions sit in the two
    arms of one branch become `ite` nodes (gamma), other loop-carried locals stay symbolic inputs"""
    from .dataflow import defs_of, expr_of, _expr_rv
    if not isinstance(e, tuple) or not e: return ('c', e)
    k = e[0]
    R = lambda x: from_expr(F, body, x, depth + 1)
    if k == 'c': return e
    if k == 'param': return _proj(('in', 'arg%d' % e[1]), e[2], R)
    if k == 'multi':
        g = _gamma(F, body, e[1], depth)
        base = g if g is not None else ('in', '$' + body.get('debug', {}).get(str(e[1]), '_%d' % e[1]))
        return _proj(base, e[2] if len(e) > 2 else (), R)
    if k == 'op': return ('op', e[1], R(e[2]), R(e[3]))
    if k == 'un': return ('un', e[1], R(e[2]))
    if k == 'cast': return ('cast', e[1], R(e[2]))
    if k == 'call':
        op = ext_op(e[1])
        args = tuple(R(x) for x in e[2:])
        if op == 'id': return args[0]
        if op: return ('call', op) + args
        return ('call', e[1]) + args
    if k == 'fld': return _proj(R(e[1]), e[2], R)
    if k == 'len': return ('call', 'len', R(e[1]))
    if k == 'agg': return ('agg', e[1]) + tuple(R(x) for x in e[2:])
    if k == 'item': return ('item', e[1])
    if k == 'discr': return ('discr', R(e[1]))
    return ('unk', repr(e)[:80])


def _proj(base, path, R):
    for el in path:
        if isinstance(el, int): base = project(base, {'p': 'field', 'i': el}, None)
        elif isinstance(el, tuple) and el[0] == 'as': base = ('as', base, el[1]) if base[0] != 'agg' else base
        elif isinstance(el, tuple) and el[0] == 'idx': base = index(base, R(el[1]) if isinstance(el[1], tuple) else ('unk', 'idx'))
        elif isinstance(el, tuple) and el[0] == 'cidx': base = index(base, ('c', el[1]))
        else: base = ('proj?', base, el)
    return base


def _gamma(F, body, l, depth):
    from .dataflow import defs_of, _expr_rv, expr_of
    if depth > 12: return None
    D = defs_of(body); g = cfg_of(body)
    ds = [d for d in D.defs.get(l, []) if d[0] == 'assign' and not d[3]['lhs']['proj']]
    if len(ds) != len(D.defs.get(l, [])) or len(ds) != 2: return None
    (d1, d2) = ds
    b1, b2 = d1[1], d2[1]
    cd = g.control_deps()
    for (a, s1) in cd.get(b1, ()):
        for (a2, s2) in cd.get(b2, ()):
            if a == a2 and s1 != s2:
                t = g.blocks[a]['term']
                if t['t'] != 'switch': continue
                cond = from_expr(F, body, expr_of(F, body, t['on']), depth + 1)
                arms = {to: int(v) for v, to in t['arms']}
                v1 = from_expr(F, body, _expr_rv(F, body, d1[3]['rv'], 0, {}), depth + 1)
                v2 = from_expr(F, body, _expr_rv(F, body, d2[3]['rv'], 0, {}), depth + 1)
                if s1 in arms: return ite(('op', 'Eq', cond, ('c', arms[s1])), v1, v2)
                if s2 in arms: return ite(('op', 'Eq', cond, ('c', arms[s2])), v2, v1)
    return None


def leaves(r, acc=None):
    """input atoms ('in', ...) of a canonical form"""
    if acc is None: acc = set()
    if isinstance(r, tuple):
        if r and r[0] == 'in': acc.add(r); return acc
        for x in r:
            if isinstance(x, tuple): leaves(x, acc)
    return acc


def subst(r, mapping):
    """replace sub-forms (by equality) in a canonical form; the result must be re-normalised by the caller if needed"""
    if r in mapping: return mapping[r]
    if isinstance(r, tuple): return tuple(subst(x, mapping) if isinstance(x, tuple) else x for x in r)
    return r
