"""Decision tables of the header parsers (DESIGN.md 2.3-3, 6/C06): effects found by control dependence, their conditions read
in the bit-slice domain.

An *effect* is one MIR site: a flag inserted with `|=`, an enum variant / Err value constructed, a reader call, a returned
record.  Its *condition* is the conjunction of the branch decisions it is control dependent on (transitively), each decision
normalised to  slice(read #k, mask, shift) OP constant  where read #k is the k-th consuming reader call of the function in
dominance order; decisions about anything else (flag sets, options, earlier results) are kept as named atoms.
"""
import re
from .cfg import cfg_of, const_value
from .dataflow import defs_of, callee_is, strip_ref, expr_of, expr_str, strip_casts, _expr_rv
from .facts import Unanalysable

READS = ('read_bits', 'read_u8', 'read_signed_bits', 'read_vlc', 'read_umv', 'skip_bits', 'peek_bits', 'recognize_start_code')


class Table:
    def __init__(self, F, name):
        self.F = F; self.name = name
        self.b = F.body(name); self.g = cfg_of(self.b); self.D = defs_of(self.b)
        self.names = self.b.get('debug', {})
        self.reads = []          # [(bb, callee short, width expr)]
        self._index_reads()
        self._cond_cache = {}
        self._pc = None

    # ---- reads in dominance / program order
    def _index_reads(self):
        F, b, g = self.F, self.b, self.g
        sites = []
        for bb, t in g.calls():
            n = F.callee_name(t)
            m = re.search(r'H263Reader::<R>::(\w+)$', n)
            if m and m.group(1) in READS:
                w = None
                if m.group(1) == 'read_u8': w = 8
                elif len(t['args']) > 1:
                    e = expr_of(F, b, t['args'][1])
                    w = e[1] if e[0] == 'c' else expr_str(e, self.names)
                sites.append((bb, m.group(1), w))
            elif F.local_callee(b['crate'], t) and re.search(r'parser::(picture|gob|macroblock|block)::decode_\w+$', n):
                sites.append((bb, n.split('::')[-1], None))
        # order: reverse post-order of the CFG
        order = {x: i for i, x in enumerate(g.rpo())}
        sites.sort(key=lambda s_: order.get(s_[0], 10 ** 6))
        self.reads = sites
        self.read_of_bb = {s_[0]: i + 1 for i, s_ in enumerate(sites)}

    def ex(self, operand):
        """expr_of with reader calls tagged by their read index"""
        from . import dataflow
        old = dataflow.CALL_TAGGER
        dataflow.CALL_TAGGER = lambda name, bb, t: ('%s#%d' % (name, self.read_of_bb[bb])) if bb in self.read_of_bb else name
        try:
            return expr_of(self.F, self.b, operand, 0, {})
        finally:
            dataflow.CALL_TAGGER = old

    def read_id(self, e):
        """which read does expression e (the Ok payload of a reader call) denote: returns k or None"""
        e = strip_casts(e)
        if e[0] == 'fld' and e[1][0] == 'call' and e[1][1].endswith('Try>::branch') and e[2] == (('as', 0), 0):
            c = e[1][2]
            if c[0] == 'call' and '#' in c[1]: return int(c[1].rsplit('#', 1)[1])
        if e[0] == 'call' and '#' in e[1] and not e[1].split('#')[0].endswith('branch'):
            return None
        return None

    # ---- slices
    def slice_of(self, e):
        """(read k, mask, shift) if e == ((read_k & mask) >> shift), else None"""
        e = strip_casts(e)
        k = self.read_id(e)
        if k is not None: return (k, None, 0)
        if e[0] == 'op' and e[1] == 'BitAnd':
            for x, y in ((e[2], e[3]), (e[3], e[2])):
                y = strip_casts(y)
                if y[0] == 'c':
                    s = self.slice_of(x)
                    if s and s[1] is None and s[2] == 0: return (s[0], y[1], 0)
                    if s and s[2] == 0 and s[1] is not None: return (s[0], s[1] & y[1], 0)
        if e[0] == 'op' and e[1] == 'Shr':
            y = strip_casts(e[3])
            if y[0] == 'c':
                s = self.slice_of(e[2])
                if s and s[2] == 0: return (s[0], s[1], y[1])
        return None

    def fmt_slice(self, s):
        k, mask, sh = s
        if mask is None: return 'r%d' % k
        hi = mask.bit_length() - 1; lo = (mask & -mask).bit_length() - 1
        contiguous = mask == ((1 << (hi + 1)) - 1) ^ ((1 << lo) - 1)
        if not contiguous: return 'r%d&0x%x' % (k, mask)
        base = 'r%d[%d]' % (k, hi) if hi == lo else 'r%d[%d:%d]' % (k, hi, lo)
        # a shift that does not right-align the slice is made explicit
        return base if sh in (0, lo) else '%s>>%d' % (base, sh)

    # ---- conditions
    def decision(self, bb, succ):
        """normalised decision of edge bb->succ, or None for decisions that carry no information (`?` success, drop flags)"""
        key = (bb, succ)
        if key in self._cond_cache: return self._cond_cache[key]
        r = self._decision(bb, succ)
        self._cond_cache[key] = r
        return r

    def _decision(self, bb, succ):
        F, b, g, D = self.F, self.b, self.g, self.D
        t = g.blocks[bb]['term']
        if t['t'] != 'switch': return None
        arms = [(int(v), to) for v, to in t['arms']]
        vals = [v for v, to in arms if to == succ]
        is_other = succ == t['otherwise'] and not vals
        e = self.ex(t['on'])
        return self._norm(e, vals, is_other, [v for v, _ in arms], t)

    def _norm(self, e, vals, is_other, all_vals, t):
        """decision `switch value e took one of vals` (or none of all_vals when is_other):
        ('S', slice, universe size, allowed values) | ('V', place, n variants, allowed variants) | ('A', atom text, truth) | None"""
        e0 = e
        e = strip_casts(e)
        if e[0] == 'discr' and e[1][0] == 'call' and e[1][1].split('#')[0].endswith('Try>::branch'): return None
        # truth of a bool-valued switch operand on this edge
        truth = None
        if set(all_vals) <= {0, 1}:
            if vals == [0]: truth = False
            elif vals == [1] or is_other and all_vals == [0]: truth = True
            elif is_other and all_vals == [1]: truth = False
        if e[0] == 'op' and e[1] in ('Eq', 'Ne', 'Lt', 'Le', 'Gt', 'Ge') and truth is not None:
            op = e[1]
            a, c = strip_casts(e[2]), strip_casts(e[3])
            if a[0] == 'c' and c[0] != 'c':
                a, c = c, a; op = {'Lt': 'Gt', 'Le': 'Ge', 'Gt': 'Lt', 'Ge': 'Le', 'Eq': 'Eq', 'Ne': 'Ne'}[op]
            if not truth: op = {'Eq': 'Ne', 'Ne': 'Eq', 'Lt': 'Ge', 'Le': 'Gt', 'Gt': 'Le', 'Ge': 'Lt'}[op]
            s = self.slice_of(a)
            if s is not None and c[0] == 'c':
                return self._slice_dec(s, op, c[1])
            if c[0] == 'c' and c[1] in (0, 1) and op in ('Eq', 'Ne'):
                inner_true = (op == 'Eq') == (c[1] == 1)
                return self._norm(a, [1] if inner_true else [0], False, [0], t)
            return ('A', expr_str(e0, self.names), truth)
        if e[0] == 'un' and e[1] == 'Not' and truth is not None:
            return self._norm(e[2], [0] if truth else [1], False, [0], t)
        s = self.slice_of(e)
        if s is not None:
            n = self._universe(s)
            k, mask, sh = s
            lo = (mask & -mask).bit_length() - 1 if mask else 0
            txt = self.fmt_slice((k, mask, lo))
            def norm_v(v):
                # switch values are those of ((r & mask) >> sh)
                if mask is not None and sh == 0: return v >> lo if v % (1 << lo) == 0 else None
                return v
            if mask is not None and sh not in (0, lo): return ('A', '%s in %s' % (self.fmt_slice(s), vals or ('not', all_vals)), True)
            if is_other:
                excl = {norm_v(v) for v in all_vals}
                if n is None: return ('A', '%s not in %s' % (txt, sorted(all_vals)), True)
                return ('S', txt, n, frozenset(set(range(n)) - excl))
            return ('S', txt, n, frozenset(norm_v(v) for v in vals if norm_v(v) is not None))
        if e[0] == 'call' and truth is not None:
            n = e[1].split('#')[0]
            if n.endswith('::contains') and len(e) == 4:
                flag = e[3]
                fname = flag[1].split('::')[-1] if flag[0] == 'item' else expr_str(flag, self.names)
                return ('A', '%s has %s' % (self._who(e[2]), fname), truth)
            if n.endswith('is_some') or n.endswith('is_none'):
                pos = n.endswith('is_some') == truth
                return ('V', self._who(e[2]), 2, frozenset([1 if pos else 0]))
            return ('A', expr_str(e0, self.names), truth)
        if e[0] == 'discr':
            who = self._who(e[1])
            nv = self._nvariants(t)
            if is_other:
                if nv is None: return ('A', '%s not in %s' % (who, sorted(all_vals)), True)
                return ('V', who, nv, frozenset(set(range(nv)) - set(all_vals)))
            return ('V', who, nv, frozenset(vals))
        if e[0] in ('multi', 'param', 'fld') and truth is not None:
            return ('A', self._who(e), truth)
        return ('A', '%s in %s' % (expr_str(e0, self.names), vals if not is_other else ('not', all_vals)), True)

    def _nvariants(self, t):
        from .cfg import ENUM_VARIANTS, _strip_generics
        on = t['on']
        blk = None
        for bb in self.g.reach:
            if self.g.blocks[bb]['term'] is t: blk = self.g.blocks[bb]
        if blk is None or on.get('o') not in ('move', 'copy'): return None
        for s_ in reversed(blk['stmts']):
            if s_['s'] == 'assign' and s_['lhs']['l'] == on['p']['l'] and s_['rv']['r'] == 'discr':
                ty = _strip_generics(s_['rv']['p']['ty']).lstrip('&').strip()
                if ty.startswith('mut '): ty = ty[4:]
                return ENUM_VARIANTS.get(ty)
        return None

    def _who(self, e):
        e = strip_casts(e)
        s = self.slice_of(e)
        if s: return self.fmt_slice(s)
        return expr_str(e, self.names)

    def _unshift(self, s, v):
        return v

    def _universe(self, s):
        k, mask, sh = s
        if mask is not None:
            return 1 << bin(mask).count('1') if self._contiguous(mask) else None
        w = self.reads[k - 1][2]
        return (1 << w) if isinstance(w, int) and w <= 24 else None

    @staticmethod
    def _contiguous(mask):
        hi = mask.bit_length() - 1; lo = (mask & -mask).bit_length() - 1
        return mask == ((1 << (hi + 1)) - 1) ^ ((1 << lo) - 1)

    def _slice_dec(self, s, op, c):
        """decision  slice OP c  as a value set over the right-aligned slice"""
        k, mask, sh = s
        txt = self.fmt_slice((k, mask, (mask & -mask).bit_length() - 1 if mask else 0))
        n = self._universe(s)
        lo = (mask & -mask).bit_length() - 1 if mask else 0
        # bring the constant to the right-aligned slice
        if mask is not None:
            if sh == 0:
                if c % (1 << lo) != 0 and op in ('Eq',): return ('S', txt, n, frozenset())    # can never be equal
                if c % (1 << lo) != 0: return ('A', '%s %s %d' % (self.fmt_slice(s), op, c), True)
                c >>= lo
            elif sh != lo:
                return ('A', '%s %s %d' % (self.fmt_slice(s), op, c), True)
        if n is None:
            if op == 'Eq': return ('S', txt, None, frozenset([c]))
            return ('A', '%s %s %d' % (txt, op, c), True)
        allv = range(n)
        f = {'Eq': lambda v: v == c, 'Ne': lambda v: v != c, 'Lt': lambda v: v < c, 'Le': lambda v: v <= c, 'Gt': lambda v: v > c, 'Ge': lambda v: v >= c}[op]
        return ('S', txt, n, frozenset(v for v in allv if f(v)))

    def _slice_cond(self, s, op, c):
        return self._slice_dec(s, op, c)

    def _bool_local(self, e, truth):
        """a bool local assigned `true`/`false` in the arms of one decision (matches!(), match .. => true/false)"""
        if e[0] != 'multi': return None
        l = e[1]
        ds = self.D.defs.get(l, [])
        consts = {}
        for d in ds:
            if d[0] == 'assign' and d[3]['rv']['r'] == 'use' and d[3]['rv']['a']['o'] == 'const' and 'bits' in d[3]['rv']['a']:
                consts[d[1]] = int(d[3]['rv']['a']['bits']) != 0
            else: return None
        want = [bb for bb, v in consts.items() if v == truth]
        if len(want) != 1: return None
        return None

    def conditions(self, bb, stop_at=None):
        """path condition of block bb as a DNF: frozenset of conjunctions (frozensets of decisions)"""
        if self._pc is None: self._compute_pc()
        return self._pc.get(bb, frozenset())

    def _compute_pc(self):
        g = self.g
        back = set(g.back_edges())
        pc = {0: frozenset([frozenset()])}
        for bb in g.rpo():
            if bb not in pc: continue
            for succ in g.succ[bb]:
                if (bb, succ) in back: continue
                d = self.decision(bb, succ) if len(g.succ[bb]) > 1 else None
                new = set()
                for c in pc[bb]:
                    c2 = conj_add(c, d)
                    if c2 is not None: new.add(c2)
                cur = set(pc.get(succ, frozenset()))
                pc[succ] = simplify(cur | new)
        self._pc = pc

    # ---- effects
    def effects(self):
        """list of (kind, what, conditions, bb)"""
        F, b, g, D = self.F, self.b, self.g, self.D
        out = []
        for i, (bb, callee, w) in enumerate(self.reads):
            out.append(('read', (i + 1, callee, w), self.conditions(bb), bb))
        for bb in sorted(g.reach):
            blk = g.blocks[bb]
            for s in blk['stmts']:
                if s['s'] != 'assign' or s['rv']['r'] != 'agg': continue
                kd = s['rv']['kind']
                if kd['a'] != 'adt': continue
                path = kd['path']; vn = kd['vname']
                adt = F.adts.get(b['crate'] + '::' + path)
                if path.endswith('error::Error'):
                    out.append(('err', vn, self.conditions(bb), bb))
                elif adt and adt['kind'] == 'enum' and not s['rv']['ops']:
                    out.append(('variant', '%s::%s' % (path.split('::')[-1], vn), self.conditions(bb), bb))
                elif adt and adt['kind'] == 'enum':
                    ops = tuple(self._who(self.ex(o)) for o in s['rv']['ops'])
                    out.append(('variant', '%s::%s(%s)' % (path.split('::')[-1], vn, ', '.join(ops)), self.conditions(bb), bb))
            t = blk['term']
            if t['t'] == 'call':
                n = F.callee_name(t)
                if n.endswith('bitor_assign') and len(t['args']) == 2:
                    tgt = strip_ref(D.origin(t['args'][0]))
                    l = tgt[1] if tgt[0] == 'multi' else (tgt[2]['dest']['l'] if tgt[0] == 'call' else (tgt[2]['lhs']['l'] if tgt[0] == 'rv' else None))
                    who = self.names.get(str(l), '_%s' % l)
                    fl = self.ex(t['args'][1])
                    fname = fl[1].split('::')[-1] if fl[0] == 'item' else expr_str(fl, self.names)
                    out.append(('flag', (who, fname), self.conditions(bb), bb))
        return out


def dec_key(d):
    """(variable, universe) of a decision"""
    return (d[0], d[1])


def conj_add(c, d):
    """conjunction c extended with decision d (None = no information); returns None if contradictory"""
    if d is None: return c
    out = set(c)
    for e in c:
        if dec_key(e) == dec_key(d):
            m = dec_meet(e, d)
            if m is None: return None
            out.discard(e); out.add(m)
            return frozenset(out)
    out.add(d)
    return frozenset(out)


def dec_meet(a, b):
    if a[0] in ('S', 'V'):
        vs = a[3] & b[3]
        return (a[0], a[1], a[2], vs) if vs else None
    if a[0] == 'A':
        return a if a[2] == b[2] else None
    return a if a == b else None


def dec_join(a, b):
    """disjunction of two decisions on the same variable; returns 'true' when it covers everything"""
    if a[0] in ('S', 'V'):
        vs = a[3] | b[3]
        if a[2] is not None and len(vs) >= a[2]: return 'true'
        return (a[0], a[1], a[2], vs)
    if a[0] == 'A':
        return a if a[2] == b[2] else 'true'
    return None


def simplify(dnf):
    dnf = set(dnf)
    changed = True
    while changed:
        changed = False
        lst = list(dnf)
        for i in range(len(lst)):
            for j in range(len(lst)):
                if i == j: continue
                a, b = lst[i], lst[j]
                if a <= b and a != b:
                    dnf.discard(b); changed = True; break
                # differ in exactly one decision on the same variable: merge
                da = a - b; db = b - a
                if len(da) == 1 and len(db) == 1:
                    x, y = next(iter(da)), next(iter(db))
                    if dec_key(x) == dec_key(y):
                        m = dec_join(x, y)
                        if m is not None:
                            common = a & b
                            dnf.discard(a); dnf.discard(b)
                            dnf.add(common if m == 'true' else frozenset(common | {m}))
                            changed = True; break
            if changed: break
    return frozenset(dnf)


def fmt_dec(d):
    if d[0] == 'S':
        vs = sorted(d[3])
        if d[2] == 2: return '%s=%d' % (d[1], vs[0]) if len(vs) == 1 else '%s=any' % d[1]
        if len(vs) == 1: return '%s == %d' % (d[1], vs[0])
        if d[2] is not None and len(vs) > d[2] // 2:
            rest = sorted(set(range(d[2])) - set(vs))
            return '%s not in %s' % (d[1], rest) if len(rest) != 1 else '%s != %d' % (d[1], rest[0])
        return '%s in %s' % (d[1], vs)
    if d[0] == 'V': return '%s is variant %s' % (d[1], sorted(d[3]))
    if d[0] == 'A': return '%s%s' % ('' if d[2] else '!', d[1])
    return str(d)


def fmt_cond(dnf):
    if not dnf: return 'never'
    parts = []
    for c in sorted(dnf, key=lambda c_: sorted(map(fmt_dec, c_))):
        parts.append(' & '.join(sorted(fmt_dec(d) for d in c)) or 'always')
    return ' | '.join(parts)
